"""C13 — parallel execution is order-preserving and equivalent to sequential execution.

Monitors (DESIGN.md section 3, C13):

* (M5a) gated workers + controller (``vlib/sched_c13.py``): every completion order a FIFO pool of
  ``w`` workers allows is *forced* on ``CallableParallelExecution.execute`` (and on
  ``DiscParallelExecution`` / ``DiscParallelLinearization``), for threads and forked processes, for
  every subset of failing tasks; the dequeue moment is observed from outside (callback for a success,
  the ``"Failed to execute task indexed %s"`` log record for a failure), so the order that is counted
  as observed is read back from the logs;
* (M1/M3) lock-protected callback log with enter/exit events, per-task execution counters shared with
  the workers, start order;
* (M4) closed-form expected values and sequential twins for DOEs, chains, derivative approximation;
* (M5b) ``sys.monitoring`` LINE-level yield injection (restricted to gemseo/caches, gemseo/utils/locks.py,
  gemseo/core/parallel_execution) for thread workers sharing a cache; structural invariants of the
  cache asserted at quiescence under the cache's own lock;
* (M8) anchors.
"""

from __future__ import annotations

import contextlib
import os
import random
import sys
import threading
import time

import numpy as np

from vlib import sched_c13 as sc
from vlib.harness import sig_hash
from vlib.harness import subseed

PID = "C13"
LEVEL = "fault_enumeration"
RULE = (
    "a case is one forced schedule: (kind in callable/DiscParallelExecution/DiscParallelLinearization, backend "
    "thread|fork-process, n tasks, w workers, one worker for all tasks or one per task, set of failing tasks, "
    "task raising a listed exception or none, completion order); all completion orders a FIFO pool of w workers "
    "allows are enumerated (threads: n<=4 x every failing subset x every w in quick, n<=6 in thorough; processes: "
    "n<=3 x every failing subset, n<=4 in thorough), larger n are sampled; plus end-to-end equivalence cases (parallel vs sequential "
    "DOE, parallel/additive chains, parallel finite differences, caches shared by thread workers under injected "
    "yields and by process workers); a schedule is distinct by that tuple and non-trivial when n>=2; the evidence "
    "counts the distinct completion orders read back from the dequeue logs"
)
ASSUMPTIONS = [
    "the dequeue of a successful task is observed through the public callback, the dequeue of a failing task through "
    "the ERROR record 'Failed to execute task indexed %s' emitted by CallableParallelExecution.execute on its module logger",
    "watchdogs (10 s threads / 30 s processes per gate) never decide a verdict: a lost schedule control is inconclusive",
    "harness tasks return values that identify both the worker used and the input received; inputs are distinct per task",
    "DOE equivalence is judged for samples whose failure (ValueError) occurs in the first evaluated function; a failure "
    "in a later function leaves a partial entry in the sequential database only and is recorded as an observation",
    "yield injection perturbs thread interleavings with a seeded probability but thread scheduling itself is not replayable; "
    "the invariants asserted do not depend on the interleaving",
]
ANCHORS = [
    "gemseo.core.parallel_execution.callable_parallel_execution:CallableParallelExecution.execute",
    "gemseo.core.parallel_execution.callable_parallel_execution:_execute_workers",
    "gemseo.core.parallel_execution.callable_parallel_execution:_TaskCallables.__call__",
    "gemseo.core.parallel_execution.disc_parallel_execution:DiscParallelExecution.execute",
    "gemseo.core.parallel_execution.disc_parallel_linearization:DiscParallelLinearization.execute",
    "gemseo.algos.doe.base_doe_library:BaseDOELibrary._run",
    "gemseo.algos.doe.base_doe_library:BaseDOELibrary.__store_in_database",
    "gemseo.core.chains.parallel_chain:MDOParallelChain._execute",
    "gemseo.core.chains.parallel_chain:MDOParallelChain._compute_jacobian",
    "gemseo.core.chains.additive_chain:MDOAdditiveChain._execute",
    "gemseo.utils.derivatives.finite_differences:FirstOrderFD._compute_parallel_grad",
    "gemseo.utils.derivatives.centered_differences:CenteredDifferences._compute_parallel_grad",
    "gemseo.caches.base_full_cache:BaseFullCache.cache_outputs",
    "gemseo.caches.base_full_cache:BaseFullCache.cache_jacobian",
    "gemseo.caches.base_full_cache:BaseFullCache.__getitem__",
]
MIN_COUNTERS = {
    # the exhaustive parts must be complete (exact counts); the rest is about half of what seed 0 observes
    "quick": {"thread_schedules": 1000, "process_schedules": 100, "forced_order_honoured": 1100,
              "distinct_completion_orders_observed_thread": 270, "distinct_completion_orders_observed_process": 20,
              "distinct_out_of_order_completions_observed_thread": 240, "distinct_out_of_order_completions_observed_process": 10,
              "failure_dequeues_observed": 1600, "oracle_result_slots": 4400, "oracle_callbacks_checked": 3300,
              "oracle_task_execution_counts": 4600, "oracle_discipline_state_checked": 180, "reraise_cases": 40,
              "disc_exec_schedules": 60, "disc_lin_schedules": 60, "doe_equivalence_checked": 6,
              "distinct_out_of_order_doe_completions_observed": 5, "chain_equivalence_checked": 6, "chain_jacobian_checked": 6,
              "chain_gated_phases": 12, "fd_parallel_equals_serial_checked": 3, "shared_cache_runs": 16, "yield_injected_runs": 14,
              "yields_injected": 2500, "yields_in_base_full_cache.py": 14, "yields_in_locks.py": 14,
              "yields_in_callable_parallel_execution.py": 14, "cache_invariant_evaluations": 16, "precached_inputs_checked": 12,
              "fd_equiv_checked": 25, "fd_equiv_fd": 6, "fd_equiv_cd": 6, "fd_equiv_cs": 6, "fd_equiv_step_call-scalar": 7,
              "fd_equiv_step_call-array": 3, "fd_equiv_step_call-equal": 3, "fd_equiv_step_ctor": 3, "fd_equiv_step_default": 3,
              "chain_inplace_deepcopy_checked": 6, "chain_inplace_mutator_released_before_another_discipline": 6,
              "chain_inplace_shared_inputs_observed": 2, "fd_equiv_subset": 5, "fd_equiv_design_space": 8, "fd_equiv_design_space_normalized": 3, "fd_equiv_on_or_near_ub": 5},
    "thorough": {"thread_schedules": 87000, "process_schedules": 1100, "forced_order_honoured": 88000,
                 "distinct_completion_orders_observed_thread": 9400, "distinct_completion_orders_observed_process": 270,
                 "distinct_out_of_order_completions_observed_thread": 9300, "distinct_out_of_order_completions_observed_process": 260,
                 "failure_dequeues_observed": 230000, "oracle_result_slots": 530000, "oracle_callbacks_checked": 340000,
                 "oracle_task_execution_counts": 530000, "oracle_discipline_state_checked": 1900, "reraise_cases": 180,
                 "disc_exec_schedules": 500, "disc_lin_schedules": 500, "doe_equivalence_checked": 30,
                 "distinct_out_of_order_doe_completions_observed": 30, "chain_equivalence_checked": 40, "chain_jacobian_checked": 40,
                 "chain_gated_phases": 80, "fd_parallel_equals_serial_checked": 20, "shared_cache_runs": 215, "yield_injected_runs": 200,
                 "yields_injected": 40000, "yields_in_base_full_cache.py": 200, "yields_in_locks.py": 200,
                 "yields_in_callable_parallel_execution.py": 200, "cache_invariant_evaluations": 215, "precached_inputs_checked": 185,
                 "fd_equiv_checked": 300, "fd_equiv_fd": 90, "fd_equiv_cd": 90, "fd_equiv_cs": 90, "fd_equiv_step_call-scalar": 90,
                 "fd_equiv_step_call-array": 45, "fd_equiv_step_call-equal": 45, "fd_equiv_step_ctor": 45, "fd_equiv_step_default": 45,
                 "chain_inplace_deepcopy_checked": 40, "chain_inplace_mutator_released_before_another_discipline": 50,
                 "chain_inplace_shared_inputs_observed": 15, "fd_equiv_subset": 70, "fd_equiv_design_space": 140, "fd_equiv_design_space_normalized": 60, "fd_equiv_on_or_near_ub": 100},
}
SHARD_TIMEOUT = {"quick": 400, "thorough": 2400}
N_SHARDS = 16

EXEC = "CallableParallelExecution.execute"


# =========================================================================== harness pieces
class HarnessFailure(RuntimeError):
    """Raised by a task that must fail (never listed in exceptions_to_re_raise)."""


class HarnessStop(KeyError):
    """Raised by the task whose exception type is listed in exceptions_to_re_raise."""


def g_int(v: int) -> int:
    return (v * 2654435761 + 12345) % 1000003


class _Task:
    """A gated task; ``tag`` identifies the worker object used (-1: the single shared worker)."""

    def __init__(self, gates, tag, fail, stop):
        self.gates, self.tag, self.fail, self.stop = gates, tag, fail, stop

    def __call__(self, x):
        i, v = x
        self.gates.enter(i)
        try:
            if i == self.stop:
                raise HarnessStop(i)
            if i in self.fail:
                raise HarnessFailure(f"task {i} fails on purpose")
            return (self.tag, i, g_int(v))
        finally:
            self.gates.leave(i)


def _discipline_classes():
    """Harness disciplines (created lazily so that importing the check does not import gemseo)."""
    global _DISC_CLASSES
    try:
        return _DISC_CLASSES
    except NameError:
        pass
    from gemseo.core.discipline import Discipline

    class GatedDisc(Discipline):
        """y<k> = c*x**2 + k ; dy/dx = diag(2 c x).  ``k`` None: one discipline for all tasks (index = int(x[0]))."""

        def __init__(self, k, c, fail=(), stop=None, out=None):
            super().__init__(name=f"G{k}")
            self.k, self.c, self.fail, self.stop = k, c, set(fail), stop
            self.out = out or ("y" if k is None else f"y{k}")
            self.gates = None
            self.phase = "run"
            self.io.input_grammar.update_from_names(["x"])
            self.io.output_grammar.update_from_names([self.out])
            self.io.input_grammar.defaults = {"x": np.zeros(2)}

        def _index(self, x):
            return self.k if self.k is not None else int(np.real(x[0]))

        def _run(self, input_data):
            x = input_data["x"]
            i = self._index(x)
            gated = self.gates is not None and self.phase == "run"
            if gated:
                self.gates.enter(i)
            try:
                if i == self.stop:
                    raise HarnessStop(i)
                if i in self.fail:
                    raise HarnessFailure(f"discipline task {i} fails on purpose")
                return {self.out: self.c * x**2 + (0 if self.k is None else self.k)}
            finally:
                if gated:
                    self.gates.leave(i)

        def _compute_jacobian(self, input_names=(), output_names=()):
            x = self.io.data["x"]
            i = self._index(x)
            gated = self.gates is not None and self.phase == "jac"
            if gated:
                self.gates.enter(i)
            try:
                self.jac = {self.out: {"x": np.diag(2 * self.c * np.real(x))}}
            finally:
                if gated:
                    self.gates.leave(i)

    class ChainDisc(Discipline):
        """y<k> = c x^2 + d z ; optional shared output s = e x + z."""

        def __init__(self, k, c, d, e, with_s, use_z=True, mutate=None):
            super().__init__(name=f"C{k}")
            self.k, self.c, self.d, self.e, self.with_s, self.use_z = k, c, d, e, with_s, use_z
            self.mutate = mutate  # None | "scale" (x *= 2) | "set0" (x[0] = 7.5): works in place on its own input arrays
            self.gates = None
            self.phase = "run"
            ins = ["x"] + (["z"] if use_z else [])
            outs = [f"y{k}"] + (["s"] if with_s else [])
            self.io.input_grammar.update_from_names(ins)
            self.io.output_grammar.update_from_names(outs)
            self.io.input_grammar.defaults = {n: np.zeros(2) for n in ins}

        def mutated(self, x):
            """What this discipline makes of its own copy of x before computing."""
            x = np.array(x, dtype=float)
            if self.mutate == "scale":
                x *= 2.0
            elif self.mutate == "set0":
                x[0] = 7.5
            return x

        def values(self, x, z):
            out = {f"y{self.k}": self.c * x**2 + (self.d * z if self.use_z else 0.0)}
            if self.with_s:
                out["s"] = self.e * x + (z if self.use_z else 0.0)
            return out

        def jacobians(self, x, z):
            n = len(x)
            out = {f"y{self.k}": {"x": np.diag(2 * self.c * x)}}
            if self.use_z:
                out[f"y{self.k}"]["z"] = self.d * np.eye(n)
            if self.with_s:
                out["s"] = {"x": self.e * np.eye(n)}
                if self.use_z:
                    out["s"]["z"] = np.eye(n)
            return out

        def _run(self, input_data):
            gated = self.gates is not None and self.phase == "run"
            if gated:
                self.gates.enter(self.k)
            try:
                x = input_data["x"]
                if self.mutate == "scale":
                    x *= 2.0
                elif self.mutate == "set0":
                    x[0] = 7.5
                return self.values(x, input_data["z"] if self.use_z else None)
            finally:
                if gated:
                    self.gates.leave(self.k)

        def _compute_jacobian(self, input_names=(), output_names=()):
            gated = self.gates is not None and self.phase == "jac"
            if gated:
                self.gates.enter(self.k)
            try:
                d = self.io.data
                self.jac = self.jacobians(np.real(d["x"]), np.real(d["z"]) if self.use_z else None)
            finally:
                if gated:
                    self.gates.leave(self.k)

    class CacheDisc(Discipline):
        """All instances compute the same y = a*x**2 + sin(x) so that they can share one cache."""

        def __init__(self, k, log, lock, delay=0.0):
            super().__init__(name=f"K{k}")
            self.k, self.log, self.log_lock, self.delay = k, log, lock, delay
            self.io.input_grammar.update_from_names(["x"])
            self.io.output_grammar.update_from_names(["y"])
            self.io.input_grammar.defaults = {"x": np.zeros(2)}

        @staticmethod
        def value(x):
            return 1.5 * x**2 + np.sin(x)

        @staticmethod
        def jacobian(x):
            return np.diag(3.0 * x + np.cos(x))

        def _run(self, input_data):
            x = input_data["x"]
            if self.log is not None:
                with self.log_lock:
                    self.log.append(tuple(np.real(x).tolist()))
            if self.delay:
                time.sleep(self.delay * (1 + int(abs(x[0])) % 3))
            return {"y": self.value(x)}

        def _compute_jacobian(self, input_names=(), output_names=()):
            self.jac = {"y": {"x": self.jacobian(np.real(self.io.data["x"]))}}

    _DISC_CLASSES = {"GatedDisc": GatedDisc, "ChainDisc": ChainDisc, "CacheDisc": CacheDisc}
    return _DISC_CLASSES


def arr_eq(a, b) -> bool:
    try:
        a, b = np.asarray(a), np.asarray(b)
        return a.shape == b.shape and bool(np.array_equal(a, b))
    except Exception:
        return False


def dense(a):
    return a.toarray() if hasattr(a, "toarray") else np.asarray(a)


def map_eq(obs, exp) -> bool:
    """``obs`` (a mapping) holds exactly the arrays of ``exp`` (for the names of ``exp``)."""
    try:
        return all(k in obs and arr_eq(obs[k], v) for k, v in exp.items())
    except Exception:
        return False


def jac_eq(obs, exp, tol=0.0) -> bool:
    try:
        for o, row in exp.items():
            for i, v in row.items():
                got = dense(obs[o][i])
                if got.shape != v.shape:
                    return False
                if tol == 0.0:
                    if not np.array_equal(got, v):
                        return False
                elif not np.allclose(got, v, rtol=tol, atol=tol):
                    return False
        return True
    except Exception:
        return False


def brief(obj, depth=0):
    """Small JSON-able rendering of results for the witness."""
    if obj is None or isinstance(obj, (int, float, str, bool)):
        return obj
    if isinstance(obj, BaseException):
        return f"{type(obj).__name__}{obj.args}"
    if isinstance(obj, np.ndarray):
        return obj.tolist() if obj.size <= 16 else f"ndarray{obj.shape}"
    if hasattr(obj, "toarray"):
        return brief(obj.toarray(), depth)
    if depth > 4:
        return repr(obj)[:80]
    if hasattr(obj, "_asdict"):
        return {k: brief(v, depth + 1) for k, v in obj._asdict().items()}
    if hasattr(obj, "items"):
        try:
            return {str(k): brief(v, depth + 1) for k, v in obj.items()}
        except Exception:
            return repr(obj)[:80]
    if isinstance(obj, (list, tuple)):
        return [brief(v, depth + 1) for v in obj]
    return repr(obj)[:80]


# =========================================================================== gated schedules
class _Adapter:
    """What differs between the three gated kinds."""

    where = EXEC

    def __init__(self, case, gates):
        self.case, self.gates = case, gates
        self.n = case["n"]
        self.fail = set(case["fail"])
        self.stop = case.get("reraise")
        self.threads = case["backend"] == "thread"
        self.listed = (HarnessStop,) if case.get("listed") or self.stop is not None else ()


class CallableAdapter(_Adapter):
    def build(self):
        from gemseo.core.parallel_execution.callable_parallel_execution import CallableParallelExecution

        c = self.case
        if c["workers"] == "single":
            workers = [_Task(self.gates, -1, self.fail, self.stop)]
        else:
            workers = [_Task(self.gates, k, self.fail, self.stop) for k in range(self.n)]
        self.inputs = [(i, v) for i, v in enumerate(c["values"])]
        self.tags = [-1 if c["workers"] == "single" else i for i in range(self.n)]
        return CallableParallelExecution(workers, n_processes=c["w"], use_threading=self.threads,
                                         exceptions_to_re_raise=self.listed)

    def expected(self, i):
        return (self.tags[i], i, g_int(self.case["values"][i]))

    def result_ok(self, i, obj):
        return isinstance(obj, (tuple, list)) and tuple(obj) == self.expected(i)

    callback_ok = result_ok

    def which_index(self, obj):
        """Index of the task whose expected value ``obj`` is (to name an index mix-up), or None."""
        for j in range(self.n):
            if self.result_ok(j, obj):
                return j
        return None

    def post(self, rep, res, report):
        pass


class DiscExecAdapter(_Adapter):
    where = "DiscParallelExecution.execute"
    phase = "run"

    def _disciplines(self):
        c = self.case
        G = _discipline_classes()["GatedDisc"]
        if c["workers"] == "single":
            ds = [G(None, c["coefs"][0], self.fail, self.stop)]
        else:
            ds = [G(k, c["coefs"][k], self.fail, self.stop) for k in range(self.n)]
        for d in ds:
            d.gates = self.gates
            d.phase = self.phase
        self.discs = ds
        self.inputs = [{"x": np.array([i + 0.25, float(v)])} for i, v in enumerate(c["values"])]
        return ds

    def build(self):
        from gemseo.core.parallel_execution.disc_parallel_execution import DiscParallelExecution

        c = self.case
        return DiscParallelExecution(self._disciplines(), n_processes=c["w"], use_threading=self.threads,
                                     exceptions_to_re_raise=self.listed)

    def _disc(self, i):
        return self.discs[0] if len(self.discs) == 1 else self.discs[i]

    def exp_out(self, i):
        d = self._disc(i)
        x = self.inputs[i]["x"]
        return {"x": x, d.out: d.c * x**2 + (0 if d.k is None else d.k)}

    def exp_jac(self, i):
        d = self._disc(i)
        return {d.out: {"x": np.diag(2 * d.c * self.inputs[i]["x"])}}

    def result_ok(self, i, obj):
        return obj is not None and map_eq(obj, self.exp_out(i))

    callback_ok = result_ok

    def which_index(self, obj):
        for j in range(self.n):
            if self.result_ok(j, obj):
                return j
        return None

    def post(self, rep, res, report):
        # per-task disciplines: local data of discipline i are the outputs for input i
        if len(self.discs) != self.n or self.n == 1:
            return
        for i, d in enumerate(self.discs):
            if i in self.fail or i == self.stop:
                continue
            rep.count("oracle_discipline_state_checked")
            if not map_eq(d.io.data, self.exp_out(i)):
                report("discipline-local-data-not-those-of-its-own-task",
                       f"local data of discipline {i} after the parallel execution",
                       brief(d.io.data), brief(self.exp_out(i)))
                return


class DiscLinAdapter(DiscExecAdapter):
    where = "DiscParallelLinearization.execute"
    phase = "run"  # the gate sits in _run, which linearize(execute=True) calls first

    def build(self):
        from gemseo.core.parallel_execution.disc_parallel_linearization import DiscParallelLinearization

        c = self.case
        ds = self._disciplines()
        for d in ds:
            d.add_differentiated_inputs(["x"])
            d.add_differentiated_outputs([d.out])
        return DiscParallelLinearization(ds, n_processes=c["w"], use_threading=self.threads,
                                         exceptions_to_re_raise=self.listed)

    def result_ok(self, i, obj):
        return obj is not None and jac_eq(obj, self.exp_jac(i))

    def callback_ok(self, i, obj):
        try:
            return map_eq(obj.io_data, self.exp_out(i)) and jac_eq(obj.jacobian, self.exp_jac(i))
        except Exception:
            return False

    def which_index(self, obj):
        for j in range(self.n):
            if self.result_ok(j, obj) or self.callback_ok(j, obj):
                return j
        return None

    def post(self, rep, res, report):
        if len(self.discs) != self.n or self.n == 1:
            return
        for i, d in enumerate(self.discs):
            if i in self.fail or i == self.stop:
                continue
            rep.count("oracle_discipline_state_checked")
            if not (map_eq(d.io.data, self.exp_out(i)) and jac_eq(d.jac, self.exp_jac(i))):
                report("discipline-local-data-not-those-of-its-own-task",
                       f"local data / jac of discipline {i} after the parallel linearization",
                       {"data": brief(d.io.data), "jac": brief(d.jac)},
                       {"data": brief(self.exp_out(i)), "jac": brief(self.exp_jac(i))})
                return


ADAPTERS = {"callable": CallableAdapter, "disc_exec": DiscExecAdapter, "disc_lin": DiscLinAdapter}
_STATE = {"lost": 0, "orders": {"thread": set(), "process": set()}}


def gated_signature(case):
    return (case["kind"], case["backend"], case["n"], case["w"], case["workers"], tuple(sorted(case["fail"])),
            case.get("reraise"), bool(case.get("listed")), tuple(case["order"]), case.get("ncb", 1))


def run_gated(case, rep):
    """Force one completion order on one parallel execution and judge everything that was observed."""
    n, w, backend = case["n"], case["w"], case["backend"]
    order = list(case["order"])
    F = set(case["fail"])
    stop = case.get("reraise")
    ncb = case.get("ncb", 1)
    rep.case(gated_signature(case), nontrivial=n >= 2)
    gates = sc.Gates(n, backend)
    ad = ADAPTERS[case["kind"]](case, gates)
    where = ad.where
    seen = []

    def report(what, clause, observed, expected, feature=None, bare=False):
        feats = feature if feature is not None else ("with-failures" if F or stop is not None else "no-failure")
        seen.append(what)
        sig = f"C13:{where}:{what}" if bare else f"C13:{where}:{what}:{backend}:{feats}"
        rep.violation(sig, clause, case, observed, expected)

    executor = ad.build()
    obs = sc.Observer(n, n_callbacks=ncb)
    ctl = sc.Controller(gates, order, obs, observe="dequeue", stop_after=stop)
    cb = obs.callbacks[0] if (ncb == 1 and case.get("cb_form", "callable") == "callable") else obs.callbacks
    raised = None
    res = None
    with obs:
        ctl.start()
        try:
            res = executor.execute(ad.inputs, exec_callback=cb, task_submitted_callback=obs.on_submitted)
        except BaseException as e:  # noqa: BLE001 - judged below
            raised = e
    gates.release_all()
    ctl.join(120)

    rep.count(f"{backend}_schedules")
    rep.count(f"{case['kind']}_schedules")
    dq = obs.dequeue_order()
    exp_dq = order if stop is None else order[: order.index(stop) + 1]
    if dq == exp_dq:
        rep.count("forced_order_honoured")
    else:
        rep.count("forced_order_not_honoured")
        rep.observe("forced-order-not-honoured", {"requested": exp_dq, "observed": dq, "lost": ctl.lost})
    key = (n, min(w, n), tuple(dq))
    # (directed cases may repeat an order that belongs to another shard: they are not counted)
    if not case.get("directed") and key not in _STATE["orders"][backend]:
        _STATE["orders"][backend].add(key)
        rep.count(f"distinct_completion_orders_observed_{backend}")
        if n >= 2 and dq != sorted(dq):
            rep.count(f"distinct_out_of_order_completions_observed_{backend}")
    rep.count("failure_dequeues_observed", len(obs.failures_seen()))
    if case.get("exhaustive"):
        rep.count(f"exhaustive_schedules_{backend}")
        if case["kind"] == "callable" and case["exhaustive"] == "full":
            rep.count(f"exhaustive_callable_schedules_{backend}")

    # ---- oracle -------------------------------------------------------------
    dequeued_before_stop = set(exp_dq[:-1]) if stop is not None else set(range(n))
    if stop is not None:
        rep.count("reraise_cases")
        if not isinstance(raised, HarnessStop):
            report("listed-exception-not-reraised", "an exception type listed in exceptions_to_re_raise is re-raised",
                   brief(raised) if raised is not None else {"returned": brief(res)}, f"HarnessStop({stop})")
        elif raised.args != (stop,):
            report("reraised-exception-of-another-task", "the re-raised exception is the one of the failing task",
                   brief(raised), f"HarnessStop({stop})")
    elif raised is not None:
        report(f"unexpected-exception:{type(raised).__name__}", "a failure affects only its own slot",
               brief(raised), "a list of results")
    else:
        if not isinstance(res, list) or len(res) != n:
            kind = "wrong-length"
            if (case["kind"] == "disc_lin" and isinstance(res, list) and len(res) == n - len(F)
                    and all(ad.result_ok(i, r) for i, r in zip([i for i in range(n) if i not in F], res))):
                kind = "failed-slots-dropped-from-returned-list"
            report(kind, "results are positionally matched to the inputs (one slot per input)",
                   {"len": len(res) if isinstance(res, list) else None, "result": brief(res)},
                   {"len": n, "None_at": sorted(F)}, bare=kind != "wrong-length")
        else:
            rep.count("oracle_result_slots", n)
            for i in range(n):
                if i in F:
                    if res[i] is not None:
                        report("failed-slot-not-none", "the slot of a failing task is None", {"slot": i, "value": brief(res[i])}, None)
                        break
                elif res[i] is None:
                    pos = dq.index(i) if i in dq else len(dq)
                    after = any(j in F for j in dq[:pos])
                    report("result-lost", "a failure affects only its own slot / every successful task has its result",
                           {"slot": i, "result": brief(res)}, brief(ad.expected(i) if hasattr(ad, "expected") else ad.exp_out(i)),
                           feature="after-a-failure" if after else ("with-failures" if F else "no-failure"))
                    break
                elif not ad.result_ok(i, res[i]):
                    j = ad.which_index(res[i])
                    report("result-of-another-task-in-slot" if j is not None else "wrong-result-in-slot",
                           "result[i] is the result of inputs[i]", {"slot": i, "value": brief(res[i]), "is_result_of_task": j},
                           "result of task %d" % i)
                    break
    # callbacks: exactly once per successful dequeued task, matching index, never concurrently
    for k in range(ncb):
        log = obs.callback_log(k)
        rep.count("oracle_callbacks_checked", len(log))
        counts: dict = {}
        bad = False
        for idx, out in log:
            if not isinstance(idx, int) or not 0 <= idx < n:
                report("callback-index-out-of-range", "the callback receives the index of the task", {"index": brief(idx)}, f"0..{n - 1}")
                bad = True
                break
            counts[idx] = counts.get(idx, 0) + 1
            if idx in F or idx == stop:
                report("callback-for-failed-task", "callbacks are called for successful tasks only", {"index": idx}, None)
                bad = True
                break
            if not ad.callback_ok(idx, out):
                j = ad.which_index(out)
                report("callback-index-does-not-match-output" if j is not None else "callback-with-wrong-output",
                       "callback(index, output): output is the result of inputs[index]",
                       {"index": idx, "output": brief(out), "is_result_of_task": j}, f"result of task {idx}")
                bad = True
                break
        if bad:
            break
        dup = sorted(i for i, c_ in counts.items() if c_ > 1)
        if dup:
            report("callback-called-twice", "each callback is called exactly once per successful task", {"indices": dup}, 1)
            break
        must = [i for i in range(n) if i not in F and i != stop and i in dequeued_before_stop]
        missing = [i for i in must if i not in counts]
        # with a listed exception, tasks not yet dequeued when it arrives have no callback: nothing is demanded for them
        if missing and not (raised is not None and stop is None):
            report("callback-missing", "each callback is called exactly once per successful task", {"missing": missing, "callback": k}, 1)
            break
    if obs.overlap:
        report("callbacks-overlap", "callbacks never run concurrently", True, False)
    # every task body ran exactly once (no task re-executed, none skipped) unless execute stopped early
    calls = list(gates.calls)
    rep.count("oracle_task_execution_counts", n)
    if stop is None and raised is None and any(c_ != 1 for c_ in calls):
        report("task-not-executed-exactly-once", "each input is processed by exactly one task execution", calls, [1] * n)
    if any(gates.gate_timeouts):
        rep.inconclusive("a gate was never opened within the watchdog (schedule control lost)")
    if stop is None and raised is None:
        ad.post(rep, res, report)
    if ctl.lost:
        _STATE["lost"] += 1
        rep.count("schedule_control_lost")
        if not seen:
            rep.inconclusive(f"schedule control lost without an oracle failure: {ctl.lost}")
        if _STATE["lost"] >= 3:  # a broken tree loses control on every schedule: do not wait 10 s each time
            sc.T_CONSUMED["thread"] = 0.3
            sc.T_CONSUMED["process"] = 1.5
            sc.T_START["thread"] = 0.5
            sc.T_START["process"] = 2.0
    return {"result": brief(res), "raised": brief(raised), "dequeue_order": dq, "start_order": gates.start_order()}


# =========================================================================== empty input (outside the verdict)
def run_outside_statement(rep):
    """Behaviours recorded as observations only (they never affect the verdict)."""
    from vlib.harness import Reporter

    # one discipline object for all the tasks of a worker process, one failing task: the discipline keeps the status
    # FAILED and every later task of that worker fails too ("cannot be set to status RUNNING while in status FAILED");
    # a sequential loop over the same discipline behaves identically, so this is not a parallel/sequential difference
    case = {"kind": "disc_exec", "backend": "process", "n": 3, "w": 1, "workers": "single", "fail": [1], "reraise": None,
            "listed": False, "order": [0, 1, 2], "ncb": 1, "cb_form": "callable", "values": [1, 2, 3], "coefs": [1.0], "exhaustive": False}
    scratch = Reporter(PID)
    run_gated(case, scratch)
    if scratch.violations:
        rep.observe("one-discipline-serving-several-tasks-stays-FAILED-after-a-failing-task",
                    {"case": case, "effects": sorted(scratch.violation_counts)})
    run_empty(rep)


def run_empty(rep):
    from gemseo.core.parallel_execution.callable_parallel_execution import CallableParallelExecution

    for threads in (True, False):
        try:
            out = CallableParallelExecution([abs], n_processes=2, use_threading=threads).execute([])
        except Exception as e:  # noqa: BLE001
            rep.observe("execute-with-zero-tasks-raises", f"{type(e).__name__}: {e} (use_threading={threads})")
        else:
            if out != []:
                rep.observe("execute-with-zero-tasks-returns", brief(out))


# =========================================================================== DOE: parallel == sequential
def _doe_problem(case, gates):
    from gemseo.algos.design_space import DesignSpace
    from gemseo.algos.optimization_problem import OptimizationProblem
    from gemseo.core.mdo_functions.mdo_function import MDOFunction

    fail_f = set(case["fail"])
    fail_c = set(case.get("fail_constraint", ()))
    delay = case.get("delay", 0.0)
    nmax = case["n"]
    ds = DesignSpace()
    ds.add_variable("x", 2, lower_bound=-1000.0, upper_bound=1000.0, value=np.zeros(2))
    p = OptimizationProblem(ds)

    def f(x):
        i = int(x[0])
        if gates is not None:
            gates.enter(i)
        try:
            if i in fail_f:
                raise ValueError(f"objective fails on purpose at sample {i}")
            if delay:
                time.sleep(delay * (nmax - i))
            return x[0] ** 2 + 3.0 * x[1]
        finally:
            if gates is not None:
                gates.leave(i)

    def c(x):
        if int(x[0]) in fail_c:
            raise ValueError("constraint fails on purpose")
        return np.array([x[0] - x[1], np.sin(x[1])])

    p.objective = MDOFunction(f, "f", jac=lambda x: np.array([2 * x[0], 3.0]))
    p.add_constraint(MDOFunction(c, "c", jac=lambda x: np.array([[1.0, -1.0], [0.0, np.cos(x[1])]])), constraint_type="ineq")
    p.add_observable(MDOFunction(lambda x: 2.0 * x, "o", jac=lambda x: 2.0 * np.eye(2)))
    return p


def _db_dump(problem):
    out = []
    for k, v in problem.database.items():
        out.append((np.array(k.unwrap()), {name: np.array(val) for name, val in v.items()}))
    return out


def run_doe(case, rep):
    from gemseo.algos.doe.factory import DOELibraryFactory

    n, w = case["n"], case["w"]
    samples = np.array(case["samples"], dtype=float)
    gated = bool(case.get("order"))
    F = set(case["fail"])
    rep.case(("doe", n, w, tuple(sorted(F)), tuple(case.get("order") or ()), case["eval_jac"], bool(case.get("dups")),
              tuple(case.get("fail_constraint", ()))), True)
    # sequential twin
    ps = _doe_problem(dict(case, delay=0.0), None)
    DOELibraryFactory().execute(ps, algo_name="CustomDOE", samples=samples, n_processes=1, eval_jac=case["eval_jac"])
    # parallel
    gates = sc.Gates(n, "process") if gated else None
    pp = _doe_problem(case, gates)
    obs = sc.Observer(n)
    ctl = sc.Controller(gates, case["order"], obs, observe="dequeue", wait_submitted=False) if gated else None
    raised = None
    with obs:
        if ctl:
            ctl.start()
        try:
            DOELibraryFactory().execute(pp, algo_name="CustomDOE", samples=samples, n_processes=w,
                                        eval_jac=case["eval_jac"], callbacks=[obs.callbacks[0]])
        except Exception as e:  # noqa: BLE001
            raised = e
    if gates is not None:
        gates.release_all()
        ctl.join(120)
    rep.count("doe_runs")
    if raised is not None:
        rep.violation(f"C13:BaseDOELibrary._run:parallel-doe-raises:{type(raised).__name__}", "parallel DOE == sequential DOE",
                      case, brief(raised), "a database")
        return
    dq = obs.dequeue_order()
    if gated:
        if dq == list(case["order"]):
            rep.count("forced_order_honoured")
        else:
            rep.count("forced_order_not_honoured")
            rep.observe("forced-order-not-honoured", {"requested": case["order"], "observed": dq, "lost": ctl.lost})
        if ctl.lost:
            rep.count("schedule_control_lost")
            rep.inconclusive(f"DOE schedule control lost: {ctl.lost}")
    key = ("doe", n, w, tuple(dq))
    if key not in _STATE["orders"]["process"]:
        _STATE["orders"]["process"].add(key)
        rep.count("distinct_doe_completion_orders_observed")
        if dq != sorted(dq):
            rep.count("distinct_out_of_order_doe_completions_observed")
    seq, par = _db_dump(ps), _db_dump(pp)
    rep.count("doe_equivalence_checked")
    feats = "+".join(f_ for f_, on in (("failing-samples", F), ("duplicates", case.get("dups")), ("jac", case["eval_jac"])) if on) or "plain"
    if case.get("fail_constraint"):
        # outside the verdict: the sequential run keeps the values computed before the failure
        if len(seq) != len(par) or any(set(a[1]) != set(b[1]) for a, b in zip(seq, par)):
            rep.observe("doe-failure-in-a-later-function-leaves-partial-entry-in-sequential-database-only",
                        {"sequential_entries": len(seq), "parallel_entries": len(par)})
        return
    if len(seq) != len(par):
        rep.violation(f"C13:BaseDOELibrary._run:database-size-differs:{feats}", "parallel DOE database == sequential one", case,
                      {"parallel": [a[0].tolist() for a in par]}, {"sequential": [a[0].tolist() for a in seq]})
        return
    for (ks, vs), (kp, vp) in zip(seq, par):
        if not np.array_equal(ks, kp):
            rep.violation(f"C13:BaseDOELibrary._run:database-order-differs:{feats}", "same keys in sample order", case,
                          {"parallel": [a[0].tolist() for a in par], "dequeue_order": dq}, {"sequential": [a[0].tolist() for a in seq]})
            return
        if set(vs) != set(vp):
            rep.violation(f"C13:BaseDOELibrary._run:database-names-differ:{feats}", "same values", case,
                          {"x": kp.tolist(), "parallel": sorted(vp)}, {"sequential": sorted(vs)})
            return
        for name in vs:
            if not arr_eq(vs[name], vp[name]):
                rep.violation(f"C13:BaseDOELibrary._run:database-value-differs:{feats}", "same values", case,
                              {"x": kp.tolist(), "name": name, "parallel": brief(vp[name])}, {"sequential": brief(vs[name])})
                return
    # and both are in sample order (first occurrences, failed samples absent)
    exp_keys = []
    for i, s in enumerate(samples):
        if int(s[0]) in F or any(np.array_equal(s, e) for e in exp_keys):
            continue
        exp_keys.append(s)
    # (keys are compared with a tolerance: the samples go through the library's own unit-cube round trip, which is
    # not this property's business; parallel and sequential keys were compared bitwise above)
    if len(exp_keys) != len(par) or any(not np.allclose(a, b[0], rtol=0, atol=1e-9) for a, b in zip(exp_keys, par)):
        rep.violation(f"C13:BaseDOELibrary._run:database-not-in-sample-order:{feats}", "keys in sample order, failed samples absent", case,
                      {"parallel": [a[0].tolist() for a in par]}, {"expected": [a.tolist() for a in exp_keys]})


# =========================================================================== chains
def run_chain(case, rep):
    from gemseo.core.chains.additive_chain import MDOAdditiveChain
    from gemseo.core.chains.parallel_chain import MDOParallelChain

    C = _discipline_classes()["ChainDisc"]
    n, backend = case["n"], case["backend"]
    threads = backend == "thread"
    additive = case["cls"] == "additive"
    with_s = additive or case.get("overlap", False)
    mutate = case.get("mutate") or [None] * n
    mutating = any(mutate)
    rep.case(("chain", case["cls"], backend, n, case["w"], tuple(case["order"]), tuple(case["order_jac"]),
              bool(case.get("overlap")), bool(case.get("deep_copy")), tuple(mutate)), True)

    def make():
        return [C(k, *case["coefs"][k], with_s, use_z=case["use_z"][k], mutate=mutate[k]) for k in range(n)]

    x, z = np.array(case["x"]), np.array(case["z"])
    data = {"x": x.copy(), "z": z.copy()}
    discs = make()
    if additive:
        chain = MDOAdditiveChain(discs, ["s"], use_threading=threads, n_processes=case["w"])
    else:
        chain = MDOParallelChain(discs, use_threading=threads, n_processes=case["w"], use_deep_copy=bool(case.get("deep_copy")))
    feats = f"{case['cls']}:{backend}"
    # closed form and sequential twin
    # a discipline working in place on its inputs does so on ITS OWN copy: every discipline starts from the original x
    vals = [d.values(d.mutated(x), z) for d in discs]
    jacs = [d.jacobians(x, z) for d in discs]
    exp = {}
    for v in vals:
        exp.update(v)
    # an output computed by several children: executing the children one after the other, the last writer wins, for the
    # value (dict.update above) AND for the whole Jacobian row of that output (blocks w.r.t. inputs the last child does
    # not read are zero; they are checked by the "missing blocks are zero" clause below), never a merge of the rows
    exp_j = {}
    for j in jacs:
        for o, row in j.items():
            exp_j[o] = dict(row)
    if additive:
        exp["s"] = sum([v["s"] for v in vals])
        exp_j["s"] = {}
        for name in ("x", "z"):
            terms = [j["s"][name] for j in jacs if name in j["s"]]
            if terms:
                exp_j["s"][name] = sum(terms)
    twin, twin_j = {}, {}
    for d in make():
        out = d.execute({"x": x.copy(), "z": z.copy()})
        twin.update({k: out[k] for k in d.io.output_grammar})
        if mutating:
            continue
        d.linearize({"x": x.copy(), "z": z.copy()}, compute_all_jacobians=True)
        for o in d.io.output_grammar:  # last writer wins for the whole row
            twin_j[o] = {i: dense(b) for i, b in d.jac[o].items()}
    if additive:
        twin["s"] = exp["s"]
        twin_j["s"] = exp_j["s"]
    if mutating:
        twin_j = exp_j
    if not map_eq(twin, exp) or set(twin_j) != set(exp_j) or any(set(twin_j[o]) != set(exp_j[o]) for o in exp_j) \
            or not jac_eq(twin_j, exp_j, tol=1e-13):
        rep.inconclusive("harness: sequential twin of the chain differs from the closed form")
        return
    finish = {}
    # in-place mutating disciplines: only the execution is judged (the point at which such a discipline is linearized is
    # not defined); without independent copies (use_deep_copy=False, MDOAdditiveChain) sharing is documented: observe only
    judged = not mutating or (not additive and bool(case.get("deep_copy")))
    phases = (("run", case["order"]),) if mutating else (("run", case["order"]), ("jac", case["order_jac"]))
    for phase, order in phases:
        gates = sc.Gates(n, backend)
        for d in discs:
            d.gates, d.phase = gates, phase
        ctl = sc.Controller(gates, order, None, observe="finish", settle=0.001 if threads else 0.01)
        ctl.start()
        try:
            if phase == "run":
                out = chain.execute(data)
            else:
                jac = chain.linearize(data, compute_all_jacobians=True)
        except Exception as e:  # noqa: BLE001
            gates.release_all()
            ctl.join(120)
            if not judged:
                rep.count("chain_inplace_shared_inputs_observed")
                rep.observe("chain-without-independent-input-copies-and-in-place-mutating-discipline-raises",
                            {"cls": case["cls"], "backend": backend, "error": repr(e)[:160]})
                return
            rep.violation(f"C13:{type(chain).__name__}:{phase}-raises:{type(e).__name__}:{feats}", "parallel chain == sequential", case,
                          brief(e), "outputs")
            return
        gates.release_all()
        ctl.join(120)
        if ctl.lost:
            rep.count("schedule_control_lost")
            rep.inconclusive(f"chain schedule control lost: {ctl.lost}")
        finish[phase] = gates.start_order()
        if any(c_ > 1 for c_ in gates.calls):
            rep.observe("chain-discipline-body-run-more-than-once", {"phase": phase, "calls": list(gates.calls)})
        if any(c_ == 0 for c_ in gates.calls):
            rep.inconclusive(f"harness: a chain gate was never entered in phase {phase}")
        else:
            rep.count("chain_gated_phases")
    rep.count("chain_runs")
    rep.count("chain_equivalence_checked")
    key = ("chain", n, tuple(case["order"]), tuple(case["order_jac"]), backend)
    if key not in _STATE["orders"][backend]:
        _STATE["orders"][backend].add(key)
        rep.count("distinct_chain_release_orders")
    if mutating:
        pos = {k: i for i, k in enumerate(case["order"])}
        if any(mutate[a] and pos[a] < pos[b] for a in range(n) for b in range(n) if a != b):
            rep.count("chain_inplace_mutator_released_before_another_discipline")
        if not judged:
            rep.count("chain_inplace_shared_inputs_observed")
            if not map_eq(out, exp):
                rep.observe("chain-without-independent-input-copies-in-place-mutation-seen-by-other-disciplines",
                            {"cls": case["cls"], "backend": backend, "deep_copy": bool(case.get("deep_copy"))})
            return
        rep.count("chain_inplace_deepcopy_checked")
        if not map_eq(out, exp):
            rep.violation(f"C13:MDOParallelChain._execute:in-place-input-mutation-leaks-to-other-disciplines:use_deep_copy:{backend}",
                          "with use_deep_copy=True every discipline sees the original inputs (== each discipline executed alone on its own copy)",
                          case, brief({k: out.get(k) for k in exp}), brief(exp))
        elif not (arr_eq(out.get("x"), x) and arr_eq(out.get("z"), z)):
            rep.observe("chain-input-data-modified-by-an-in-place-discipline", brief({"x": out.get("x"), "z": out.get("z")}))
        return
    if not map_eq(out, exp):
        rep.violation(f"C13:{type(chain).__name__}._execute:outputs-differ-from-sequential:{feats}", "chain outputs equal the sequential ones",
                      case, brief({k: out.get(k) for k in exp}), brief(exp))
        return
    rep.count("chain_jacobian_checked")
    if not jac_eq(jac, exp_j, tol=1e-13):
        rep.violation(f"C13:{type(chain).__name__}._compute_jacobian:jacobian-differs-from-sequential:{feats}",
                      "chain Jacobians equal the sequential ones", case, brief(jac), brief(exp_j))
        return
    # blocks that the (last) discipline computing the output does not provide must be zero
    for o in exp:
        for i in ("x", "z"):
            if i not in exp_j.get(o, {}):
                got = jac.get(o, {}).get(i)
                if got is not None and np.any(dense(got) != 0):
                    rep.violation(f"C13:{type(chain).__name__}._compute_jacobian:spurious-block:{feats}", "missing blocks are zero", case,
                                  {"block": [o, i], "value": brief(got)}, 0)
                    return


# =========================================================================== parallel derivative approximation
def run_fd(case, rep):
    from gemseo.utils.derivatives.centered_differences import CenteredDifferences
    from gemseo.utils.derivatives.finite_differences import FirstOrderFD

    n = case["dim"]
    x0 = np.array(case["x"], dtype=float)
    a = np.array(case["a"], dtype=float)
    centered = case["approx"] == "cd"
    n_tasks = 2 * n if centered else n + 1
    rep.case(("fd", case["approx"], n, case["w"], tuple(case["order"])), True)
    gates = sc.Gates(n_tasks, "process")

    def plain(x):
        x = np.array(x, dtype=float)  # contiguous copy: the summation order is the same in both runs
        return np.array([np.dot(a, np.sin(x)), float(np.prod(1.0 + 0.1 * x)), x[0] * x[-1]])

    def gated(x):
        d = np.asarray(x, dtype=float) - x0
        j = int(np.argmax(np.abs(d)))
        if centered:
            i = j if d[j] > 0 else n + j
        else:
            i = 0 if not np.any(d) else j + 1
        gates.enter(i)
        try:
            return plain(x)
        finally:
            gates.leave(i)

    cls = CenteredDifferences if centered else FirstOrderFD
    serial = cls(plain, step=case["step"]).f_gradient(x0.copy())
    ctl = sc.Controller(gates, case["order"], None, observe="finish", settle=0.01)
    ctl.start()
    try:
        par = cls(gated, step=case["step"], parallel=True, n_processes=case["w"], use_threading=False).f_gradient(x0.copy())
    except Exception as e:  # noqa: BLE001
        gates.release_all()
        ctl.join(120)
        rep.violation(f"C13:{cls.__name__}._compute_parallel_grad:raises:{type(e).__name__}", "parallel derivative approximation == serial",
                      case, brief(e), brief(serial))
        return
    gates.release_all()
    ctl.join(120)
    if ctl.lost:
        rep.count("schedule_control_lost")
        rep.inconclusive(f"FD schedule control lost: {ctl.lost}")
    rep.count("fd_parallel_equals_serial_checked")
    if any(c_ != 1 for c_ in gates.calls):
        rep.violation(f"C13:{cls.__name__}._compute_parallel_grad:perturbation-not-evaluated-exactly-once", "each perturbed point is evaluated once",
                      case, list(gates.calls), [1] * n_tasks)
        return
    if not arr_eq(par, serial):
        rep.violation(f"C13:{cls.__name__}._compute_parallel_grad:differs-from-serial", "parallel derivative approximation == serial", case,
                      brief(np.asarray(par)), brief(np.asarray(serial)))


# =========================================================================== parallel == serial derivative approximation (wide)
FD_CLS = {"fd": "FirstOrderFD", "cd": "CenteredDifferences", "cs": "ComplexStep"}
_EPS = float(np.finfo(float).eps)


def _fd_equiv_function(a, skew):
    a = np.array(a, dtype=float)

    def f(x):
        x = np.array(x)  # contiguous copy (keeps a complex dtype): same summation order in the workers and in the parent
        if skew:  # pseudo-random durations so that the perturbed points do not complete in submission order
            time.sleep(0.001 * (int(abs(float(np.real(x).sum())) * 1e7) % 3))
        return np.array([np.dot(a, np.sin(x)), np.prod(1.0 + 0.1 * x), x[0] * x[-1]])

    def abs_terms(x, h):
        ax = np.abs(x) + abs(h)
        return np.array([np.sum(np.abs(a)), np.prod(1.0 + 0.1 * ax), ax[0] * ax[-1]])

    return f, abs_terms


def fd_equiv_features(case):
    sm = case["step_mode"]
    f = [sm]
    if case["indices"]:
        f.append("subset")
    if case["space"] is not None:
        f.append("space-normalized" if case["space"]["normalize"] else "space")
    return "+".join(f)


def run_fd_equiv(case, rep):
    """Parallel (processes) derivative approximation == serial one, however the step / components / bounds are given.

    ``step_mode``: ctor (step given to the constructor only), default (no step at all), call-equal (same scalar at
    construction and at call), call-scalar (scalar at call different from the constructor/default step), call-array
    (per-component array at call, all components only).
    """
    from gemseo.algos.design_space import DesignSpace
    from gemseo.utils.derivatives.centered_differences import CenteredDifferences
    from gemseo.utils.derivatives.complex_step import ComplexStep
    from gemseo.utils.derivatives.finite_differences import FirstOrderFD

    cls = {"fd": FirstOrderFD, "cd": CenteredDifferences, "cs": ComplexStep}[case["approx"]]
    n = case["dim"]
    x0 = np.array(case["x"], dtype=float)
    feats = fd_equiv_features(case)
    sp = case["space"]
    rep.case(("fd_equiv", case["approx"], n, case["w"], case["step_mode"], tuple(case["indices"]),
              None if sp is None else (sp["normalize"], tuple(sp["kinds"]))), True)
    call_step = case["call_step"]
    if isinstance(call_step, list):
        call_step = np.array(call_step, dtype=float)

    def build(parallel):
        f, _ = _fd_equiv_function(case["a"], skew=parallel)
        kw = {}
        if sp is not None:
            ds = DesignSpace()
            ds.add_variable("x", n, lower_bound=np.array(sp["lb"]), upper_bound=np.array(sp["ub"]))
            kw.update(design_space=ds, normalize=sp["normalize"])
        if parallel:
            kw.update(parallel=True, n_processes=case["w"], use_threading=False)
        return cls(f, step=case["ctor_step"], **kw)

    def grad(app):
        kw = {}
        if call_step is not None:
            kw["step"] = call_step
        if case["indices"]:
            kw["x_indices"] = list(case["indices"])
        return np.asarray(app.f_gradient(x0.copy(), **kw))

    try:
        serial = grad(build(False))
    except Exception as e:  # noqa: BLE001 - the serial path is not judged by this property (C16 does)
        rep.count("fd_equiv_serial_raises_not_judged")
        rep.observe("serial-derivative-approximation-raises", {"features": f"{FD_CLS[case['approx']]}:{feats}", "error": repr(e)[:150]})
        return
    try:
        par = grad(build(True))
    except Exception as e:  # noqa: BLE001
        rep.violation(f"C13:{cls.__name__}._compute_parallel_grad:raises-but-serial-does-not:{type(e).__name__}:{feats}",
                      "parallel derivative approximation == serial", case, brief(e), brief(serial))
        return
    rep.count("fd_equiv_checked")
    rep.count("fd_equiv_" + case["approx"])
    rep.count("fd_equiv_step_" + case["step_mode"])
    if case["indices"]:
        rep.count("fd_equiv_subset")
    if sp is not None:
        rep.count("fd_equiv_design_space")
        if sp["normalize"]:
            rep.count("fd_equiv_design_space_normalized")
        if any(k != "interior" for k in sp["kinds"]):
            rep.count("fd_equiv_on_or_near_ub")
    if par.shape != serial.shape:
        rep.violation(f"C13:{cls.__name__}._compute_parallel_grad:shape-differs-from-serial:{feats}",
                      "parallel derivative approximation == serial", case, list(par.shape), list(serial.shape))
        return
    if not (np.all(np.isfinite(serial)) and serial.ndim == 2):
        rep.count("fd_equiv_serial_not_finite_not_judged")
        return
    # equality up to the rounding of the harness function amplified by 1/h (see C16): 128*eps*sum|terms|/h
    used = call_step if call_step is not None else (case["ctor_step"] if case["ctor_step"] is not None else cls._DEFAULT_STEP)
    h = float(np.min(np.abs(used)))
    if case["approx"] == "cs":
        tol = 1e-12 * (1.0 + np.abs(serial))
    else:
        _, abs_terms = _fd_equiv_function(case["a"], False)
        tol = (128 * _EPS * abs_terms(x0, h) / h)[:, None] * np.ones_like(serial)
    diff = np.abs(par - serial)
    if not np.all(diff <= tol):
        worst = np.unravel_index(int(np.argmax(diff - tol)), diff.shape)
        ratio = par[worst] / serial[worst] if serial[worst] != 0 else None
        rep.violation(f"C13:{cls.__name__}._compute_parallel_grad:differs-from-serial:{feats}",
                      "parallel derivative approximation produces the same Jacobian as the sequential one", case,
                      {"parallel": brief(par), "entry": [int(i) for i in worst], "parallel/serial": ratio},
                      {"serial": brief(serial), "tolerance": brief(tol)})


def gen_fd_equiv(rng, approx=None, step_mode=None, space_kind=None, subset=None):
    approx = approx or rng.choice(["fd", "cd", "cs"])
    dim = rng.randint(2, 4)
    step_mode = step_mode or rng.choice(["ctor", "default", "call-equal", "call-scalar", "call-scalar", "call-array"])
    space_kind = space_kind if space_kind is not None else rng.choice(["none", "none", "phys", "norm"])
    subset = rng.random() < 0.4 if subset is None else subset

    def scalar():
        return float(10.0 ** rng.randint(-28, -10)) if approx == "cs" else float(10.0 ** rng.randint(-7, -4))

    default = {"fd": 1e-6, "cd": 1e-6, "cs": 1e-20}[approx]
    ctor = None if step_mode == "default" or (step_mode != "ctor" and rng.random() < 0.4) else scalar()
    base = ctor if ctor is not None else default
    if step_mode in ("ctor", "default"):
        call = None
    elif step_mode == "call-equal":
        call = base
    elif step_mode == "call-scalar":
        call = base * rng.choice([0.01, 0.1, 10.0, 100.0])
    else:
        subset = False  # the meaning of a per-component step for a component subset is not documented
        call = [base * rng.choice([0.1, 1.0, 10.0, 100.0]) for _ in range(dim)]
        if all(c == base for c in call):
            call[0] = base * 10.0
    used = call if call is not None else base
    used = used if isinstance(used, list) else [used] * dim
    case = {"kind": "fd_equiv", "approx": approx, "dim": dim, "w": rng.randint(2, 3), "step_mode": step_mode,
            "ctor_step": ctor, "call_step": call, "a": [round(rng.uniform(-2, 2), 2) for _ in range(dim)], "space": None}
    if space_kind == "none":
        x = [round(rng.uniform(0.2, 2), 3) for _ in range(dim)]
    else:
        norm = space_kind == "norm"
        lb = [0.0] * dim if norm else [round(rng.uniform(-1, 0), 2) for _ in range(dim)]
        ub = [1.0] * dim if norm else [round(lb[j] + rng.uniform(1, 3), 2) for j in range(dim)]
        x, kinds = [], []
        for j in range(dim):
            r = rng.random()
            if r < 0.3:
                x.append(ub[j])
                kinds.append("at_ub")
            elif r < 0.6 and approx != "cs":
                x.append(ub[j] - abs(used[j]) * rng.choice([0.1, 0.5, 0.9]))
                kinds.append("near_ub")
            else:
                x.append(lb[j] + (ub[j] - lb[j]) * round(rng.uniform(0.2, 0.8), 3))
                kinds.append("interior")
        case["space"] = {"lb": lb, "ub": ub, "normalize": norm, "kinds": kinds}
    case["x"] = x
    if subset and dim > 1:
        idx = sorted(rng.sample(range(dim), rng.randint(1, dim - 1)))
        if rng.random() < 0.3:
            idx = idx[::-1]
        case["indices"] = idx
    else:
        case["indices"] = []
    return case


def fd_equiv_universe(tier, seed):
    """A fixed grid {approximator} x {step mode} x {all/subset} x {no space/space/normalized space} plus random cases."""
    rng = random.Random(subseed(seed, PID, "fd_equiv"))
    out = []
    modes = ["ctor", "default", "call-equal", "call-scalar", "call-array"]
    grid = [(a, m_) for a in ("fd", "cd", "cs") for m_ in modes]
    spaces = ["none", "phys", "norm"]
    for k, (a, m_) in enumerate(grid):  # 15 cases: every approximator x every step mode, the other axes rotating
        out.append(gen_fd_equiv(rng, a, m_, spaces[k % 3] if m_ != "call-scalar" else "none", subset=(k % 2 == 1)))
    for a in ("fd", "cd", "cs"):  # call-time scalar step with a design space / a subset
        out.append(gen_fd_equiv(rng, a, "call-scalar", "phys", subset=True))
        out.append(gen_fd_equiv(rng, a, "call-scalar", "norm", subset=False))
    for _ in range(600 if tier == "thorough" else 27):
        out.append(gen_fd_equiv(rng))
    return out


# =========================================================================== shared caches
def cache_invariants(cache, requested, with_jac):
    """Structural invariants of a full cache, asserted at quiescence under the cache's own lock.

    Returns a list of (what, observed, expected) failures.  Private state is read directly (no method that
    repairs anything is called); if a private name is missing that sub-check is skipped (returned in ``skipped``).
    """
    from gemseo.caches.utils import hash_data

    K = _discipline_classes()["CacheDisc"]
    bad, skipped = [], []
    distinct = []
    for x in requested:
        if not any(np.array_equal(x, d) for d in distinct):
            distinct.append(x)
    with cache.lock:
        entries = list(cache.get_all_entries())
        size = len(cache)
        if size != len(entries):
            bad.append(("len-differs-from-entries", {"len": size, "entries": len(entries)}, None))
        if len(entries) != len(distinct):
            bad.append(("entries-differ-from-distinct-inputs", {"entries": len(entries), "inputs": [brief(e.inputs) for e in entries]},
                        {"distinct_inputs": len(distinct)}))
        h2i = getattr(cache, "_hashes_to_indices", None)
        mx = getattr(cache, "_max_index", None)
        if h2i is None or mx is None:
            skipped.append("hash-index")
        else:
            table = {k: [int(v) for v in np.atleast_1d(idx)] for k, idx in dict(h2i).items()}
            flat = sorted(i for v in table.values() for i in v)
            if flat != list(range(1, mx.value + 1)):
                bad.append(("hash-index-not-a-partition-of-1..max_index", {"indices": flat, "max_index": mx.value}, None))
            reader = getattr(cache, "_read_data", None)
            if reader is not None:
                for h, idxs in table.items():
                    for i in idxs:
                        try:
                            inp = reader(i, cache.Group.INPUTS)
                        except Exception as e:  # noqa: BLE001
                            bad.append(("indexed-entry-unreadable", {"index": i, "error": repr(e)[:100]}, None))
                            continue
                        if not inp or hash_data(inp) != h:
                            bad.append(("hash-index-points-to-entry-with-another-hash", {"index": i, "inputs": brief(inp)}, None))
        seen = []
        for e in entries:
            x = np.asarray(e.inputs.get("x")) if e.inputs else None
            if x is None or x.shape != (2,):
                bad.append(("entry-without-inputs", brief(e.inputs), None))
                continue
            if any(np.array_equal(x, s) for s in seen):
                bad.append(("duplicate-entry-for-one-input", brief(x), None))
            seen.append(x)
            if not e.outputs:
                bad.append(("entry-without-outputs", {"x": brief(x)}, brief(K.value(x))))
            elif not arr_eq(e.outputs.get("y"), K.value(x)):
                bad.append(("entry-outputs-are-not-f-of-its-inputs", {"x": brief(x), "y": brief(e.outputs.get("y"))}, brief(K.value(x))))
            if e.jacobian:
                if not jac_eq(e.jacobian, {"y": {"x": K.jacobian(x)}}):
                    bad.append(("entry-jacobian-is-not-that-of-its-inputs", {"x": brief(x), "jac": brief(e.jacobian)}, brief(K.jacobian(x))))
            elif with_jac:
                bad.append(("entry-without-jacobian", {"x": brief(x)}, None))
        for x in distinct:
            got = cache[{"x": x}]
            if not got.outputs or not arr_eq(got.outputs.get("y"), K.value(x)):
                bad.append(("lookup-does-not-return-f-of-input", {"x": brief(x), "outputs": brief(got.outputs)}, brief(K.value(x))))
    return bad, skipped


def _make_cache(case, scratch):
    from gemseo.caches.hdf5_cache import HDF5Cache
    from gemseo.caches.memory_full_cache import MemoryFullCache

    kind = case["cache"]
    if kind == "memory":
        return MemoryFullCache(is_memory_shared=False)
    if kind == "memory_shared":
        return MemoryFullCache(is_memory_shared=True)
    path = os.path.join(scratch, f"c13_{sig_hash(case)}_{time.monotonic_ns()}.h5")
    return HDF5Cache(hdf_file_path=path, hdf_node_path="node")


def run_cache(case, rep, scratch):
    """Workers sharing one full cache: threads under injected yields, or forked processes with skewed durations."""
    from gemseo.core.parallel_execution.disc_parallel_execution import DiscParallelExecution
    from gemseo.core.parallel_execution.disc_parallel_linearization import DiscParallelLinearization

    K = _discipline_classes()["CacheDisc"]
    threads = case["backend"] == "thread"
    lin = case["mode"] == "linearize"
    pool = [np.array(v, dtype=float) for v in case["pool"]]
    inputs = [pool[j].copy() for j in case["picks"]]
    pre = [pool[j].copy() for j in case["precached"]]
    n = len(inputs)
    rep.case(("cache", case["cache"], case["backend"], case["mode"], n, case["w"], len(pool), len(pre), tuple(case["picks"])), True)
    cache = _make_cache(case, scratch)
    log, lock = [], threading.Lock()
    feats = f"{case['cache']}:{case['backend']}:{case['mode']}"
    try:
        # entries cached before the run starts (sequentially, by a discipline that shares the cache)
        d0 = K(-1, None, lock)
        d0.cache = cache
        if lin:
            d0.add_differentiated_inputs(["x"])
            d0.add_differentiated_outputs(["y"])
        for x in pre:
            (d0.linearize if lin else d0.execute)({"x": x.copy()})
        if threads:
            discs = [K(i, log, lock) for i in range(n)]
        else:
            # the log of a forked worker is not visible to the parent: executions are not counted there
            discs = [K(0, None, lock, delay=case.get("delay", 0.0))]
        for d in discs:
            d.cache = cache
            if lin:
                d.add_differentiated_inputs(["x"])
                d.add_differentiated_outputs(["y"])
        cls = DiscParallelLinearization if lin else DiscParallelExecution
        pe = cls(discs, n_processes=case["w"], use_threading=threads)
        data = [{"x": x} for x in inputs]
        inj = sc.YieldInjector(case["yield_seed"]) if threads else contextlib.nullcontext()
        try:
            with inj:
                res = pe.execute(data)
        except Exception as e:  # noqa: BLE001
            rep.violation(f"C13:shared-cache:parallel-run-raises:{type(e).__name__}:{feats}", "workers sharing a cache", case, brief(e), "results")
            return
        rep.count("shared_cache_runs")
        if threads:
            rep.count("yield_injected_runs")
            rep.count("yield_lines_monitored", inj.lines)
            rep.count("yields_injected", inj.yields)
            for f_ in inj.files_hit:
                rep.count("yields_in_" + os.path.basename(f_))
        # positional results
        rep.count("oracle_result_slots", n)
        if not isinstance(res, list) or len(res) != n:
            rep.violation(f"C13:shared-cache:wrong-length:{feats}", "one result per input", case, brief(res), n)
            return
        for i, x in enumerate(inputs):
            ok = (jac_eq(res[i], {"y": {"x": K.jacobian(x)}}) if lin else map_eq(res[i], {"x": x, "y": K.value(x)})) if res[i] is not None else False
            if not ok:
                what = "worker-failed-(result-is-None)" if res[i] is None else "result-not-that-of-its-input"
                rep.violation(f"C13:shared-cache:{what}:{feats}", "result[i] == f(x_i) with a shared cache", case,
                              {"slot": i, "x": brief(x), "value": brief(res[i])}, brief(K.jacobian(x) if lin else K.value(x)))
                break
        # quiescence: every worker has been joined by execute()
        bad, skipped = cache_invariants(cache, pre + inputs, with_jac=lin)
        rep.count("cache_invariant_evaluations")
        for s in skipped:
            rep.count("cache_invariant_skipped_" + s)
        for what, observed, expected in bad:
            rep.violation(f"C13:shared-cache:{what}:{feats}", "shared cache after the run: one entry per distinct input, outputs == f(input), index consistent",
                          case, observed, expected)
        # no body executed for an input cached before the run started
        if threads:
            rep.count("precached_inputs_checked", len(pre))
            for x in pre:
                k = sum(1 for t in log if t == tuple(x.tolist()))
                if k:
                    rep.violation(f"C13:shared-cache:body-executed-for-a-precached-input:{feats}", "no body executed for an input cached before the run",
                                  case, {"x": brief(x), "executions": k}, 0)
                    break
    finally:
        hdf = getattr(cache, "hdf_file", None)
        if hdf is not None:
            with contextlib.suppress(Exception):
                os.remove(hdf.hdf_file_path)


# =========================================================================== workload
def _shard_of(key) -> int:
    return int(sig_hash(key), 16) % N_SHARDS


def _subsets(n):
    for m in range(1 << n):
        yield [i for i in range(n) if m >> i & 1]


# (backend -> {n: number of worker modes}) for which every order x every worker count x every failing subset is run
FULL = {
    "quick": {"thread": {1: 1, 2: 1, 3: 1, 4: 1}, "process": {1: 1, 2: 1, 3: 1}},
    "thorough": {"thread": {1: 2, 2: 2, 3: 2, 4: 2, 5: 2, 6: 1}, "process": {1: 2, 2: 2, 3: 2, 4: 1}},
}


def n_full(tier, backend):
    return sum(sc.n_feasible_orders(n, w) * 2**n * m for n, m in FULL[tier][backend].items() for w in range(1, n + 1))


for _tier in FULL:  # the exhaustive parts must be complete: exact counts
    MIN_COUNTERS[_tier]["exhaustive_callable_schedules_thread"] = n_full(_tier, "thread")
    MIN_COUNTERS[_tier]["exhaustive_callable_schedules_process"] = n_full(_tier, "process")


def gated_universe(tier, seed):
    """Deterministic list of every gated schedule of the tier (each shard keeps its own hash slice)."""
    rng = random.Random(subseed(seed, PID, "universe"))
    out = []

    def add(kind, backend, n, w, order, fail, exhaustive, workers=None, reraise=None, listed=False, ncb=None):
        h = int(sig_hash((kind, backend, n, w, list(order), list(fail), reraise)), 16)
        if workers is None:
            workers = ("single", "per_task")[h % 2]
        if kind != "callable" and (backend == "thread" or fail or reraise is not None):
            # thread workers must be distinct objects; and one discipline object that serves several tasks of a
            # worker process stays in status FAILED after a failing task (ExecutionStatus refuses RUNNING then),
            # exactly as it would sequentially: failing tasks are only judged with one discipline per task
            workers = "per_task"
        case = {"kind": kind, "backend": backend, "n": n, "w": w, "workers": workers, "fail": list(fail),
                "reraise": reraise, "listed": bool(listed or reraise is not None), "order": list(order),
                "ncb": ncb if ncb is not None else (2 if h % 7 == 0 else 1), "cb_form": "list" if h % 3 == 0 else "callable",
                "values": [(h >> 3) % 1000 + 17 * i for i in range(n)], "exhaustive": exhaustive}
        if kind != "callable":
            case["coefs"] = [1.0 + 0.5 * ((h >> 5) % 3) + 0.25 * k for k in range(n)]
        # all variants of one completion order live in one shard, so that per-shard distinct-order counts add up
        case["_shard"] = _shard_of((backend, n, min(w, n), list(order)))
        out.append(case)

    thorough = tier == "thorough"
    # ---- threads, callable: exhaustive over orders x worker counts x failing subsets
    for n, modes in FULL[tier]["thread"].items():
        for w in range(1, n + 1):
            for order in sc.feasible_orders(n, w):
                for F in _subsets(n):
                    if modes == 2:
                        add("callable", "thread", n, w, order, F, "full", workers="single")
                        add("callable", "thread", n, w, order, F, "full", workers="per_task")
                    else:
                        add("callable", "thread", n, w, order, F, "full")
    n_big = 7 if thorough else 5  # every order, no failure + random failing subsets
    for w in range(1, n_big + 1):
        for order in sc.feasible_orders(n_big, w):
            add("callable", "thread", n_big, w, order, [], "orders")
            for _ in range(1):
                F = [i for i in range(n_big) if rng.random() < 0.35]
                if F:
                    add("callable", "thread", n_big, w, order, F, False)
    # listed exception raised by one task: every order, every position (thorough) / one position (quick)
    for n in (2, 3, 4):
        for w in range(1, n + 1):
            for order in sc.feasible_orders(n, w):
                stops = range(n) if thorough else [rng.randrange(n)]
                for r in stops:
                    others = [i for i in range(n) if i != r]
                    Fs = list(_subsets(n - 1)) if thorough and n <= 3 else [[i for i in range(n - 1) if rng.random() < 0.3]]
                    for Fm in Fs:
                        add("callable", "thread", n, w, order, [others[i] for i in Fm], False, reraise=r)
                # listed but never raised
                add("callable", "thread", n, w, order, [i for i in range(n) if rng.random() < 0.3], False, listed=True)
    # random larger pools (also more workers than tasks)
    for _ in range(3000 if thorough else 150):
        n = rng.randint(6, 12)
        w = rng.randint(1, n + 2)
        order = sc.random_feasible_order(rng, n, w)
        F = [i for i in range(n) if rng.random() < rng.choice([0.0, 0.2, 0.5])]
        add("callable", "thread", n, w, order, F, False)
    # ---- threads, disciplines
    for kind in ("disc_exec", "disc_lin"):
        for n in ((2, 3, 4) if thorough else (2, 3)):
            for w in range(1, n + 1):
                for order in sc.feasible_orders(n, w):
                    for F in _subsets(n):
                        add(kind, "thread", n, w, order, F, "full")
    # ---- processes
    for n, modes in FULL[tier]["process"].items():
        for w in range(1, n + 1):
            for order in sc.feasible_orders(n, w):
                for F in _subsets(n):
                    if modes == 2:
                        add("callable", "process", n, w, order, F, "full", workers="single")
                        add("callable", "process", n, w, order, F, "full", workers="per_task")
                    else:
                        add("callable", "process", n, w, order, F, "full")
    if thorough:
        for w in range(1, 6):
            for order in sc.feasible_orders(5, w):
                add("callable", "process", 5, w, order, [i for i in range(5) if rng.random() < 0.25], "orders")
    for _ in range(800 if thorough else 16):
        n = rng.randint(4, 6)
        w = rng.randint(1, n + 1)
        order = sc.random_feasible_order(rng, n, w)
        F = [i for i in range(n) if rng.random() < rng.choice([0.0, 0.3])]
        add("callable", "process", n, w, order, F, False)
    for n in (2, 3):
        for w in range(1, n + 1):
            for order in sc.feasible_orders(n, w):
                r = rng.randrange(n)
                add("callable", "process", n, w, order, [], False, reraise=r)
    for kind in ("disc_exec", "disc_lin"):
        for n in (2, 3):
            for w in range(1, n + 1):
                for order in sc.feasible_orders(n, w):
                    Fs = list(_subsets(n)) if thorough else [[], [rng.randrange(n)]]
                    for F in Fs:
                        add(kind, "process", n, w, order, F, "full" if thorough else False)
    return out


def e2e_universe(tier, seed):
    rng = random.Random(subseed(seed, PID, "e2e"))
    thorough = tier == "thorough"
    out = []
    # DOE
    for k in range(60 if thorough else 10):
        n = rng.randint(4, 8) if k % 2 else rng.randint(6, 12)
        w = rng.randint(2, 4)
        gated = k % 2 == 0
        if gated:
            n = rng.randint(3, 6)
        samples = [[i + 0.5, float(rng.randint(-5, 5))] for i in range(n)]
        dups = False
        if not gated:
            for _ in range(rng.randint(1, 3)):
                j = rng.randrange(n)
                samples.insert(rng.randrange(len(samples) + 1), list(samples[j]))
            dups = True
        F = sorted({rng.randrange(n) for _ in range(rng.randint(0, 2))})
        out.append({"kind": "doe", "n": n, "w": w, "samples": samples, "fail": F, "dups": dups,
                    "eval_jac": rng.random() < 0.5, "delay": 0.0 if gated else 0.004,
                    "order": list(sc.random_feasible_order(rng, n, w)) if gated else None})
    # chains
    for k in range(80 if thorough else 12):
        n = rng.randint(2, 4)
        backend = "process" if k % 4 == 3 else "thread"
        w = rng.choice([None, None, rng.randint(1, n)])
        cls = "additive" if k % 3 == 1 else "parallel"
        use_z = [rng.random() < 0.7 for _ in range(n)]
        if not any(use_z):
            use_z[0] = True
        out.append({"kind": "chain", "cls": cls, "backend": backend, "n": n, "w": w,
                    "overlap": cls == "parallel" and rng.random() < 0.4, "deep_copy": cls == "parallel" and rng.random() < 0.3,
                    "coefs": [[round(rng.uniform(0.5, 2), 2), round(rng.uniform(-2, 2), 2), round(rng.uniform(-1, 1), 2)] for _ in range(n)],
                    "use_z": use_z, "x": [round(rng.uniform(-2, 2), 3) for _ in range(2)], "z": [round(rng.uniform(-2, 2), 3) for _ in range(2)],
                    "order": list(sc.random_feasible_order(rng, n, w or n)), "order_jac": list(sc.random_feasible_order(rng, n, w or n))})
    # parallel derivative approximation (processes)
    for k in range(40 if thorough else 6):
        dim = rng.randint(2, 4)
        approx = "cd" if k % 3 == 2 else "fd"
        nt = 2 * dim if approx == "cd" else dim + 1
        w = rng.randint(2, 4)
        out.append({"kind": "fd", "approx": approx, "dim": dim, "w": w, "step": 1e-6,
                    "x": [round(rng.uniform(0.2, 2), 3) for _ in range(dim)], "a": [round(rng.uniform(-2, 2), 2) for _ in range(dim)],
                    "order": list(sc.random_feasible_order(rng, nt, w))})
    # shared caches: threads under injected yields
    for k in range(400 if thorough else 28):
        cache = ("memory", "memory_shared", "memory", "hdf5")[k % 4]
        n = rng.randint(2, 8) if cache != "hdf5" else rng.randint(2, 5)
        npool = rng.randint(1, max(1, n - 1))
        pool = [[float(j + 1), round(rng.uniform(-3, 3), 2)] for j in range(npool + 2)]
        picks = [rng.randrange(npool) for _ in range(n)]
        pre = sorted({rng.choice([npool, npool + 1, rng.randrange(npool)]) for _ in range(rng.randint(0, 2))})
        out.append({"kind": "cache", "cache": cache, "backend": "thread", "mode": "linearize" if k % 5 == 4 else "execute",
                    "w": rng.randint(2, min(8, max(2, n))), "pool": pool, "picks": picks, "precached": pre,
                    "yield_seed": rng.randrange(1 << 30)})
    # shared caches: forked processes (shared memory / HDF5 file)
    for k in range(30 if thorough else 4):
        cache = ("memory_shared", "hdf5")[k % 2]
        n = rng.randint(3, 6)
        npool = rng.randint(1, n - 1)
        pool = [[float(j + 1), round(rng.uniform(-3, 3), 2)] for j in range(npool + 1)]
        out.append({"kind": "cache", "cache": cache, "backend": "process", "mode": "execute", "w": rng.randint(2, 3),
                    "pool": pool, "picks": [rng.randrange(npool) for _ in range(n)],
                    "precached": [npool] if rng.random() < 0.5 else [], "delay": 0.003, "yield_seed": 0})
    out.extend(fd_equiv_universe(tier, seed))
    out.extend(chain_inplace_universe(tier, seed))
    return out


def chain_inplace_universe(tier, seed):
    """Chains whose disciplines share input names and some of which work in place on their input arrays."""
    rng = random.Random(subseed(seed, PID, "chain_inplace"))
    out = []
    for k in range(120 if tier == "thorough" else 14):
        n = rng.randint(2, 4)
        r = k % 7
        cls, deep, backend = "parallel", True, "thread"
        if r == 4:
            backend = "process"
        elif r == 5:
            deep = False  # observed only
        elif r == 6:
            cls, deep = "additive", False  # MDOAdditiveChain has no use_deep_copy: observed only
        w = rng.choice([1, 2, 3, None]) if backend == "thread" else rng.choice([2, 3])
        mutate = [rng.choice([None, None, "scale", "set0"]) for _ in range(n)]
        if not any(mutate):
            mutate[rng.randrange(n)] = "scale"
        if all(mutate):
            mutate[rng.randrange(n)] = None
        order = list(sc.random_feasible_order(rng, n, w or n))
        out.append({"kind": "chain", "cls": cls, "backend": backend, "n": n, "w": w, "overlap": cls == "parallel" and rng.random() < 0.3,
                    "deep_copy": deep, "mutate": mutate,
                    "coefs": [[round(rng.uniform(0.5, 2), 2), round(rng.uniform(-2, 2), 2), round(rng.uniform(-1, 1), 2)] for _ in range(n)],
                    "use_z": [True] + [rng.random() < 0.6 for _ in range(n - 1)],
                    "x": [round(rng.uniform(0.5, 2), 3) for _ in range(2)], "z": [round(rng.uniform(-2, 2), 3) for _ in range(2)],
                    "order": order, "order_jac": list(range(n))})
    return out


def directed_cases():
    """Fixed corners named in DESIGN.md (shard 0)."""
    base = {"kind": "callable", "workers": "single", "listed": False, "reraise": None, "ncb": 1, "cb_form": "callable", "exhaustive": False}
    out = [
        # the probe of the design phase: forced order [3,1,0,2], and a failure dequeued first
        dict(base, backend="thread", n=4, w=4, order=[3, 1, 0, 2], fail=[], values=[5, 6, 7, 8]),
        dict(base, backend="thread", n=4, w=2, order=[1, 0, 3, 2], fail=[0], values=[5, 6, 7, 8]),
        dict(base, backend="process", n=3, w=3, order=[2, 0, 1], fail=[], values=[5, 6, 7]),
        # a failure precedes every result / follows every result / all fail / reversed completion
        dict(base, backend="thread", n=5, w=5, order=[4, 3, 2, 1, 0], fail=[4], values=[1, 2, 3, 4, 5], workers="per_task"),
        dict(base, backend="thread", n=5, w=5, order=[4, 3, 2, 1, 0], fail=[0], values=[1, 2, 3, 4, 5], ncb=2, cb_form="list"),
        dict(base, backend="thread", n=3, w=3, order=[2, 1, 0], fail=[0, 1, 2], values=[1, 2, 3]),
        dict(base, backend="process", n=3, w=2, order=[1, 0, 2], fail=[1], values=[1, 2, 3], workers="per_task"),
        # listed exception: first, last
        dict(base, backend="thread", n=4, w=4, order=[2, 3, 0, 1], fail=[3], reraise=2, listed=True, values=[1, 2, 3, 4]),
        dict(base, backend="thread", n=4, w=2, order=[1, 0, 2, 3], fail=[0], reraise=3, listed=True, values=[1, 2, 3, 4]),
        dict(base, backend="process", n=3, w=3, order=[2, 1, 0], fail=[], reraise=1, listed=True, values=[1, 2, 3]),
        # discipline executions / linearizations with a failing discipline in the middle
        dict(base, kind="disc_exec", backend="thread", workers="per_task", n=3, w=3, order=[2, 1, 0], fail=[1], values=[1, 2, 3], coefs=[1.0, 2.0, 3.0]),
        dict(base, kind="disc_lin", backend="thread", workers="per_task", n=3, w=3, order=[2, 1, 0], fail=[], values=[1, 2, 3], coefs=[1.0, 2.0, 3.0]),
        dict(base, kind="disc_lin", backend="thread", workers="per_task", n=3, w=3, order=[2, 0, 1], fail=[1], values=[1, 2, 3], coefs=[1.0, 2.0, 3.0]),
        dict(base, kind="disc_lin", backend="process", workers="per_task", n=3, w=2, order=[1, 0, 2], fail=[0], values=[1, 2, 3], coefs=[1.0, 2.0, 3.0]),
    ]
    e2e = [
        {"kind": "doe", "n": 5, "w": 3, "samples": [[i + 0.5, float(i % 3)] for i in range(5)], "fail": [1], "dups": False,
         "eval_jac": True, "delay": 0.0, "order": [2, 1, 0, 4, 3]},
        {"kind": "doe", "n": 6, "w": 3, "samples": [[i + 0.5, float(i % 3)] for i in range(6)] + [[1.5, 1.0]], "fail": [], "dups": True,
         "eval_jac": False, "delay": 0.01, "order": None, "fail_constraint": [3]},
        {"kind": "cache", "cache": "memory", "backend": "thread", "mode": "execute", "w": 4, "pool": [[1.0, 0.5], [2.0, -1.0]],
         "picks": [0, 0, 0, 0], "precached": [1], "yield_seed": 11},
    ]
    # use_deep_copy=True with a discipline scaling its input in place, released first (one worker, two workers)
    chm = {"kind": "chain", "cls": "parallel", "backend": "thread", "n": 2, "overlap": False, "deep_copy": True, "mutate": ["scale", None],
           "coefs": [[1.0, 0.5, 0.2], [2.0, -1.0, 0.3]], "use_z": [True, True], "x": [1.0, 2.0], "z": [0.5, -0.5],
           "order": [0, 1], "order_jac": [0, 1]}
    e2e += [dict(chm, w=1), dict(chm, w=2), dict(chm, w=2, mutate=["set0", None, "scale"], n=3, order=[0, 2, 1], order_jac=[0, 1, 2],
                                                 coefs=chm["coefs"] + [[0.7, 1.0, -0.4]], use_z=[True, True, False])]
    # derivative approximation: a scalar step given at call time that differs from the constructor / default step
    fdq = {"kind": "fd_equiv", "dim": 2, "w": 2, "a": [1.0, -0.5], "space": None, "x": [1.0, 2.0], "indices": []}
    e2e += [
        dict(fdq, approx="fd", step_mode="call-scalar", ctor_step=None, call_step=1e-4),
        dict(fdq, approx="fd", step_mode="call-scalar", ctor_step=1e-7, call_step=1e-4),
        dict(fdq, approx="fd", step_mode="call-array", ctor_step=None, call_step=[1e-5, 1e-7]),
        dict(fdq, approx="cd", step_mode="call-scalar", ctor_step=1e-7, call_step=1e-4, indices=[1]),
        dict(fdq, approx="cs", step_mode="call-scalar", ctor_step=None, call_step=1e-12),
        dict(fdq, approx="fd", step_mode="call-scalar", ctor_step=None, call_step=1e-4, x=[1.0, 2.0 - 5e-5],
             space={"lb": [0.0, 0.0], "ub": [3.0, 2.0], "normalize": False, "kinds": ["interior", "near_ub"]}),
    ]
    return out, e2e


def shards(tier, seed):
    return [{"seed": subseed(seed, PID, i), "base_seed": seed, "k": i,
             "budget_s": {"quick": 300, "thorough": 2000}[tier]} for i in range(N_SHARDS)]


def run_case(case, rep, scratch):
    kind = case["kind"]
    if kind in ADAPTERS:
        return run_gated(case, rep)
    if kind == "doe":
        return run_doe(case, rep)
    if kind == "chain":
        return run_chain(case, rep)
    if kind == "fd":
        return run_fd(case, rep)
    if kind == "fd_equiv":
        return run_fd_equiv(case, rep)
    if kind == "cache":
        return run_cache(case, rep, scratch)
    raise ValueError(kind)


@contextlib.contextmanager
def quiet():
    """Workers print a traceback per failing task: keep the (captured) stderr of the shard small."""
    old = sys.stderr
    null = open(os.devnull, "w")  # noqa: SIM115
    sys.stderr = null
    try:
        yield
    finally:
        sys.stderr = old
        null.close()


def run_shard(spec, rep):
    import logging
    import warnings

    warnings.filterwarnings("ignore")
    logging.getLogger("gemseo").setLevel(logging.ERROR)
    logging.getLogger("gemseo").propagate = False
    logging.getLogger("gemseo").addHandler(logging.NullHandler())
    tier, k = spec["tier"], spec["k"]
    seed = spec["base_seed"]
    scratch = spec["scratch"]
    with quiet():
        if k == 0:
            d_gated, d_e2e = directed_cases()
            for case in d_gated + d_e2e:
                run_case(dict(case, directed=True), rep, scratch)
                rep.count("directed_cases")
            run_outside_statement(rep)
        sampled = 0
        for case in gated_universe(tier, seed):
            if case.pop("_shard") != k:
                continue
            if rep.time_left() < 0:
                rep.count("stopped_on_time_budget")
                rep.inconclusive("time budget reached before the enumeration was complete")
                break
            info = run_gated(case, rep)
            if sampled < 2 and case["n"] >= 3 and case["fail"]:
                sampled += 1
                rep.sample({"case": case, "observed": info,
                            "note": "forced completion order; dequeue order read back from callback/failure logs"})
        for j, case in enumerate(e2e_universe(tier, seed)):
            if j % N_SHARDS != k:
                continue
            if rep.time_left() < 0:
                rep.count("stopped_on_time_budget")
                rep.inconclusive("time budget reached before the end-to-end cases were complete")
                break
            run_case(case, rep, scratch)
            if j < 2:
                rep.sample({"case": case, "note": "end-to-end equivalence case"})


def coverage_extra(tier, counters):
    out = {"distinct_completion_orders_observed": {
        "threads": counters.get("distinct_completion_orders_observed_thread", 0),
        "processes": counters.get("distinct_completion_orders_observed_process", 0),
        "doe": counters.get("distinct_doe_completion_orders_observed", 0),
        "of_which_not_in_submission_order": counters.get("distinct_out_of_order_completions_observed_thread", 0)
        + counters.get("distinct_out_of_order_completions_observed_process", 0),
        "how": "distinct (n tasks, workers, dequeue order) triples read back from the callback log and the failure log records of "
               "execute(), not from the requested order; every variant of one order runs in one shard, so shard counts add up",
    }}
    exp_t, exp_p = n_full(tier, "thread"), n_full(tier, "process")
    n_max, p_max = max(FULL[tier]["thread"]), max(FULL[tier]["process"])
    done_t, done_p = counters.get("exhaustive_callable_schedules_thread", 0), counters.get("exhaustive_callable_schedules_process", 0)
    out["exhaustive_enumeration"] = {
        "threads": f"CallableParallelExecution: every completion order of n<={n_max} tasks x every worker count 1..n x every failing subset",
        "processes": f"CallableParallelExecution: every completion order of n<={p_max} tasks x every worker count 1..n x every failing subset",
        "schedules_expected": {"thread": exp_t, "process": exp_p},
        "schedules_executed": {"thread": done_t, "process": done_p},
        "complete": done_t >= exp_t and done_p >= exp_p,
    }
    return out


def replay(case, rep):
    case = dict(case)
    case.pop("_shard", None)
    with quiet():
        info = run_case(case, rep, rep.spec.get("scratch") or ".")
    if info:
        print("  observed:", info)
