"""C07 — coupled total derivatives satisfy the implicit-function equations.

Events: ``mda.linearize(input)`` after ``add_differentiated_inputs/outputs`` (requests accumulate on an
instance: that is the only public way to change a request) or with ``compute_all_jacobians=True``, in
sequences of 1-4 successive requests on one MDA instance, for every configuration of mode / matrix type /
LU / linear solver / MDA class / kind of discipline Jacobian (dense, sparse, ``JacobianOperator``).

Oracle (M4): the closed-form implicit-function derivatives of the generated system, computed with numpy from
the harness disciplines' exact partials at the exact coupled solution (``vlib.gen.systems`` and, for
disciplines with state/residual variables, ``vlib.gen.c07_states``).  Every requested block must have shape
``(size f, size x)`` and satisfy ``max|J - J_exact| <= 1e-7 (1 + max|J_exact|)``.

Monitors: (M1) execution/linearisation counters of the harness disciplines, (M4) reference model,
(M8) anchors, plus a logging handler that records what the linear solvers report (non-convergence).
See DESIGN.md section 3, C07.
"""

from __future__ import annotations

import itertools
import logging
import traceback

import numpy as np

from vlib.gen import systems as gs
from vlib.gen.c07_states import StateSystem
from vlib.gen.c07_states import add_states
from vlib.gen.c07_states import integerize_functions
from vlib.harness import subseed

PID = "C07"
LEVEL = "exploration"
RULE = (
    "seeded generator over (coupling graph kind ring/two strong groups/head-core-tail/dense with optional "
    "self-coupling, 2-5 disciplines, variable sizes 1-4, linear or tanh, optional state/residual disciplines, "
    "discipline Jacobians dense/sparse/operator) x (MDA class and inner MDA, chain_linearize, discipline order) x "
    "(linear solver, use_lu_fact) x a sequence of 1-4 accumulating requests, each with its own input/output "
    "subset, input point (same or new), mode auto/direct/adjoint and matrix type; plus, for small systems, all "
    "non-empty subsets of <=3 inputs x <=3 outputs each on a fresh MDA.  A case is one request; it is distinct "
    "by (graph kind, #disciplines, linear?, states?, Jacobian kind, MDA flavour, solver, LU, mode, matrix type, "
    "#inputs, #outputs, position in the sequence, same point?) and non-trivial when at least one requested "
    "block is structurally non-zero"
)
ASSUMPTIONS = [
    "the reference derivatives are exact up to rounding: cond(dR/dy) <= 1e3 is enforced by the generator and the "
    "reference is cross-checked by central finite differences of the harness solution (self-test counter)",
    "a request is judged only when the MDA actually returned the coupled solution (|y - y*| <= 1e-8); otherwise it "
    "is a C06 matter and is recorded as an observation",
    "a result obtained while the linear solver itself reported a breakdown (RuntimeError) or non-convergence "
    "(logged warning) is not judged: Krylov breakdowns on small block-structured systems are a property of the "
    "SciPy solvers, which gemseo reports; they are recorded as observations and counted per solver",
    "whether a linear system was solved is measured (true relative residual of each solve reported as converged "
    "<= 1e-10), because gemseo trusts the SciPy info flag and TFQMR was seen to return info=0 with a residual of 1e-2",
    "Jacobian blocks handed over in float32 are judged with 2e-5 instead of 1e-7 (their own rounding is 6e-8)",
    "CG is exercised but its documented domain (symmetric positive definite) excludes these matrices: same rule",
    "use_lu_fact with a linear operator is documented as unsupported and is not generated",
]
ANCHORS = [
    "gemseo.core.derivatives.jacobian_assembly:JacobianAssembly.total_derivatives",
    "gemseo.core.derivatives.jacobian_assembly:JacobianAssembly._get_jacobian_generator",
    "gemseo.core.derivatives.jacobian_assembly:JacobianAssembly._assemble_jacobian_as_matrix",
    "gemseo.core.derivatives.jacobian_assembly:JacobianAssembly.compute_sizes",
    "gemseo.core.derivatives.jacobian_assembly:JacobianAssembly.split_jac",
    "gemseo.core.derivatives.jacobian_assembly:JacobianAssembly._compute_diff_ios_and_couplings",
    "gemseo.core.derivatives.jacobian_assembly:AssembledJacobianOperator._matvec",
    "gemseo.core.derivatives.jacobian_assembly:AssembledJacobianOperator._rmatvec",
    "gemseo.core.derivatives.jacobian_assembly:CoupledSystem._direct_mode",
    "gemseo.core.derivatives.jacobian_assembly:CoupledSystem._adjoint_mode",
    "gemseo.core.derivatives.jacobian_assembly:CoupledSystem._direct_mode_lu",
    "gemseo.core.derivatives.jacobian_assembly:CoupledSystem._adjoint_mode_lu",
    "gemseo.core.derivatives.mda_derivatives:traverse_add_diff_io_mda",
    "gemseo.core.derivatives.mda_derivatives:_replace_strongly_coupled",
    "gemseo.core.derivatives.jacobian_operator:JacobianOperator.shift_identity",
    "gemseo.core.derivatives.jacobian_operator:JacobianOperator.get_matrix_representation",
    "gemseo.mda.base_mda:BaseMDA._compute_jacobian",
    "gemseo.mda.mda_chain:MDAChain._compute_jacobian",
    "gemseo.algos.linear_solvers.scipy_linalg.scipy_linalg:ScipyLinalgAlgos._run",
]
MIN_COUNTERS = {
    "quick": {
        "blocks_judged": 13900, "directed_requests": 129, "exhaustive_subset_requests": 730,
        "flavour:MDAChain[GaussSeidel,chain_linearize]": 190, "flavour:MDAChain[GaussSeidel]": 170,
        "flavour:MDAChain[Jacobi,chain_linearize]": 230, "flavour:MDAChain[Jacobi]": 190,
        "flavour:MDAChain[NewtonRaphson,chain_linearize]": 160, "flavour:MDAChain[NewtonRaphson]": 180,
        "flavour:MDAGSNewton": 140, "flavour:MDAGaussSeidel": 230, "flavour:MDAJacobi": 200,
        "flavour:MDANewtonRaphson": 280, "jac_kind:dense": 1000, "jac_kind:operator": 490,
        "jac_kind:sparse": 440, "matrix_type:linear_operator": 700, "matrix_type:matrix": 720,
        "matrix_type:matrix+lu": 580, "mode:adjoint": 660, "mode:auto": 680, "mode:direct": 670,
        "reference_self_tests": 16, "requests_judged": 2000, "requests_judged_after_a_previous_request": 730,
        "requests_judged_compute_all_jacobians": 130, "requests_judged_with_state_disciplines": 520,
        "requests_that_linearized_disciplines": 1900, "sequences_of_length_1": 180,
        "sequences_of_length_2": 160, "sequences_of_length_3": 160, "sequences_of_length_4": 150,
        "solver_ok:BICG": 180, "solver_ok:BICGSTAB": 190, "solver_ok:CG": 14, "solver_ok:CGS": 180,
        "solver_ok:DEFAULT": 550, "solver_ok:GCROT": 200, "solver_ok:GMRES": 310, "solver_ok:LGMRES": 220,
        "solver_ok:TFQMR": 140, "systems_with_all_subsets_enumerated": 22
    },
    "thorough": {
        "blocks_judged": 83900, "directed_requests": 129, "exhaustive_subset_requests": 3000,
        "flavour:MDAChain[GaussSeidel,chain_linearize]": 1100, "flavour:MDAChain[GaussSeidel]": 1000,
        "flavour:MDAChain[Jacobi,chain_linearize]": 1300, "flavour:MDAChain[Jacobi]": 1100,
        "flavour:MDAChain[NewtonRaphson,chain_linearize]": 1000, "flavour:MDAChain[NewtonRaphson]": 1000,
        "flavour:MDAGSNewton": 870, "flavour:MDAGaussSeidel": 1400, "flavour:MDAJacobi": 1200,
        "flavour:MDANewtonRaphson": 1700, "jac_kind:dense": 6400, "jac_kind:operator": 2900,
        "jac_kind:sparse": 2600, "matrix_type:linear_operator": 4200, "matrix_type:matrix": 4300,
        "matrix_type:matrix+lu": 3500, "mode:adjoint": 3900, "mode:auto": 4100, "mode:direct": 4000,
        "reference_self_tests": 16, "requests_judged": 12100, "requests_judged_after_a_previous_request": 4400,
        "requests_judged_compute_all_jacobians": 790, "requests_judged_with_state_disciplines": 3100,
        "requests_that_linearized_disciplines": 11400, "sequences_of_length_1": 1000,
        "sequences_of_length_2": 960, "sequences_of_length_3": 990, "sequences_of_length_4": 950,
        "solver_ok:BICG": 1000, "solver_ok:BICGSTAB": 1100, "solver_ok:CG": 84, "solver_ok:CGS": 1000,
        "solver_ok:DEFAULT": 3300, "solver_ok:GCROT": 1200, "solver_ok:GMRES": 1800, "solver_ok:LGMRES": 1300,
        "solver_ok:TFQMR": 880, "systems_with_all_subsets_enumerated": 94
    },
}
# representations of the Jacobian blocks / outputs returned by the harness disciplines (dtype, layout, flags) and the
# integer-function-Jacobian configurations, per derivation path; about half of what seed 0 observes
MIN_COUNTERS["quick"].update({
    "jac_repr:complex": 110, "jac_repr:float32": 120, "jac_repr:float64": 1600, "jac_repr:fortran": 99,
    "jac_repr:int32": 130, "jac_repr:int64": 170, "jac_repr:mixed": 150, "jac_repr:readonly": 77,
    "jac_repr:strided": 85, "linear_solves_measured": 9500, "out_repr:readonly": 160, "out_repr:strided": 170,
    "requests_judged_integer_dfun_dx:adjoint": 26, "requests_judged_integer_dfun_dx:adjoint+lu": 11,
    "requests_judged_integer_dfun_dx:direct": 28, "requests_judged_integer_dfun_dx:direct+lu": 13,
    "requests_judged_with_integer_function_jacobians": 110, "directed_requests": 299
})
MIN_COUNTERS["thorough"].update({
    "jac_repr:complex": 650, "jac_repr:float32": 710, "jac_repr:float64": 9200, "jac_repr:fortran": 560,
    "jac_repr:int32": 670, "jac_repr:int64": 750, "jac_repr:mixed": 800, "jac_repr:readonly": 430,
    "jac_repr:strided": 480, "linear_solves_measured": 53700, "out_repr:readonly": 980, "out_repr:strided": 1000,
    "requests_judged_integer_dfun_dx:adjoint": 64, "requests_judged_integer_dfun_dx:adjoint+lu": 18,
    "requests_judged_integer_dfun_dx:direct": 73, "requests_judged_integer_dfun_dx:direct+lu": 33,
    "requests_judged_with_integer_function_jacobians": 300, "directed_requests": 299
})
SHARD_TIMEOUT = {"quick": 1200, "thorough": 5400}

SOLVERS = ["DEFAULT", "LGMRES", "GMRES", "GCROT", "BICGSTAB", "BICG", "CGS", "TFQMR", "CG"]
SOLVER_WEIGHTS = np.array([4, 2, 3, 2, 2, 2, 2, 2, 0.5])
MODES = ["auto", "direct", "adjoint"]
TOL = 1e-7
TOL_FLOAT32 = 2e-5  # blocks handed over in single precision carry a relative rounding of 6e-8 before any solve
JAC_REPRS = ["float64", "int64", "int32", "float32", "complex", "fortran", "strided", "readonly", "mixed"]
COND_MAX = 1e3


N_SHARDS = 16


def shards(tier, seed):
    n = N_SHARDS
    per = {"quick": 100, "thorough": 700}[tier]
    exh = {"quick": 3, "thorough": 14}[tier]
    return [{"seed": subseed(seed, PID, i), "n_seq": per, "n_exh": exh,
             "budget_s": {"quick": 900, "thorough": 4500}[tier]} for i in range(n)]


# --------------------------------------------------------------------------- solver reports
class _SolverLog(logging.Handler):
    """Records what gemseo's linear-solver layer reports during one linearisation."""

    def __init__(self):
        super().__init__(level=logging.WARNING)
        self.records = []

    def emit(self, record):
        name = record.name
        if name.startswith("gemseo.algos.linear_solvers") or (
                name.endswith("jacobian_assembly") and "not well resolved" in str(record.msg)):
            self.records.append(name.rsplit(".", 1)[-1])


_LOG = _SolverLog()
_SOLVES = []  # true relative residual of every linear solve that the solver reported as converged


def _install_solve_monitor():
    """Measure ||A x - b|| / ||b|| after each solve of gemseo's SciPy wrapper (one extra product per solve).

    gemseo trusts the ``info`` flag of the SciPy solver; TFQMR stops on an *estimate* of the residual norm and was
    seen to return ``info=0`` with a true relative residual of 1.6e-2 (18x18 matrix, cond 3).  Whether the linear
    system was solved is therefore measured here, not inferred from the absence of a warning.
    """
    from gemseo.algos.linear_solvers.scipy_linalg.scipy_linalg import ScipyLinalgAlgos

    if getattr(ScipyLinalgAlgos._run, "_c07_monitor", False):
        return
    original = ScipyLinalgAlgos._run

    def _run(self, problem, **settings):
        original(self, problem, **settings)
        if problem.is_converged:
            try:
                b = np.asarray(problem.rhs, dtype=float).ravel()
                x = np.asarray(problem.solution, dtype=float).ravel()
                nb = float(np.linalg.norm(b))
                _SOLVES.append(float(np.linalg.norm(np.asarray(problem.lhs.dot(x)).ravel() - b)) / nb if nb else 0.0)
            except Exception:  # the monitor must never change what gemseo does
                _SOLVES.append(float("nan"))

    _run._c07_monitor = True
    ScipyLinalgAlgos._run = _run


def _install_log():
    # bootstrap.quiet() disables logging globally; the solver reports are log records, so warnings are re-enabled
    # for the gemseo loggers only (they go to this handler, nowhere else)
    logging.disable(logging.INFO)
    lg = logging.getLogger("gemseo")
    if _LOG not in lg.handlers:
        lg.addHandler(_LOG)
    lg.setLevel(logging.WARNING)
    lg.propagate = False
    _install_solve_monitor()


# --------------------------------------------------------------------------- generation
def _flavours(S, rng):
    """MDA flavours applicable to the system ``S`` (name, class, settings)."""
    out = []
    # With chain_linearize=True the chain rule is applied to the disciplines that are outside the inner MDAs with
    # the Jacobians they declare; a weakly coupled discipline with a state variable declares explicit partials
    # (state held fixed) that only the coupled adjoint can interpret, so that combination is not generated.
    weak_state = any(d.get("state") and not S.is_strong_group(S.comp[i]) for i, d in enumerate(S.discs))
    for inner in ("MDAJacobi", "MDAGaussSeidel", "MDANewtonRaphson"):
        for cl in (False,) if weak_state else (False, True):
            kw = {"inner_mda_name": inner, "chain_linearize": cl, "n_processes": 1}
            out.append((f"MDAChain[{inner[3:]}{',chain_linearize' if cl else ''}]", "MDAChain", kw))
    out.append(("MDAJacobi", "MDAJacobi", {"n_processes": 1}))
    out.append(("MDAGaussSeidel", "MDAGaussSeidel", {}))
    if all(S.is_strong_group(c) for c in range(len(S.sccs()))):
        out.append(("MDANewtonRaphson", "MDANewtonRaphson", {}))
        out.append(("MDANewtonRaphson", "MDANewtonRaphson", {}))
        if S.strongly_coupled():
            out.append(("MDAGSNewton", "MDAGSNewton", {}))
    return out


def gen_system(rng, small=False, states=None):
    for _ in range(20):
        n = int(rng.integers(2, 4)) if small else None
        spec = gs.random_system(rng, n=n, max_size=int(rng.choice([3, 3, 4])))
        if states if states is not None else rng.random() < 0.3:
            add_states(spec, rng)
        if rng.random() < 0.4:
            integerize_functions(spec, rng)
        S = StateSystem(spec)
        if S.cond_residual_jacobian(S.default_inputs()) <= COND_MAX:
            return spec
    raise RuntimeError("could not generate a well-conditioned system")


def gen_config(rng, S):
    flavours = _flavours(S, rng)
    name, cls, kw = flavours[int(rng.integers(len(flavours)))]
    n = len(S.discs)
    strongly = S.strongly_coupled()
    # the listing order is free for one strongly coupled group; otherwise the data-flow order is kept for the
    # Gauss-Seidel sweeps (listing against the flow is the C06 finding, not a C07 matter)
    if strongly or cls in ("MDAChain", "MDAJacobi"):
        order = [int(i) for i in rng.permutation(n)] if rng.random() < 0.5 else list(range(n))
    else:
        order = list(range(n))
    lu = bool(rng.random() < 0.25)
    solver = str(rng.choice(SOLVERS, p=SOLVER_WEIGHTS / SOLVER_WEIGHTS.sum()))
    jac_kind = str(rng.choice(["dense", "dense", "sparse", "operator"]))
    # dtype / memory layout of the Jacobian blocks the disciplines return (dense: all; sparse: dtypes only)
    has_int = any(d.get("int_f") for d in S.discs)
    weights = np.array([6, 3 if has_int else 0.5, 2 if has_int else 0.5, 1, 1, 1, 1, 1, 2 if has_int else 1.0])
    jac_repr = str(rng.choice(JAC_REPRS, p=weights / weights.sum())) if jac_kind != "operator" else "float64"
    if jac_kind == "sparse" and jac_repr not in ("float64", "int64", "int32", "float32", "complex"):
        jac_repr = "float64"
    out_repr = [None, "strided", "readonly"][int(rng.choice(3, p=[0.84, 0.08, 0.08]))]
    return {"flavour": name, "cls": cls, "kw": kw, "order": order, "lu": lu, "solver": solver,
            "jac_kind": jac_kind, "jac_repr": jac_repr, "out_repr": out_repr}


def _point(rng, S):
    return {k: v.tolist() for k, v in S.default_inputs(rng).items()}


def gen_sequence_case(rng):
    spec = gen_system(rng)
    S = StateSystem(spec)
    cfg = gen_config(rng, S)
    outs = S.couplings + S.f_names
    extra = (S.states + S.residuals) if S.has_states else []
    steps = []
    point = _point(rng, S)
    for k in range(int(rng.integers(1, 5))):
        if k and rng.random() < 0.5:
            point = _point(rng, S)
        if rng.random() < 0.12 and S.all_couplings_strong():
            step = {"all": True, "I": [], "O": []}
        else:
            ni = int(rng.integers(1, len(S.independent) + 1))
            no = int(rng.integers(1, min(3, len(outs)) + 1))
            I = [str(v) for v in rng.choice(S.independent, size=ni, replace=False)]
            O = [str(v) for v in rng.choice(outs, size=no, replace=False)]
            if extra and rng.random() < 0.25:
                O.append(str(rng.choice(extra)))
            step = {"all": False, "I": I, "O": O}
        step.update(point=point, mode=str(rng.choice(MODES)),
                    matrix_type="matrix" if cfg["lu"] else str(rng.choice(["matrix", "linear_operator"])))
        steps.append(step)
    return {"kind": "sequence", "spec": spec, "config": cfg, "steps": steps}


def gen_exhaustive_cases(rng):
    """All non-empty subsets of <=3 inputs x <=3 outputs of a small system, each on a fresh MDA."""
    spec = gen_system(rng, small=True, states=bool(rng.random() < 0.2))
    S = StateSystem(spec)
    outs = S.couplings + S.f_names
    ins = S.independent
    if len(ins) > 3:
        ins = sorted(str(v) for v in rng.choice(ins, size=3, replace=False))
    if len(outs) > 3:
        outs = sorted(str(v) for v in rng.choice(outs, size=3, replace=False))
    point = _point(rng, S)

    def subsets(names):
        return [list(c) for k in range(1, len(names) + 1) for c in itertools.combinations(names, k)]

    cases = []
    for I in subsets(ins):
        for O in subsets(outs):
            cfg = gen_config(rng, S)
            step = {"all": False, "I": I, "O": O, "point": point, "mode": str(rng.choice(MODES)),
                    "matrix_type": "matrix" if cfg["lu"] else str(rng.choice(["matrix", "linear_operator"]))}
            cases.append({"kind": "exhaustive", "spec": spec, "config": cfg, "steps": [step]})
    return cases


# --------------------------------------------------------------------------- classification
def _gemseo_frame(exc):
    """Last frame of the traceback that lies in gemseo: (module stem, function)."""
    where = ("?", "?")
    for fr in traceback.extract_tb(exc.__traceback__):
        if "/gemseo/" in fr.filename:
            where = (fr.filename.rsplit("/", 1)[-1][:-3], fr.name)
    return where


def classify_exception(S, exc, I, O, cfg):
    """-> ("observe", name) | ("violation", signature)."""
    name, msg = type(exc).__name__, str(exc)
    mod, func = _gemseo_frame(exc)
    if (name == "TypeError" and "Cannot cast array data" in msg and func in ("_adjoint_mode_lu", "_direct_mode_lu")
            and cfg.get("jac_repr") in ("float32", "mixed")):
        return "violation", "C07:assembly:TypeError:single-precision-LU-when-all-residual-blocks-are-float32"
    if (name == "UFuncTypeError" and func == "reverse_chain_rule"
            and cfg.get("jac_repr") in ("int64", "int32", "mixed")):
        return "violation", "C07:chain_linearize:UFuncTypeError:in-place-accumulation-into-an-integer-Jacobian"
    if name == "RuntimeError" and "breakdown" in msg and mod == "scipy_linalg":
        return "observe", f"linear-solver-reported-breakdown:{cfg['solver']}"
    crosses = S.request_crosses_strong_link(I, O)
    if name == "IndexError" and func == "_assemble_jacobian_as_matrix":
        if not S.couplings_on_path(I, O):
            return "violation", "C07:assembly:IndexError:no-coupling-on-the-differentiation-path"
        if crosses:
            return "violation", "C07:traverse:strong-coupling-read-by-another-strong-group:IndexError"
    if name == "ValueError" and "Failed to determine the size of input variable" in msg:
        var = msg.rsplit(" ", 1)[-1]
        if var in S.ineffective_inputs(I, O):
            return "violation", "C07:assembly:ValueError:size-of-an-input-without-effect-on-the-requested-outputs"
        if crosses:
            return "violation", "C07:traverse:strong-coupling-read-by-another-strong-group:ValueError"
    if name == "KeyError" and func == "_get_jacobian_generator":
        key = exc.args[0] if exc.args else None
        if key in S.residuals and S.owner[key] not in S.involved_disciplines(I, O):
            return "violation", "C07:assembly:KeyError:residual-of-a-state-discipline-outside-the-differentiation-path"
        if key in S.unaffected_outputs(I, O):
            return "violation", "C07:assembly:KeyError:requested-output-independent-of-the-requested-inputs"
        involved = S.involved_disciplines(I, O)
        links = [(a, b) for a, b in S.cross_group_strong_links() if any(S.comp[i] == S.comp[b] for i in involved)]
        if crosses or key in [f"y{a}" for a, _ in links]:
            return "violation", "C07:traverse:strong-coupling-read-by-another-strong-group:KeyError"
    feat = ""
    if (cfg.get("jac_repr") or "float64") != "float64":
        feat += f":jacobian-blocks-{cfg['jac_repr']}"
    if cfg.get("out_repr"):
        feat += f":outputs-{cfg['out_repr']}"
    return "violation", f"C07:exception:{name}:{mod}.{func}{feat}"


def classify_mismatch(S, o, w, blk, point, I, O, cfg, step):
    own = S.owner[o]
    if S.has_states:
        # mechanism test: the observed block equals the closed form in which dF/dw.dw/dx is lost
        wrong, _ = S.total_derivatives(point, of=[o], wrt=[w], drop_state_partials_of_functions=True)
        model = wrong[o][w]
        if float(np.max(np.abs(blk - model))) <= TOL * (1 + float(np.max(np.abs(model)))):
            return "C07:assembly:function-partials-wrt-state-variables-dropped"
        state_owners = [i for i, d in enumerate(S.discs) if d.get("state")]
        if cfg["kw"].get("chain_linearize", False) and any(S.reach[k, own] for k in state_owners):
            return "C07:assembly:function-partials-wrt-state-variables-dropped:propagated-by-chain_linearize"
    if S.request_crosses_strong_link(I, O):
        return "C07:traverse:strong-coupling-read-by-another-strong-group:wrong-value"
    feat = step["mode"] + ":" + step["matrix_type"] + ("+lu" if cfg["lu"] else "")
    jac_repr = cfg.get("jac_repr") or "float64"
    return (f"C07:block-mismatch:{feat}" + (":states" if S.has_states else "")
            + (f":jacobian-blocks-{jac_repr}" if jac_repr != "float64" else ""))


# --------------------------------------------------------------------------- execution
def dense(block):
    if hasattr(block, "toarray"):
        return np.asarray(block.toarray())
    if hasattr(block, "get_matrix_representation"):
        return np.asarray(block.get_matrix_representation())
    return np.asarray(block)


def build_mda(S, cfg):
    from gemseo.mda.factory import MDAFactory

    discs = S.make_disciplines(order=cfg["order"], jac_kind=cfg["jac_kind"], jac_repr=cfg.get("jac_repr"),
                               out_repr=cfg.get("out_repr"))
    mda = MDAFactory().create(cfg["cls"], discs, tolerance=1e-12, max_mda_iter=300, use_lu_fact=cfg["lu"],
                              linear_solver=cfg["solver"], **cfg["kw"])
    return mda, discs


def case_signature(case, k, step, nI, nO, same_point):
    spec, cfg = case["spec"], case["config"]
    return (case["kind"], spec["kind"], spec["n"], spec["nonlinear"], any("state" in d for d in spec["disciplines"]),
            cfg["jac_kind"], cfg.get("jac_repr", "float64"), cfg.get("out_repr"), cfg["flavour"], cfg["solver"],
            cfg["lu"], step["mode"], step["matrix_type"],
            step["all"], nI, nO, k, same_point)


def run_case(case, rep, sample=False):
    _install_log()
    S = StateSystem(case["spec"])
    cfg = case["config"]
    try:
        mda, discs = build_mda(S, cfg)
    except Exception as e:  # a valid system and documented settings: construction must succeed
        rep.violation(f"C07:construction:{type(e).__name__}:{cfg['cls']}", "the MDA can be built", case,
                      observed=f"{type(e).__name__}: {e}")
        return
    accI, accO = [], []
    prev_point = None
    for k, step in enumerate(case["steps"]):
        point = {n: np.array(v, dtype=float) for n, v in step["point"].items()}
        same_point = prev_point is not None and all(np.array_equal(point[n], prev_point[n]) for n in point)
        prev_point = point
        mda.linearization_mode = step["mode"]
        mda.matrix_type = step["matrix_type"]
        if step["all"]:
            I = list(S.independent)
            O = S.couplings + S.f_names + (S.states + S.residuals if S.has_states else [])
        else:
            accI += [v for v in step["I"] if v not in accI]
            accO += [v for v in step["O"] if v not in accO]
            I, O = list(accI), list(accO)
        ref, sol = S.total_derivatives(point, of=O, wrt=I)
        nontrivial = any(np.any(ref[o][w] != 0.0) for o in O for w in I)
        rep.case(case_signature(case, k, step, len(I), len(O), same_point), nontrivial)
        rep.count("requests")
        n_lin0 = sum(d.n_lin for d in discs)
        _LOG.records.clear()
        _SOLVES.clear()
        failing = dict(case, failed_step=k)
        try:
            if step["all"]:
                jac = mda.linearize(point, compute_all_jacobians=True)
            else:
                mda.add_differentiated_inputs(step["I"])
                mda.add_differentiated_outputs(step["O"])
                jac = mda.linearize(point)
        except Exception as e:
            verdict, sig = classify_exception(S, e, I, O, cfg)
            if verdict == "observe":
                rep.observe(sig, {"flavour": cfg["flavour"], "mode": step["mode"], "matrix_type": step["matrix_type"]})
                rep.count("solver_breakdown_reported")
                rep.count(f"solver_failed:{cfg['solver']}")
            else:
                rep.count("exceptions")
                rep.violation(sig, "linearize returns the requested Jacobian", failing,
                              observed=f"{type(e).__name__}: {e} (in {'.'.join(_gemseo_frame(e))})",
                              expected={"inputs": I, "outputs": O,
                                        "ineffective_inputs": S.ineffective_inputs(I, O),
                                        "couplings_on_path": S.couplings_on_path(I, O)})
            return  # the instance may be in an undefined state: stop the sequence
        rep.count("linearize_returned")
        if sum(d.n_lin for d in discs) > n_lin0:
            rep.count("requests_that_linearized_disciplines")
        # did the MDA return the coupled solution? (else: C06)
        gap = max(float(np.max(np.abs(np.asarray(mda.io.data[y]) - sol[y]))) for y in S.couplings)
        if not gap <= 1e-8:
            rep.observe("mda-did-not-return-the-coupled-solution", {"flavour": cfg["flavour"], "gap": gap})
            rep.count("skipped_mda_not_converged")
            continue
        if _LOG.records:
            rep.observe(f"linear-solver-reported-non-convergence:{cfg['solver']}",
                        {"flavour": cfg["flavour"], "mode": step["mode"], "lu": cfg["lu"]})
            rep.count("skipped_solver_reported_failure")
            rep.count(f"solver_failed:{cfg['solver']}")
            return  # the unconverged Jacobian stays in the caches of this instance: stop the sequence
        rep.count("linear_solves_measured", len(_SOLVES))
        if any(not r <= 1e-10 for r in _SOLVES):
            rep.observe(f"linear-solver-claimed-convergence-with-large-true-residual:{cfg['solver']}",
                        {"flavour": cfg["flavour"], "mode": step["mode"], "worst_relative_residual": max(_SOLVES)})
            rep.count("skipped_solver_false_convergence")
            rep.count(f"solver_failed:{cfg['solver']}")
            return  # same rule as a reported failure: not judged, and the Jacobian stays in the caches
        rep.count("requests_judged")
        rep.count(f"solver_ok:{cfg['solver']}")
        rep.count(f"mode:{step['mode']}")
        rep.count(f"matrix_type:{step['matrix_type']}" + ("+lu" if cfg["lu"] else ""))
        rep.count(f"flavour:{cfg['flavour']}")
        rep.count(f"jac_kind:{cfg['jac_kind']}")
        jac_repr = cfg.get("jac_repr") or "float64"
        rep.count(f"jac_repr:{jac_repr}")
        if cfg.get("out_repr"):
            rep.count(f"out_repr:{cfg['out_repr']}")
        if jac_repr in ("int64", "int32", "mixed") and cfg["jac_kind"] != "operator":
            # functions whose partial Jacobians reach gemseo as integer arrays for every requested input
            int_funs = [o for o in O if o in S.f_names and S.discs[S.owner[o]].get("int_f")
                        and all(S.owner[o] in S.readers(w) for w in I)]
            if int_funs:
                rep.count("requests_judged_with_integer_function_jacobians")
                n_var, n_fun = sum(S.sizes[w] for w in I), sum(S.sizes[o] for o in O)
                adjoint = step["mode"] == "adjoint" or (step["mode"] == "auto" and n_var > n_fun)
                if jac_repr != "mixed" and S.couplings_on_path(I, int_funs):
                    rep.count("requests_judged_integer_dfun_dx:" + ("adjoint" if adjoint else "direct")
                              + ("+lu" if cfg["lu"] else ""))
        if S.has_states:
            rep.count("requests_judged_with_state_disciplines")
        if k:
            rep.count("requests_judged_after_a_previous_request")
        if step["all"]:
            rep.count("requests_judged_compute_all_jacobians")
        if S.ineffective_inputs(I, O):
            rep.count("requests_judged_with_an_ineffective_input")
        if not S.couplings_on_path(I, O):
            rep.count("requests_judged_without_coupling_on_path")
        worst = None
        for o in O:
            for w in I:
                rep.count("blocks_judged")
                ex = ref[o][w]
                try:
                    blk = dense(jac[o][w])
                except KeyError:
                    rep.violation("C07:missing-block", "every requested block is returned", failing,
                                  observed={"missing": [o, w], "returned": {a: sorted(b) for a, b in jac.items()}},
                                  expected={"inputs": I, "outputs": O})
                    worst = None
                    break
                if blk.shape != ex.shape:
                    rep.violation("C07:block-shape", "block shape is (size f, size x)", failing,
                                  observed={"block": [o, w], "shape": list(blk.shape)}, expected=list(ex.shape))
                    continue
                err = float(np.max(np.abs(blk - ex))) if ex.size else 0.0
                tol = TOL_FLOAT32 if cfg.get("jac_repr") == "float32" else TOL
                bound = tol * (1 + (float(np.max(np.abs(ex))) if ex.size else 0.0))
                if not err <= bound and (worst is None or err / bound > worst[0]):
                    worst = (err / bound, o, w, blk, ex, err, bound)
        if worst is not None:
            _, o, w, blk, ex, err, bound = worst
            rep.count("requests_with_a_wrong_block")
            rep.violation(classify_mismatch(S, o, w, blk, point, I, O, cfg, step),
                          "block equals the implicit-function closed form",
                          failing, observed={"block": [o, w], "value": blk, "max_abs_error": err},
                          expected={"value": ex, "bound": bound, "inputs": I, "outputs": O})
        if sample and k == 0:
            rep.sample({"system": {"kind": case["spec"]["kind"], "n": case["spec"]["n"],
                                   "nonlinear": case["spec"]["nonlinear"], "states": S.states},
                        "config": cfg, "request": {"inputs": I, "outputs": O, "mode": step["mode"],
                                                   "matrix_type": step["matrix_type"]},
                        "observed": "all blocks within 1e-7 relative of the closed form" if worst is None else "mismatch"})


# --------------------------------------------------------------------------- self-test of the reference
def reference_self_test(rng, rep):
    """The closed form agrees with central differences of the exact harness solution (no gemseo involved)."""
    spec = gen_system(rng, states=bool(rng.random() < 0.5))
    S = StateSystem(spec)
    inp = S.default_inputs(rng)
    of = S.couplings + S.f_names + (S.states if S.has_states else [])
    ref, _ = S.total_derivatives(inp, of=of)
    h = 1e-6
    worst = 0.0
    for w in S.independent:
        for j in range(S.sizes[w]):
            e = np.zeros(S.sizes[w])
            e[j] = h
            sp, sm = S.solve({**inp, w: inp[w] + e}), S.solve({**inp, w: inp[w] - e})
            for o in of:
                worst = max(worst, float(np.max(np.abs((sp[o] - sm[o]) / (2 * h) - ref[o][w][:, j]))))
    rep.count("reference_self_tests")
    if worst > 1e-6:
        rep.inconclusive(f"harness reference disagrees with finite differences ({worst:.1e})")
    if not S.has_states:
        r0, _ = gs.CoupledSystem(spec).total_derivatives(inp)
        if not all(np.allclose(r0[o][w], ref[o][w], rtol=0, atol=1e-12) for o in r0 for w in r0[o]):
            rep.inconclusive("StateSystem and CoupledSystem references disagree on a plain system")


# --------------------------------------------------------------------------- directed cases
def _lin_disc(i, ins, ysz, fsz=None, coef=0.3):
    """A small deterministic linear discipline spec (inputs: list of (name, size))."""
    def mat(r, c, s):
        return (s * (np.arange(1, r * c + 1).reshape(r, c) % 5 - 2.0) / 4 + 0.1).tolist()

    d = {"name": f"D{i}", "inputs": [[n, s] for n, s in ins], "y": [f"y{i}", ysz],
         "A": {n: mat(ysz, s, coef if n.startswith("y") else 1.0) for n, s in ins}, "c": [0.1 * (i + 1)] * ysz}
    if fsz:
        d.update(f=[f"f{i}", fsz], B={n: mat(fsz, s, 0.7) for n, s in ins}, d=[0.2] * fsz, q=0.0)
    return d


def directed_cases():
    """Fixed corners named in DESIGN.md and the mechanisms found while building the check (dealt round-robin to the shards)."""
    out = []
    point = {"x": [0.3, -0.7], "z0": [0.5], "z1": [0.1, 0.2, -0.4], "z2": [0.25], "z3": [-0.3, 0.6]}

    default_combos = (("direct", "matrix", False), ("adjoint", "linear_operator", False), ("auto", "matrix", True))

    def case(discs, kind, requests, flavours, nonlinear=False, combos=default_combos, reprs=(("dense", "float64"),),
             solver="DEFAULT"):
        spec = {"n": len(discs), "kind": kind, "nonlinear": nonlinear, "L": 0.5, "x_size": 2, "disciplines": discs}
        S = StateSystem(spec)
        pt = {k: point[k] for k in S.independent}
        for name, cls, kw in flavours:
            for I, O in requests:
                for mode, mt, lu in combos:
                    for jac_kind, jac_repr in reprs:
                        cfg = {"flavour": name, "cls": cls, "kw": kw, "order": list(range(len(discs))), "lu": lu,
                               "solver": solver, "jac_kind": jac_kind, "jac_repr": jac_repr, "out_repr": None}
                        out.append({"kind": "directed", "spec": spec, "config": cfg,
                                    "steps": [{"all": False, "I": I, "O": O, "point": pt, "mode": mode,
                                               "matrix_type": mt}]})

    chain = [("MDAChain[Jacobi]", "MDAChain", {"n_processes": 1}),
             ("MDAChain[Jacobi,chain_linearize]", "MDAChain", {"n_processes": 1, "chain_linearize": True})]
    jac = [("MDAJacobi", "MDAJacobi", {"n_processes": 1}), ("MDAGaussSeidel", "MDAGaussSeidel", {})]
    # 1. feed-forward pair D0 -> D1: requests without any coupling on the path, and with an input without effect
    ff = [_lin_disc(0, [("x", 2), ("z0", 1)], 2, 1), _lin_disc(1, [("x", 2), ("z1", 3), ("y0", 2)], 3, 2)]
    case(ff, "two_scc", [(["z0"], ["f0"]), (["z1"], ["y1"]), (["z0", "z1"], ["y0"]), (["x", "z1"], ["f0", "f1"])],
         chain + jac)
    # 2. two strong groups (D0<->D1) -> (D2<->D3) linked by y1, which is also read inside its own group
    two = [_lin_disc(0, [("x", 2), ("z0", 1), ("y1", 3)], 2, 1), _lin_disc(1, [("x", 2), ("z1", 3), ("y0", 2)], 3),
           _lin_disc(2, [("x", 2), ("z2", 1), ("y1", 3), ("y3", 2)], 1, 2), _lin_disc(3, [("z3", 2), ("y2", 1)], 2, 1)]
    newton = [("MDANewtonRaphson", "MDANewtonRaphson", {}),
              ("MDAChain[NewtonRaphson]", "MDAChain", {"n_processes": 1, "inner_mda_name": "MDANewtonRaphson"})]
    case(two, "two_scc", [(["x"], ["y2"]), (["z1"], ["f2", "f3"]), (["z0", "z3"], ["y3", "f0"]), (["z2"], ["y2", "f0"]),
                          (["x", "z0", "z1", "z2", "z3"], ["y0", "y1", "y2", "y3", "f0", "f2", "f3"])],
         chain + jac + newton, nonlinear=True)
    # 3. one strong ring with a self-coupled discipline, unequal sizes everywhere
    ring = [_lin_disc(0, [("x", 2), ("z0", 1), ("y0", 2), ("y2", 1)], 2, 1),
            _lin_disc(1, [("z1", 3), ("y0", 2)], 3, 2), _lin_disc(2, [("x", 2), ("y1", 3)], 1)]
    case(ring, "ring", [(["x"], ["f1"]), (["z1", "z0"], ["y2", "f0"]), (["x", "z0", "z1"], ["y0", "y1", "y2", "f0", "f1"])],
         chain + jac + newton[:1], nonlinear=True)
    # 4. state/residual disciplines (solved states), as in tests/mda/test_mda_residuals.py but with sizes > 1
    st = [_lin_disc(0, [("x", 2), ("z0", 1), ("y1", 3)], 2, 1), _lin_disc(1, [("x", 2), ("y0", 2)], 3),
          _lin_disc(2, [("z2", 1), ("y0", 2), ("y1", 3)], 1, 2)]
    st[0]["state"] = {"name": "w0", "res": "r0", "size": 2, "M": [[1.5, 0.1], [-0.2, 1.2]],
                      "P": {"x": [[0.3, -0.2], [0.1, 0.4]], "z0": [[0.5], [-0.6]], "y1": [[0.1, 0.0, -0.1], [0.05, 0.1, 0.0]]},
                      "p": [0.1, -0.2], "W": [[0.2, -0.1], [0.15, 0.3]], "V": [[0.4, -0.3]]}
    case(st, "tail_head", [(["x"], ["f2"]), (["x", "z0"], ["y1", "f2"]), (["x"], ["y0", "f0"]), (["z0"], ["w0"])], chain + jac)
    # 5. head -> ring -> tail where only the tail has a state: requests that do and do not involve it
    st2 = [_lin_disc(0, [("x", 2), ("z0", 1)], 2), _lin_disc(1, [("x", 2), ("y0", 2), ("y2", 1)], 3, 2),
           _lin_disc(2, [("z2", 1), ("y1", 3)], 1), _lin_disc(3, [("x", 2), ("z3", 2), ("y2", 1)], 2, 1)]
    st2[3]["state"] = {"name": "w3", "res": "r3", "size": 3, "M": [[1.4, 0.1, 0.0], [0.0, 1.1, -0.2], [0.1, 0.0, 1.7]],
                       "P": {"x": [[0.3, -0.2], [0.1, 0.4], [0.0, 0.2]], "z3": [[0.5, 0.1], [-0.6, 0.2], [0.3, 0.3]],
                             "y2": [[0.2], [-0.1], [0.3]]},
                       "p": [0.1, -0.2, 0.0], "W": [[0.2, -0.1, 0.3], [0.15, 0.3, -0.2]], "V": [[0.4, -0.3, 0.1]]}
    case(st2, "tail_head", [(["x"], ["f1"]), (["z0", "z2"], ["y1", "y2"]), (["x", "z3"], ["f3", "y3"])], chain[:1] + jac)
    # 6. a function discipline with integer coefficients returning its (constant) Jacobians as integer arrays,
    #    with couplings on the path: every mode / matrix type / LU, dense and sparse blocks, int64 / int32 / mixed
    intf = [_lin_disc(0, [("x", 2), ("z0", 1), ("y1", 3)], 2), _lin_disc(1, [("x", 2), ("y0", 2)], 3),
            _lin_disc(2, [("x", 2), ("z2", 1), ("y0", 2), ("y1", 3)], 1, 2)]
    intf[2].update(B={"x": [[1, 0], [2, -3]], "z2": [[-1], [4]], "y0": [[1, -2], [0, 3]], "y1": [[2, 0, -1], [1, 1, -4]]},
                   q=0.0, int_f=True)
    every = [(m_, t_, l_) for m_ in MODES for t_, l_ in (("matrix", False), ("linear_operator", False), ("matrix", True))]
    case(intf, "tail_head", [(["x"], ["f2"]), (["x", "z2"], ["f2"]), (["x", "z0", "z2"], ["f2", "y2"])],
         chain[:1] + jac[1:], combos=every,
         reprs=(("dense", "int64"), ("dense", "int32"), ("sparse", "int64"), ("dense", "mixed")))
    case(intf, "tail_head", [(["x", "z2"], ["f2"])], jac[1:], combos=every[3:],
         reprs=(("dense", "int64"),), solver="GMRES")
    # the same through the chain rule of MDAChain(chain_linearize=True): integer and real blocks are accumulated
    case(intf, "tail_head", [(["x", "z2"], ["f2"]), (["x", "z0"], ["f2", "y2"])], chain[1:], combos=every[:2],
         reprs=(("dense", "int64"), ("dense", "int32"), ("dense", "readonly")))
    # 7. the other representations on the self-coupled ring (the -I shift works on a copy of the block)
    case(ring, "ring", [(["x", "z0"], ["y0", "f1"])], jac[1:] + newton[:1], nonlinear=True, combos=every[::2],
         reprs=(("dense", "float32"), ("dense", "complex"), ("dense", "fortran"), ("dense", "strided"),
                ("dense", "readonly"), ("sparse", "float32"), ("sparse", "complex")))
    # 8. residual Jacobian made of single-precision blocks only (one self-coupled discipline) and a second function
    #    without coupling input (float64 zero block): LU in both modes
    sc = [_lin_disc(0, [("x", 2), ("z0", 1), ("y0", 2)], 2, 1), _lin_disc(1, [("x", 2), ("z1", 3)], 3, 2)]
    case(sc, "two_scc", [(["x"], ["f0", "f1"]), (["x", "z0", "z1"], ["f1", "y0"])], jac[1:] + chain[:1],
         combos=[c for c in every if c[2]], reprs=(("dense", "float32"), ("sparse", "float32"), ("dense", "float64")))
    return out


# --------------------------------------------------------------------------- entry points
def run_shard(spec, rep):
    rng = np.random.default_rng(spec["seed"])
    # the directed cases are always run; they are dealt round-robin to the shards (they cost about one minute of CPU)
    for case in directed_cases()[spec.get("shard", 0)::N_SHARDS]:
        run_case(case, rep)
        rep.count("directed_requests")
    for _ in range(2):
        reference_self_test(rng, rep)
    for i in range(spec["n_exh"]):
        if rep.time_left() < 0:
            rep.count("stopped_on_time_budget")
            break
        for case in gen_exhaustive_cases(rng):
            run_case(case, rep)
            rep.count("exhaustive_subset_requests")
        rep.count("systems_with_all_subsets_enumerated")
    for i in range(spec["n_seq"]):
        if rep.time_left() < 0:
            rep.count("stopped_on_time_budget")
            break
        case = gen_sequence_case(rng)
        run_case(case, rep, sample=i < 3)
        rep.count("sequences")
        rep.count(f"sequences_of_length_{len(case['steps'])}")


def replay(case, rep):
    run_case(case, rep)
