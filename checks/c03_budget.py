"""C03 — drivers respect the evaluation budget and always return a result.

Monitors (DESIGN.md section 3, C03):

* (M1) recorder on every original callable handed to gemseo (objective, constraints and their
  Jacobians): each call is logged with its point, the driver execution it belongs to (the
  innermost active ``BaseDriverLibrary.execute``), whether it was issued from inside a gradient
  approximator (probe point) and how it ended (value / NaN / raised);
* (M2) a post-condition wrapper attached from outside to ``BaseDriverLibrary.execute`` (every
  execution, nested sub-optimisations of composite algorithms included): database length and
  evaluation counter before/after, number of new-iteration events (own listener), returned
  object or escaping exception; a wrapper on ``BaseGradientApproximator.f_gradient`` flags probe
  calls; a wrapper on ``TerminationCriterion.__init__`` logs every termination criterion raised;
* (M3) offline checks of those logs against the budget (oracle clauses 1-5 below);
* (M6) NaN-returning / raising / sleeping callables;
* per-run watchdogs: an in-process interval timer for algorithms whose cost was pre-classified
  as small, a ``subprocess`` child with a timeout for the others (``NLOPT_NEWUOA`` and any
  algorithm unknown to the classification); a harness-side call cap aborts runaway optimisers
  (no budget enforcement at all, e.g. ``use_database=False``) once the excess is established.

Clauses (budget ``N`` = ``max_iter``, or the number of generated samples for a DOE):

1. new database entries <= N (``N - counter`` on a repeated execution without counter reset);
   new-iteration events == new entries;
2. distinct points at which the original callables were called outside gradient approximation
   (and that were not database keys before the run) <= N, per driver execution; each original
   callable is called at most once per database key;
3. DOE: new database keys == distinct generated samples in generation order (samples where a
   function raised excepted); every function evaluated exactly once per distinct sample;
4. optimisation problems: whenever a termination criterion fired (budget, xtol/ftol/KKT, time,
   NaN) ``execute`` returns a non-``None`` result whose ``x_opt`` is a database key, and no
   ``TerminationCriterion`` escapes; a DOE always returns a result (raising samples included);
5. repeated executions: with counter reset clause 1 applies afresh; without reset the budget is shared by the
   executions since the last reset (entries created since that reset <= N whatever stopped each execution) and the
   evaluation counter equals the number of entries created since the last reset after every execution (optimisation
   libraries and sequential DOEs; a parallel DOE is only observed).
"""

from __future__ import annotations

import functools
import json
import os
import signal
import subprocess
import sys
import time
from pathlib import Path

import numpy as np

from vlib.harness import Reporter
from vlib.harness import jsonable
from vlib.harness import subseed

PID = "C03"
LEVEL = "exploration"
RULE = (
    "seeded generator over (driver algorithm from the optimisation / DOE factories, budget N, problem family "
    "(convex quadratic, Rosenbrock-like, linear program, two-objective, NaN in a half-space, raising in a half-space, "
    "10 ms sleeping), constraints (none / inequality / equality / vector), integer variable, stop cause "
    "(budget, ftol, xtol, KKT, max_time, NaN, raising sample), normalize_design_space, use_database, round_ints, "
    "differentiation method, serial / 2-process DOE, second execution with or without counter reset; time-sliced runs: "
    "2-6 executions sharing one budget without counter reset, a random subset stopped by a tiny max_time or a loose "
    "tolerance) plus a "
    "systematic sweep of every factory algorithm over the budgets and directed corner cases; a case is distinct by "
    "that tuple (coefficients excluded) and non-trivial when at least one original callable was called"
)
ASSUMPTIONS = [
    "the harness callables are the only 'original objective and constraints'; probe points of derivative "
    "approximation are the calls issued while BaseGradientApproximator.f_gradient is on the stack",
    "a DOE's budget is the number of samples it generated (sample count itself is C14's subject)",
    "direct LP/MILP solvers evaluate their solution once outside the database after solving; this single "
    "post-solve evaluation is recorded as an observation, not counted against the budget",
    "composite algorithms (MultiStart, MNBI, augmented Lagrangian) are held to the budget of each driver "
    "execution they start, observed through the wrapper on BaseDriverLibrary.execute",
    "wall-clock is never part of a verdict; a watchdog firing discards that case only (counted)",
    "reading of 'repeated executions ... without counter reset': the counter is not reset, so the budget N is shared by "
    "the executions since the last reset: an execution without reset may create at most N minus the database entries "
    "created since that reset (counted by the harness, whatever criterion stopped the previous executions), and after "
    "every execution evaluation_counter.current equals the number of non-empty entries created since the last reset; "
    "this is a verdict for optimisation libraries and sequential DOEs on the main problem; a parallel DOE (workers do "
    "not see the counter), composite and LP/MILP algorithms are held to 'at most N new entries' and the difference is "
    "only observed",
]
ANCHORS = [
    "gemseo.algos.problem_function:ProblemFunction._compute_output_db",
    "gemseo.algos.problem_function:ProblemFunction._compute_jacobian_db",
    "gemseo.algos.problem_function:ProblemFunction._compute_output_db_norm",
    "gemseo.algos.problem_function:ProblemFunction._compute_jacobian_db_norm",
    "gemseo.algos.evaluation_counter:EvaluationCounter.maximum_is_reached",
    "gemseo.algos.database:Database.store",
    "gemseo.algos.base_driver_library:BaseDriverLibrary._new_iteration_callback",
    "gemseo.algos.base_driver_library:BaseDriverLibrary.execute",
    "gemseo.algos.base_driver_library:BaseDriverLibrary._get_early_stopping_result",
    "gemseo.algos.opt.base_optimization_library:BaseOptimizationLibrary._new_iteration_callback",
    "gemseo.algos.stop_criteria:ObjectiveToleranceTester._check",
    "gemseo.algos.stop_criteria:DesignToleranceTester._check",
    "gemseo.algos.doe.base_doe_library:BaseDOELibrary._run",
]
_MIN_QUICK = {
    "runs_judged": 900, "runs_judged_opt": 500, "runs_judged_doe": 350, "directed_cases": 100,
    "clause1_entries_checked": 1000, "clause1_events_checked": 1000, "clause2_points_checked": 1000,
    "clause2b_callables_checked": 1000, "clause3_order_checked": 350, "clause3_exactly_once_checked": 280,
    "clause4_checked": 600, "clause4_x_opt_checked": 600, "clause4_result_after:doe-completed": 200,
    "nested_executions_judged": 150, "runs_database_off": 50, "runs_normalized": 400, "runs_second-reset": 40,
    "runs_second-noreset": 40, "runs_with_probe_points": 150, "runs_diff_finite_differences": 40,
    "runs_diff_complex_step": 40, "runs_diff_centered_differences": 40,
    "runs_with_integer_variable_round_ints_on": 90, "runs_with_integer_variable_round_ints_off": 60,
    "stop:MaxIterReachedException": 250, "stop:FtolReached": 30, "stop:XtolReached": 30, "stop:MaxTimeReached": 50,
    "stop:FunctionIsNan": 15, "stop:KKTReached": 15, "doe_runs_with_raising_samples": 30, "doe_runs_parallel": 15,
    "doe_runs_with_duplicate_samples": 30,
    # time-sliced runs (clause 5)
    "sliced_cases": 200, "executions_without_reset_judged": 650, "clause5_shared_budget_checked": 650,
    "clause5_counter_conservation_checked": 1500, "executions_without_reset_stopped_by_max_time": 140,
    "executions_without_reset_stopped_by_tolerance": 40, "executions_without_reset_stopped_by_budget": 300,
}
MIN_COUNTERS = {
    "quick": dict(_MIN_QUICK, opt_algorithms_swept=20, doe_algorithms_swept=29),
    "thorough": dict({k: 8 * v for k, v in _MIN_QUICK.items() if k != "directed_cases"}, directed_cases=100,
                     opt_algorithms_swept=20, doe_algorithms_swept=29),
}
SHARD_TIMEOUT = {"quick": 500, "thorough": 3000}

KNOWN_DB_OFF = "C03:budget-unenforced:use_database=False"

BUDGETS = [1, 2, 3, 5, 8, 13, 21]
# Algorithms whose cost on the generated problems was measured to be small (milliseconds per evaluation).
# Everything else (NLOPT_NEWUOA spends tens of seconds in native code after the budget exception; algorithms
# unknown to this list) runs in a child process with a timeout.
INPROCESS_OPT = {
    "Augmented_Lagrangian_order_0", "Augmented_Lagrangian_order_1", "MNBI", "MultiStart", "NLOPT_MMA",
    "NLOPT_COBYLA", "NLOPT_SLSQP", "NLOPT_BOBYQA", "NLOPT_BFGS", "DUAL_ANNEALING", "SHGO",
    "DIFFERENTIAL_EVOLUTION", "INTERIOR_POINT", "DUAL_SIMPLEX", "Scipy_MILP", "SLSQP", "L-BFGS-B", "TNC",
    "NELDER-MEAD", "COBYQA",
}
INPROCESS_DOE = {
    "CustomDOE", "DiagonalDOE", "MorrisDOE", "OATDOE", "OT_SOBOL", "OT_RANDOM", "OT_HASELGROVE",
    "OT_REVERSE_HALTON", "OT_HALTON", "OT_FAURE", "OT_MONTE_CARLO", "OT_FACTORIAL", "OT_COMPOSITE", "OT_AXIAL",
    "OT_OPT_LHS", "OT_LHS", "OT_LHSC", "OT_FULLFACT", "OT_SOBOL_INDICES", "PYDOE_BBDESIGN", "PYDOE_CCDESIGN",
    "PYDOE_FF2N", "PYDOE_FULLFACT", "PYDOE_LHS", "PYDOE_PBDESIGN", "Halton", "LHS", "MC", "PoissonDisk", "Sobol",
}
COMPOSITE = {"MultiStart", "MNBI", "Augmented_Lagrangian_order_0", "Augmented_Lagrangian_order_1"}
LP_ALGOS = {"INTERIOR_POINT", "DUAL_SIMPLEX", "Scipy_MILP"}
MIN_DIM = {"NLOPT_NEWUOA": 2, "NLOPT_BOBYQA": 2, "PYDOE_BBDESIGN": 3, "PYDOE_CCDESIGN": 2}
INPROCESS_WATCHDOG_S = 60.0
CHILD_TIMEOUT_S = {"quick": 20.0, "thorough": 60.0}
N_SHARDS = 16


class HarnessAbort(BaseException):
    """Raised by the recorder when a run evaluated far more points than any budget allows."""


class HarnessTimeout(BaseException):
    """Raised by the in-process interval timer."""


# =========================================================================== shards
def shards(tier, seed):
    n_random = {"quick": 160, "thorough": 4000}[tier]
    n_sliced = {"quick": 50, "thorough": 900}[tier]
    return [{"seed": subseed(seed, PID, i), "n_random": n_random, "n_sliced": n_sliced, "n_shards": N_SHARDS,
             "budget_s": {"quick": 300, "thorough": 2000}[tier]} for i in range(N_SHARDS)]


# =========================================================================== monitors attached to gemseo
class Monitors:
    """Wrappers attached from outside to the real classes (installed once per process)."""

    instance = None

    def __init__(self):
        self.stack = []          # active executions (records)
        self.records = []        # all executions of the current case
        self.terminations = []   # (exec id or None, class name)
        self.probe_depth = 0
        self.recorder = None
        self.owner = os.getpid()

    def reset(self, recorder):
        self.stack, self.records, self.terminations = [], [], []
        self.probe_depth = 0
        self.recorder = recorder

    def current(self):
        return self.stack[-1]["id"] if self.stack else None

    @classmethod
    def install(cls):
        if cls.instance is not None:
            return cls.instance
        mon = cls.instance = cls()
        from gemseo.algos.base_driver_library import BaseDriverLibrary
        from gemseo.algos.stop_criteria import TerminationCriterion
        from gemseo.utils.derivatives.base_gradient_approximator import BaseGradientApproximator
        from gemseo.utils.derivatives.complex_step import ComplexStep

        original_execute = BaseDriverLibrary.execute

        @functools.wraps(original_execute)
        def execute(self, problem, *args, **kwargs):
            database = problem.database
            record = {
                "id": len(mon.records), "parent": mon.current(), "algo": self._algo_name,
                "lib": type(self).__name__, "db_before": len(database),
                "counter_before": problem.evaluation_counter.current,
                "reset": kwargs.get("reset_iteration_counters", getattr(
                    kwargs.get("settings_model"), "reset_iteration_counters", True)),
                "events": 0, "returned": False, "result_is_none": None, "exception": None,
                "is_optimization": hasattr(problem, "objective"),
            }
            mon.records.append(record)
            mon.stack.append(record)

            counter = problem.evaluation_counter
            record["counter_decreased"] = False
            state = {"start": None}

            def listener(x_vect):
                # called before the driver's own callback: the counter still holds the number of previous iterations
                record["events"] += 1
                if state["start"] is None:
                    state["start"] = counter.current
                elif counter.current < state["start"] + record["events"] - 1:
                    record["counter_decreased"] = True

            added = database.add_new_iter_listener(listener)
            try:
                result = original_execute(self, problem, *args, **kwargs)
                record["returned"] = True
                record["result_is_none"] = result is None
                record["result"] = result
                return result
            except BaseException as exc:
                record["exception"] = exc
                raise
            finally:
                mon.stack.pop()
                record["db_after"] = len(database)
                record["budget"] = problem.evaluation_counter.maximum
                record["counter_after"] = problem.evaluation_counter.current
                if state["start"] is not None and counter.current < state["start"] + record["events"]:
                    # the last new iteration(s) were not counted (or the counter was reset after them): judged by the
                    # conservation clause, not attributed to a reset in the middle of the run
                    record["counter_lag_at_end"] = True
                record["library"] = self
                record["problem"] = problem
                if added:
                    try:
                        database.clear_listeners(new_iter_listeners=[listener], store_listeners=None)
                    except ValueError:
                        pass

        BaseDriverLibrary.execute = execute

        def wrap_gradient(klass):
            original = klass.__dict__["f_gradient"]

            @functools.wraps(original)
            def f_gradient(self, *args, **kwargs):
                mon.probe_depth += 1
                try:
                    return original(self, *args, **kwargs)
                finally:
                    mon.probe_depth -= 1

            klass.f_gradient = f_gradient

        wrap_gradient(BaseGradientApproximator)
        if "f_gradient" in ComplexStep.__dict__:
            wrap_gradient(ComplexStep)

        def termination_init(self, *args):
            Exception.__init__(self, *args)
            mon.terminations.append((mon.current(), type(self).__name__))

        TerminationCriterion.__init__ = termination_init
        return mon


class Recorder:
    """Ground-truth log of the calls of the original callables (M1)."""

    serial = 0

    def __init__(self, scratch, cap):
        self.calls = []
        self.cap = cap
        self.owner = os.getpid()
        # never reused: workers of an interrupted parallel DOE may keep writing after the parent collected the file
        Recorder.serial += 1
        self.path = os.path.join(scratch, f"calls_{os.getpid()}_{Recorder.serial}.jsonl")
        self.armed = True

    def log(self, name, kind, x, status):
        mon = Monitors.instance
        xr = np.real(np.asarray(x)).astype(float).ravel()
        entry = {"exec": mon.current(), "probe": mon.probe_depth > 0, "name": name, "kind": kind,
                 "x": tuple(xr.tolist()), "status": status}
        if os.getpid() == self.owner:
            self.calls.append(entry)
            if self.armed and len(self.calls) > self.cap:
                self.armed = False
                raise HarnessAbort(f"{len(self.calls)} calls of the original callables")
        else:  # forked DOE worker: the parent cannot see this memory
            line = (json.dumps(dict(entry, x=list(entry["x"]), pid=os.getpid())) + "\n").encode()
            fd = os.open(self.path, os.O_WRONLY | os.O_CREAT | os.O_APPEND, 0o600)
            try:
                os.write(fd, line)
            finally:
                os.close(fd)

    def collect_children(self):
        if os.path.exists(self.path):
            with open(self.path) as fh:
                for line in fh:
                    e = json.loads(line)
                    e["x"] = tuple(e["x"])
                    self.calls.append(e)
            os.remove(self.path)


# =========================================================================== harness problems (closed forms)
class Model:
    """Closed-form objective / constraints described by a JSON-able dictionary (no gemseo import)."""

    def __init__(self, pd):
        self.pd = pd
        self.n = pd["n"] + pd.get("n_int", 0)
        self.fam = pd["fam"]
        if self.fam in ("quad", "mo"):
            self.A = np.array(pd["A"], dtype=float)
            self.c = np.array(pd["c"], dtype=float)
            if self.fam == "mo":
                self.A2 = np.array(pd["A2"], dtype=float)
                self.c2 = np.array(pd["c2"], dtype=float)
        elif self.fam == "lin":
            self.c = np.array(pd["c"], dtype=float)
        self.cstr = pd.get("cstr", [])
        self.bad = pd.get("bad")
        self.sleep = pd.get("sleep_ms", 0) / 1000.0
        # skewed durations (parallel DOE): the earlier a sample along the first axis, the longer its evaluation
        self.skew = pd.get("skew_ms", 0) / 1000.0
        self.lb0, self.ub0 = pd["lb"][0], pd["ub"][0]

    # -- objective
    def f(self, x):
        if self.fam == "quad":
            d = x - self.c
            return 0.5 * (d @ (self.A @ d)) + 1.0
        if self.fam == "rosen":
            return np.sum((1.0 - x[:-1]) ** 2) + 10.0 * np.sum((x[1:] - x[:-1] ** 2) ** 2) + 0.1 * (x[-1] - 0.5) ** 2
        if self.fam == "mo":
            d, e = x - self.c, x - self.c2
            return np.array([0.5 * (d @ (self.A @ d)), 0.5 * (e @ (self.A2 @ e))])
        if self.fam == "lin":
            return self.c @ x
        raise ValueError(self.fam)

    def df(self, x):
        if self.fam == "quad":
            return 0.5 * (self.A + self.A.T) @ (x - self.c)
        if self.fam == "rosen":
            g = np.zeros_like(x)
            g[:-1] += -2.0 * (1.0 - x[:-1]) - 40.0 * x[:-1] * (x[1:] - x[:-1] ** 2)
            g[1:] += 20.0 * (x[1:] - x[:-1] ** 2)
            g[-1] += 0.2 * (x[-1] - 0.5)
            return g
        if self.fam == "mo":
            return np.vstack([0.5 * (self.A + self.A.T) @ (x - self.c), 0.5 * (self.A2 + self.A2.T) @ (x - self.c2)])
        if self.fam == "lin":
            return self.c.copy()
        raise ValueError(self.fam)

    def g(self, k, x):
        c = self.cstr[k]
        a = np.array(c["a"], dtype=float)
        v = a @ x - np.array(c["b"], dtype=float)
        return v

    def dg(self, k, x):
        a = np.array(self.cstr[k]["a"], dtype=float)
        return a.copy()

    def is_bad(self, x):
        if not self.bad:
            return False
        return float(np.real(np.array(self.bad["a"]) @ x)) > self.bad["b"]


def build_problem(pd, diff, recorder):
    """Create the OptimizationProblem of a case; every original callable goes through the recorder."""
    from gemseo.algos.design_space import DesignSpace
    from gemseo.algos.optimization_problem import OptimizationProblem
    from gemseo.core.mdo_functions.mdo_function import MDOFunction
    from gemseo.core.mdo_functions.mdo_linear_function import MDOLinearFunction

    model = Model(pd)
    nx, ni = pd["n"], pd.get("n_int", 0)
    lb, ub, x0 = np.array(pd["lb"], dtype=float), np.array(pd["ub"], dtype=float), np.array(pd["x0"], dtype=float)
    space = DesignSpace()
    if nx:
        space.add_variable("x", nx, lower_bound=lb[:nx], upper_bound=ub[:nx], value=x0[:nx])
    if ni:
        space.add_variable("k", ni, type_="integer", lower_bound=lb[nx:].astype(int), upper_bound=ub[nx:].astype(int),
                           value=x0[nx:].astype(int))
    problem = OptimizationProblem(space)
    bad = pd.get("bad")

    def recorded(name, kind, fn, who):
        def call(x):
            x = np.asarray(x)
            if kind == "f" and model.sleep:
                time.sleep(model.sleep)
            if kind == "f" and model.skew and name == "f":
                time.sleep(model.skew * float(np.clip((model.ub0 - np.real(x[0])) / (model.ub0 - model.lb0), 0.0, 1.0)))
            if bad and bad["who"] == who and kind == "f" and model.is_bad(x):
                if bad["mode"] == "raise":
                    recorder.log(name, kind, x, "raised")
                    raise ValueError("harness: the function refuses this point")
                recorder.log(name, kind, x, "nan")
                return np.full(np.shape(fn(x)), np.nan) if np.ndim(fn(x)) else float("nan")
            recorder.log(name, kind, x, "ok")
            return fn(x)

        return call

    if model.fam == "lin":
        objective = MDOLinearFunction(np.array(pd["c"], dtype=float), "f", MDOFunction.FunctionType.OBJ,
                                      input_names=space.variable_names)
        objective.func = recorded("f", "f", objective.func, "obj")
        problem.objective = objective
        for k, c in enumerate(model.cstr):
            a = np.atleast_2d(np.array(c["a"], dtype=float))
            lin = MDOLinearFunction(a, f"g{k}", input_names=space.variable_names,
                                    value_at_zero=-np.atleast_1d(np.array(c["b"], dtype=float)))
            lin.func = recorded(f"g{k}", "f", lin.func, f"g{k}")
            problem.add_constraint(lin, constraint_type=c["type"])
    else:
        with_jac = diff == "user"
        dim = 2 if model.fam == "mo" else 1
        problem.objective = MDOFunction(recorded("f", "f", model.f, "obj"), "f",
                                        jac=recorded("f", "j", model.df, "obj") if with_jac else None, dim=dim)
        for k, c in enumerate(model.cstr):
            problem.add_constraint(
                MDOFunction(recorded(f"g{k}", "f", functools.partial(model.g, k), f"g{k}"), f"g{k}",
                            jac=recorded(f"g{k}", "j", functools.partial(model.dg, k), f"g{k}") if with_jac else None,
                            dim=int(np.size(c["b"]))),
                constraint_type=c["type"])
        if diff != "user":
            problem.differentiation_method = diff
    return problem, model


# =========================================================================== running one case
def _alarm(signum, frame):
    raise HarnessTimeout


def int_mask(pd):
    return np.array([False] * pd["n"] + [True] * pd.get("n_int", 0))


def canon(x, mask, round_ints):
    """Point seen by the original callables for a database key (integer components rounded)."""
    x = np.array(x, dtype=float)
    if round_ints and mask.any():
        x = x.copy()
        x[mask] = np.round(x[mask])
    return x


def close(a, b):
    a, b = np.asarray(a, dtype=float), np.asarray(b, dtype=float)
    return a.shape == b.shape and bool(np.all(np.abs(a - b) <= 1e-11 * (1.0 + np.abs(b))))


def bits(x):
    """Bitwise identity of a point (what the database hashes), signed zeros merged."""
    return (np.asarray(x, dtype=float) + 0.0).tobytes()


def raw_bits(x):
    return np.asarray(x, dtype=float).tobytes()


def same_key(a, b):
    """``close`` with the identity of the database for zeros (0.0 and -0.0 are different keys)."""
    if not close(a, b):
        return False
    a, b = np.asarray(a, dtype=float), np.asarray(b, dtype=float)
    zeros = (a == 0.0) & (b == 0.0)
    return bool(np.all(np.signbit(a[zeros]) == np.signbit(b[zeros])))


def find(point, points):
    for i, q in enumerate(points):
        if close(point, q):
            return i
    return -1


def db_snapshot(problem):
    keys, names = [], []
    for k, v in problem.database.items():
        keys.append(np.array(k.wrapped_array, dtype=float))
        names.append(set(v))
    return keys, names


def lib_family(run):
    return run.get("lib") or run["algo"]


def execute_run(problem, case, run, rep, watchdog_s=INPROCESS_WATCHDOG_S):
    """Execute one driver run under the in-process watchdog; returns the outcome dictionary."""
    mon = Monitors.instance
    if run["kind"] == "doe":
        from gemseo.algos.doe.factory import DOELibraryFactory as Factory
    else:
        from gemseo.algos.opt.factory import OptimizationLibraryFactory as Factory
    settings = dict(run["settings"])
    if "samples" in settings:
        settings["samples"] = np.array(settings["samples"], dtype=float)
    if "initial_point" in settings:
        settings["initial_point"] = np.array(settings["initial_point"], dtype=float)
    first_record = len(mon.records)
    out = {"exception": None, "result": None, "aborted": False, "timeout": False, "library": None}
    old = signal.signal(signal.SIGALRM, _alarm)
    signal.setitimer(signal.ITIMER_REAL, watchdog_s, 1.0)
    try:
        library = Factory().create(run["algo"])
        out["library"] = library
        kwargs = {"skip_int_check": True} if run.get("skip_int_check") else {}
        out["result"] = library.execute(problem, **kwargs, **settings)
    except HarnessAbort:
        out["aborted"] = True
    except HarnessTimeout:
        out["timeout"] = True
    except Exception as exc:  # judged by the oracle (clause 4), never swallowed
        out["exception"] = exc
    finally:
        signal.setitimer(signal.ITIMER_REAL, 0.0)
        signal.signal(signal.SIGALRM, old)
    for _ in range(2):
        # nlopt's wrapper can leave an error indicator pending when a later callback succeeded after an exception;
        # the next C call would raise a SystemError in unrelated code: absorb it here
        try:
            os.getpid()
        except SystemError:
            rep.count("stale_error_indicator_absorbed")
    out["records"] = mon.records[first_record:]
    return out


def run_case(case, rep, scratch=None, tag="generated"):
    """Run every execution of a case on the real code and judge it."""
    scratch = scratch or rep.spec.get("scratch") or os.getcwd()
    mon = Monitors.install()
    pd = case["problem"]
    n_total = pd["n"] + pd.get("n_int", 0)
    cap = 400 + 60 * (max(r["N"] for r in case["runs"]) + 1) * (n_total + 2)
    recorder = Recorder(scratch, cap)
    mon.reset(recorder)
    try:
        problem, model = build_problem(pd, case["diff"], recorder)
    except Exception as exc:
        rep.observe("harness-could-not-build-problem", {"case": case, "error": repr(exc)})
        return
    any_call = False
    # entries created since the last counter reset, counted by the harness (never read from the counter under test)
    epoch = {"entries": 0}
    if len(case["runs"]) > 2 or case.get("sliced"):
        rep.count("sliced_cases")
    for index, run in enumerate(case["runs"]):
        keys_before, names_before = db_snapshot(problem)
        first_call = len(recorder.calls)
        first_term = len(mon.terminations)
        if run["settings"].get("use_database", True):
            recorder.cap = first_call + cap
        else:
            # nothing stops the optimiser without the database (known finding): abort as soon as the excess over the
            # budget is beyond doubt (gradient probes included)
            recorder.cap = first_call + 60 + 3 * (run["N"] + 1) * (n_total + 2)
        recorder.armed = True
        out = execute_run(problem, case, run, rep)
        recorder.collect_children()
        calls = recorder.calls[first_call:]
        terminations = mon.terminations[first_term:]
        any_call = any_call or bool(calls)
        if out["timeout"]:
            rep.count("watchdog_fired_inprocess")
            rep.count(f"watchdog:{run['algo']}")
            rep.observe("watchdog-fired", {"algo": run["algo"], "N": run["N"]})
            return
        refused = judge_run(case, index, run, problem, model, out, calls, terminations, keys_before, names_before, rep,
                            epoch)
        if refused or out["aborted"] or out["exception"] is not None:
            break
    rep.case(case_signature(case), nontrivial=any_call)


def case_signature(case):
    pd = case["problem"]
    return (
        tuple((r["kind"], r["algo"], r["N"], r.get("stop"), tuple(sorted(
            (k, v if isinstance(v, (bool, int, str)) else "*") for k, v in r["settings"].items()
            if k in ("normalize_design_space", "use_database", "round_ints", "reset_iteration_counters", "n_processes",
                     "eval_jac", "stop_crit_n_x")))) for r in case["runs"]),
        pd["fam"], pd["n"], pd.get("n_int", 0), tuple(np.size(c["b"]) for c in pd.get("cstr", [])),
        tuple(c["type"] for c in pd.get("cstr", [])), None if not pd.get("bad") else (pd["bad"]["mode"], pd["bad"]["who"]),
        bool(pd.get("sleep_ms")), case["diff"],
    )


# =========================================================================== the oracle
REFUSAL_MARKERS = (
    "is not adapted to the problem", "requires at least", "must be greater than", "is greater than the limit",
    "not suitable", "validation error", "must be >=", "the size must be", "requires either", "Extra inputs",
    "Field required", "can not handle", "is unbounded", "are unbounded",
)


def stop_of(terminations):
    names = [t[1] for t in terminations]
    return names


def shared_budget_applies(run):
    """Executions for which the real code shares the budget between executions without counter reset."""
    if run["algo"] in COMPOSITE or run["algo"] in LP_ALGOS:
        return False
    return not (run["kind"] == "doe" and run["settings"].get("n_processes", 1) > 1)


def excess_signature(what, record, case, family, level, when):
    """Mechanism signature of a budget excess with the database on."""
    if record.get("counter_decreased"):
        # the evaluation counter went backwards during the execution (someone reset it)
        # (the KKT checker is a store listener that stays attached to the database: it also acts in later executions)
        via = "kkt-criterion" if level == "main" and any(
            k.startswith("kkt_tol") for r in case["runs"] for k in r["settings"]) else family
        return f"C03:budget-exceeded:evaluation-counter-reset-during-execution:{via}"
    return f"C03:{what}-exceed-budget:{family}:{level}:{when}"


OUTSIDE_BOUNDS = ("of the given array", "than the lower bound", "than the upper bound")


def judge_run(case, index, run, problem, model, out, calls, terminations, keys_before, names_before, rep, epoch=None):
    """Apply clauses 1-5 to one execution (and to the nested executions it started). Returns True on a refusal."""
    pd = case["problem"]
    mask = int_mask(pd)
    settings = run["settings"]
    db_on = settings.get("use_database", True)
    round_ints = settings.get("round_ints", True)
    records = out["records"]
    main = records[0] if records else None
    lib = main["lib"] if main else run["algo"]
    is_doe = run["kind"] == "doe"
    when = "first" if index == 0 else ("second-reset" if settings.get("reset_iteration_counters", True) else "second-noreset")
    term_names = stop_of(terminations)
    nonprobe = [c for c in calls if not c["probe"]]
    exc = out["exception"]

    # ---- refusals: invalid settings / unsuitable algorithm, raised before anything was evaluated
    if exc is not None and not calls and not term_names:
        text = f"{type(exc).__name__}: {exc}"
        rep.count("refused_before_any_evaluation")
        if not any(m in text for m in REFUSAL_MARKERS):
            rep.observe("exception-before-any-evaluation", {"algo": run["algo"], "error": text[:300]})
        return True
    if main is None:
        rep.observe("execute-not-entered", {"algo": run["algo"]})
        return True

    rep.count("runs_judged")
    rep.count(f"judged:{run['algo']}")
    rep.count("runs_judged_doe" if is_doe else "runs_judged_opt")
    rep.count(f"runs_{when}")
    if not db_on:
        rep.count("runs_database_off")
    if settings.get("normalize_design_space"):
        rep.count("runs_normalized")
    if mask.any():
        rep.count("runs_with_integer_variable_round_ints_" + ("on" if round_ints else "off"))
    if case["diff"] != "user" and not is_doe:
        rep.count(f"runs_diff_{case['diff']}")
    if any(c["probe"] for c in calls):
        rep.count("runs_with_probe_points")
    for name in sorted(set(term_names)):
        rep.count(f"stop:{name}")
    if is_doe and any(c["status"] == "raised" for c in calls):
        rep.count("doe_runs_with_raising_samples")
    if is_doe and settings.get("n_processes", 1) > 1:
        rep.count("doe_runs_parallel")
    if len(records) > 1:
        rep.count("nested_executions_judged", len(records) - 1)

    keys_after, names_after = db_snapshot(problem)
    n_before = len(keys_before)
    new_keys = keys_after[n_before:]
    empty_keys = [k for k, nm in zip(new_keys, names_after[n_before:]) if not nm]
    if empty_keys:
        # a parallel DOE pre-stores every sample with no output and removes the unused ones at the end; when a
        # termination criterion interrupts it they stay (outside the statement: they hold no evaluation)
        rep.observe("interrupted-parallel-doe-leaves-empty-database-entries", {"algo": run["algo"], "stop": term_names[:1]})
    witness = dict(case, failing_run=index)

    stale_listener = isinstance(exc, AttributeError) and "'NoneType' object has no attribute" in str(exc) and index > 0
    # ---- budget of every execution (clauses 1, 2, 5)
    for record in records:
        is_main = record is main
        budget = record.get("budget", 0)
        declared = run["N"] if (is_main and not is_doe) else budget
        if is_main and not is_doe and budget != run["N"] and record["returned"]:
            rep.observe("evaluation-counter-maximum-differs-from-max_iter", {"algo": run["algo"], "N": run["N"], "maximum": budget})
        allowed = declared if record["reset"] else max(0, declared - record["counter_before"])
        if is_doe and is_main and out["library"] is not None and np.ndim(getattr(out["library"], "samples", 0)) == 2:
            declared = len(out["library"].samples)
            allowed = declared if record["reset"] else max(0, declared - record["counter_before"])
        record["allowed"] = allowed
        # Clause 5.  Without counter reset the budget N is shared by the executions since the last reset: such an
        # execution may add at most N minus the entries created since that reset.  This is a verdict where the real code
        # honours it (optimisation libraries and sequential DOEs on the main problem); the harness counts the entries
        # itself.  A parallel DOE does not apply it (workers do not see the counter) and composite / LP algorithms have
        # their own accounting: there N - counter stays an observation and the verdict is "at most N new entries".
        shared = bool(is_main and epoch is not None and db_on and not record["reset"] and shared_budget_applies(run))
        if shared:
            allowed = counter_allowed = max(0, declared - epoch["entries"])
            rep.count("clause5_shared_budget_checked")
        elif allowed < declared:
            counter_allowed, allowed = allowed, declared
        else:
            counter_allowed = allowed
        level = "main" if is_main else "inner"
        family = record["lib"]
        if "db_after" not in record:
            continue
        new_entries = record["db_after"] - record["db_before"]
        own_calls = [c for c in nonprobe if c["exec"] == record["id"]]
        if db_on or not is_main:
            # clause 1: entries
            rep.count("clause1_entries_checked")
            if counter_allowed < new_entries <= allowed:
                rep.observe("execution-without-counter-reset-adds-more-than-N-minus-counter-entries",
                            {"algo": record["algo"], "parallel": settings.get("n_processes", 1) > 1,
                             "new_entries": new_entries, "N": declared, "counter_before": record["counter_before"]})
            if shared and new_entries - len(empty_keys) > allowed and not record.get("counter_decreased"):
                rep.violation(f"C03:entries-since-last-reset-exceed-budget:{family}",
                              "5: entries since the last counter reset <= N", witness,
                              observed={"new_entries": new_entries - len(empty_keys), "algo": record["algo"],
                                        "entries_since_last_reset_before": epoch["entries"],
                                        "counter_before": record["counter_before"]},
                              expected={"allowed": allowed, "N": declared})
            elif new_entries > allowed:
                rep.violation(excess_signature("entries", record, case, family, level, when), "1: new database entries <= N",
                              witness, observed={"new_entries": new_entries, "algo": record["algo"]},
                              expected={"allowed": allowed, "N": declared, "reset": record["reset"],
                                        "counter_before": record["counter_before"]})
            # counter conservation: after the execution the counter equals the entries created since the last reset
            if is_main and epoch is not None and db_on and shared_budget_applies(run) and record["returned"] \
                    and not out["aborted"]:
                since_reset = (0 if record["reset"] else epoch["entries"]) + new_entries - len(empty_keys)
                rep.count("clause5_counter_conservation_checked")
                if record.get("counter_after") != since_reset and not record.get("counter_decreased"):
                    rep.violation(f"C03:evaluation-counter-differs-from-entries-since-last-reset:{family}:"
                                  f"{term_names[0] if term_names else 'completed'}",
                                  "5: counter == entries since the last reset", witness,
                                  observed={"counter": record.get("counter_after"), "algo": record["algo"],
                                            "counter_before": record["counter_before"]},
                                  expected={"entries_since_last_reset": since_reset})
            rep.count("clause1_events_checked")
            if record["events"] != new_entries - (len(empty_keys) if is_main else 0) and not out["aborted"] \
                    and not stale_listener:
                rep.violation(f"C03:new-iteration-events-differ-from-new-entries:{family}:{level}", "1: events == entries",
                              witness, observed={"events": record["events"], "new_entries": new_entries},
                              expected="equal")
        # clause 2: distinct non-probe points not known before the run (points that returned NaN or raised create no entry,
        # so with a shared budget the bound is the remaining budget plus those points)
        if shared:
            allowed += len({bits(c["x"]) for c in own_calls if c["status"] != "ok"})
        before_c = {bits(canon(k, mask, round_ints)) for k in keys_before} if is_main else set()
        distinct = {bits(c["x"]) for c in own_calls} - before_c
        extra = 0
        if record["algo"] in LP_ALGOS and len(distinct) == allowed + 1:
            extra = 1
            rep.observe("lp-solver-evaluates-its-solution-outside-the-database-and-budget",
                        {"algo": record["algo"], "N": declared, "distinct_points": len(distinct)})
        rep.count("clause2_points_checked")
        if len(distinct) > allowed + extra:
            if is_main and not db_on:
                rep.violation(KNOWN_DB_OFF, "2: distinct evaluated points <= N", witness,
                              observed={"distinct_points": len(distinct), "aborted_by_harness": out["aborted"],
                                        "algo": record["algo"], "new_entries": new_entries},
                              expected={"allowed": allowed})
            else:
                rep.violation(excess_signature("points", record, case, family, level, when),
                              "2: distinct evaluated points <= N", witness,
                              observed={"distinct_points": len(distinct), "new_entries": new_entries, "algo": record["algo"]},
                              expected={"allowed": allowed})
        elif is_main and not db_on:
            rep.count("database_off_within_budget")

    if epoch is not None and main is not None and "db_after" in main:
        gained = main["db_after"] - main["db_before"] - len(empty_keys)
        epoch["entries"] = gained if main["reset"] else epoch["entries"] + gained
        if not main["reset"] and index > 0:
            rep.count("executions_without_reset_judged")
            if "MaxTimeReached" in term_names:
                rep.count("executions_without_reset_stopped_by_max_time")
            if {"FtolReached", "XtolReached"} & set(term_names):
                rep.count("executions_without_reset_stopped_by_tolerance")
            if "MaxIterReachedException" in term_names:
                rep.count("executions_without_reset_stopped_by_budget")
    # ---- clause 2b: at most one call of each original callable per database key (database on, single database)
    parallel_doe = is_doe and settings.get("n_processes", 1) > 1
    if db_on and run["algo"] not in LP_ALGOS and not (run["algo"] in COMPOSITE and run["algo"] != "MultiStart") \
            and not parallel_doe:
        after_c = [canon(k, mask, round_ints) for k in keys_after]
        after_bits = {bits(k) for k in after_c}
        key_multiplicity = {}
        for k in after_c:
            key_multiplicity[raw_bits(k)] = key_multiplicity.get(raw_bits(k), 0) + 1
        if any(v > 1 for v in key_multiplicity.values()):
            rep.observe("database-holds-a-complex-typed-and-a-real-typed-key-for-the-same-point",
                        {"algo": run["algo"], "diff": case["diff"]})
        # a sample at which some function raised may legitimately leave no trace (parallel DOE drops it entirely)
        raised_pts = [np.array(c["x"]) for c in calls if c["status"] == "raised"]
        per = {}
        for c in nonprobe:
            if c["status"] != "ok":
                continue
            per.setdefault((c["name"], c["kind"]), []).append(c["x"])
        for (name, kind), pts in per.items():
            rep.count("clause2b_callables_checked")
            if mask.any() and round_ints:
                # several keys can round to the same physical point: only the counts can be compared
                missing = sum(1 for nm in names_before if (name if kind == "f" else f"@{name}") not in nm)
                if len(pts) > len(new_keys) + missing:
                    rep.violation(f"C03:original-called-more-than-once-per-key:{lib}:{kind}", "2: once per database key",
                                  witness, observed={"callable": name, "calls": len(pts)},
                                  expected={"new_keys": len(new_keys), "old_keys_without_value": missing})
                continue
            seen = {}
            for p in pts:
                seen[raw_bits(p)] = seen.get(raw_bits(p), 0) + 1
                # the database distinguishes a complex-typed key from the real-typed key of the same point (complex
                # step): as many calls as there are such keys are legitimate
                if seen[raw_bits(p)] > max(1, key_multiplicity.get(raw_bits(p), 0)):
                    rep.violation(f"C03:original-called-more-than-once-per-key:{lib}:{kind}", "2: once per database key",
                                  witness, observed={"callable": name, "kind": kind, "point": p,
                                                     "calls": seen[raw_bits(p)]},
                                  expected={"keys_at_this_point": key_multiplicity.get(raw_bits(p), 0)})
                    break
                if bits(p) not in after_bits and find(p, after_c) < 0 and find(p, raised_pts) < 0:
                    rep.violation(f"C03:evaluated-point-not-recorded:{lib}:{kind}", "2: evaluated points are database keys",
                                  witness, observed={"callable": name, "kind": kind, "point": p},
                                  expected="a database key")
                    break

    # ---- clause 3: DOE order / exactly once
    if is_doe and out["library"] is not None and not out["aborted"]:
        if judge_doe(case, run, out, calls, keys_before, new_keys, term_names, db_on, mask, round_ints, witness, rep,
                     empty_keys):
            return False  # everything else in this run is a consequence of the same mechanism

    # ---- clause 4: a result, never an escaping termination criterion
    from gemseo.algos.stop_criteria import TerminationCriterion

    stop = term_names[0] if term_names else ("doe-completed" if is_doe else None)
    if out["aborted"]:
        rep.count("aborted_by_call_cap")
        return False
    if exc is not None:
        rep.count("clause4_checked")
        if isinstance(exc, TerminationCriterion):
            rep.violation(f"C03:termination-criterion-escapes:{type(exc).__name__}:{lib}", "4: no TerminationCriterion escapes",
                          witness, observed=f"{type(exc).__name__}: {exc}", expected="an OptimizationResult")
        elif stale_listener:
            # a listener registered by the library instance of a previous execution is still attached to the database
            rep.violation(f"C03:exception-instead-of-result:stale-listener-of-previous-execution:{lib}",
                          "4/5: a repeated execution returns a result", witness,
                          observed=f"{type(exc).__name__}: {str(exc)[:300]}", expected="an OptimizationResult")
        elif isinstance(exc, KeyError) and (not finite_objective_recorded(problem, keys_after, names_after) or (
                "array([]" in str(exc) and in_traceback(exc, "optimization_result.py"))):
            # optimum selection returns an empty design when no feasible point has a comparable objective value
            # (C04's defect "no-feasible-point-has-objective"): the selection rule is the subject of C04
            rep.observe("history-without-finite-objective-value-makes-result-construction-raise",
                        {"algo": run["algo"], "error": f"{type(exc).__name__}: {str(exc)[:100]}"})
        elif is_doe and samples_outside_bounds(out, pd):
            # the DOE algorithm itself generated samples outside the design space (C14's subject)
            rep.observe("doe-with-samples-outside-the-bounds-raises-at-the-end", {"algo": run["algo"], "error": str(exc)[:200]})
        elif (term_names or is_doe) and isinstance(exc, ValueError) and any(m in str(exc) for m in OUTSIDE_BOUNDS):
            # mechanism: points recorded in the database are outside the design space (normalisation applied twice
            # or not at all), so the result cannot be written back to the design space
            where = "doe" if is_doe else run["algo"]
            rep.violation(f"C03:exception-instead-of-result:recorded-points-outside-design-space:{where}:"
                          f"normalize_design_space={bool(settings.get('normalize_design_space', run['algo'] not in ('MultiStart', 'MNBI')))}",
                          "4: a result is returned", witness, observed=f"{type(exc).__name__}: {str(exc)[:300]}",
                          expected={"result after": term_names or "DOE completion"})
        elif term_names and in_traceback(exc, "pareto_front.py"):
            # the criterion was converted, but the multi-objective result cannot be built from the short history
            rep.violation("C03:exception-instead-of-result:pareto-front-of-an-early-stopped-multi-objective-run",
                          "4: a result is returned", witness, observed=f"{type(exc).__name__}: {str(exc)[:300]}",
                          expected={"result after": term_names})
        elif run["algo"] == "MNBI" and term_names:
            # a criterion of the main problem fired inside a sub-optimisation, which swallowed it
            rep.violation("C03:exception-instead-of-result:MNBI:main-criterion-fired-inside-a-sub-optimization",
                          "4: a result is returned", witness, observed=f"{type(exc).__name__}: {str(exc)[:300]}",
                          expected={"result after": term_names})
        elif isinstance(exc, TypeError) and "_get_result() missing" in str(exc):
            rep.violation(f"C03:exception-instead-of-result:early-stopping-result-signature-mismatch:{lib}",
                          "4: a result is returned", witness, observed=f"{type(exc).__name__}: {str(exc)[:300]}",
                          expected={"result after": term_names})
        elif type(exc).__name__ == "ForcedStop" and term_names:
            # a criterion raised in an NLopt callback was lost because a later callback succeeded
            rep.violation("C03:exception-instead-of-result:ForcedStop:Nlopt:termination-criterion-lost-in-nlopt",
                          "4: a result is returned", witness, observed=f"{type(exc).__name__}: {str(exc)[:300]}",
                          expected={"result after": term_names})
        elif term_names or is_doe:
            rep.violation(f"C03:exception-instead-of-result:{type(exc).__name__}:{lib}:{stop}", "4: a result is returned",
                          witness, observed=f"{type(exc).__name__}: {str(exc)[:300]}",
                          expected={"result after": term_names or "DOE completion"})
        else:
            rep.observe("exception-without-any-stop-cause", {"algo": run["algo"], "error": f"{type(exc).__name__}: {str(exc)[:200]}"})
        return False
    result = out["result"]
    if term_names or is_doe:
        rep.count("clause4_checked")
        rep.count("clause4_result_after:" + (stop or "none"))
        if result is None:
            rep.violation(f"C03:no-result:{lib}:{stop}", "4: a result is returned", witness, observed=None,
                          expected="an OptimizationResult")
            return False
    if result is not None and db_on and model.fam != "mo" and run["algo"] not in LP_ALGOS:
        x_opt = getattr(result, "x_opt", None)
        if x_opt is not None:
            rep.count("clause4_x_opt_checked")
            if find(np.real(np.asarray(x_opt, dtype=complex)).astype(float), keys_after) < 0:
                rep.violation(f"C03:x_opt-is-not-a-database-key:{lib}:{stop}", "4: x_opt is a database key", witness,
                              observed={"x_opt": x_opt}, expected={"n_keys": len(keys_after)})
        else:
            complete = [k for k, nm in zip(keys_after, names_after)
                        if "f" in nm and all(f"g{j}" in nm for j in range(len(pd.get("cstr", []))))]
            finite = [k for k in complete if np.all(np.isfinite(np.atleast_1d(problem.database.get_function_value("f", k))))]
            if finite and (term_names or is_doe):
                rep.violation(f"C03:result-ignores-recorded-history:{lib}:{stop}", "4: result built from the recorded history",
                              witness, observed={"x_opt": None}, expected={"complete_entries": len(finite)})
    return False


def in_traceback(exc, filename):
    tb = exc.__traceback__
    while tb is not None:
        if tb.tb_frame.f_code.co_filename.endswith(filename):
            return True
        tb = tb.tb_next
    return False


def finite_objective_recorded(problem, keys, names):
    for k, nm in zip(keys, names):
        if "f" in nm and np.all(np.isfinite(np.atleast_1d(np.real(problem.database.get_function_value("f", k))))):
            return True
    return False


def samples_outside_bounds(out, pd):
    samples = np.asarray(getattr(out["library"], "samples", np.zeros((0, 0))), dtype=float)
    if samples.ndim != 2 or not samples.size:
        return False
    lb, ub = np.array(pd["lb"]), np.array(pd["ub"])
    return bool(np.any(samples < lb - 1e-9) or np.any(samples > ub + 1e-9))


def judge_doe(case, run, out, calls, keys_before, new_keys, term_names, db_on, mask, round_ints, witness, rep,
              empty_keys=()):
    library = out["library"]
    all_keys = list(keys_before) + list(new_keys)
    samples = np.asarray(getattr(library, "samples", np.zeros((0, 0))), dtype=float)
    if samples.ndim != 2:
        return
    lib = type(library).__name__
    par = "parallel" if run["settings"].get("n_processes", 1) > 1 else "serial"
    pd = case["problem"]
    lb, ub = np.array(pd["lb"]), np.array(pd["ub"])
    normalized = bool(run["settings"].get("normalize_design_space"))
    if normalized and len(samples):
        # mechanism detector: the functions were evaluated at lb + s*(ub-lb), i.e. the physical samples were
        # un-normalised a second time
        pts = [np.array(c["x"]) for c in calls if c["name"] == "f" and c["kind"] == "f" and not c["probe"]]
        garbage = [lb + s * (ub - lb) for s in samples]
        fmask = ~mask
        if pts:
            # some evaluated point is lb + s*(ub-lb) for a sample s without being a sample itself
            twice = any(any(close(p[fmask], g[fmask]) for g in garbage)
                        and not any(close(p[fmask], s[fmask]) for s in samples) for p in pts)
            # ... or (when that point happens to coincide with another sample) a key was recorded with values although
            # the function was evaluated at lb + key*(ub-lb) and not at the key
            twice = twice or any(
                find(k, empty_keys) < 0 and not any(close(p[fmask], k[fmask]) for p in pts)
                and any(close(p[fmask], (lb + k * (ub - lb))[fmask]) for p in pts) for k in new_keys)
        else:  # nothing evaluated: a previous execution already recorded the same wrong points
            twice = bool(all_keys) and all(any(close(k[fmask], g[fmask]) for k in all_keys) for g in garbage) and \
                not all(any(close(k[fmask], s[fmask]) for k in all_keys) for s in samples)
        if twice:
            rep.count("clause3_order_checked")
            rep.violation("C03:doe-samples-unnormalized-twice:normalize_design_space=True",
                          "3: the generated samples are evaluated and recorded", witness,
                          observed={"evaluated_points": pts[:4], "database_keys": new_keys[:4]},
                          expected={"samples": samples[:4]})
            return True
    seen_bits, distinct = set(), []
    for s in samples:  # same identity as the database: bitwise
        if raw_bits(s) not in seen_bits:
            seen_bits.add(raw_bits(s))
            distinct.append(s)
    merged = []
    for s in distinct:
        if find(s, merged) < 0:
            merged.append(s)
    if len(merged) != len(distinct):
        rep.observe("doe-samples-differing-only-by-the-sign-of-zero-are-distinct-database-keys", {"algo": run["algo"]})
    duplicates = len(samples) - len(distinct)
    if duplicates:
        rep.count("doe_runs_with_duplicate_samples")
    raised = [np.array(c["x"]) for c in calls if c["status"] == "raised"]
    fresh = [s for s in distinct if not any(same_key(s, k) for k in keys_before)]
    if db_on:
        rep.count("clause3_order_checked")
        last = -1
        ok = True
        positions = []
        for k in new_keys:
            pos = next((i for i in range(last + 1, len(fresh)) if same_key(k, fresh[i])), -1)
            if pos < 0:
                pos = next((i for i in range(last + 1, len(fresh)) if close(k, fresh[i])), -1)
            positions.append(pos)
            if pos < 0:
                ok = False
                break
            last = pos
        if not ok:
            rep.violation(f"C03:doe-database-keys-not-in-generation-order:{lib}:{par}", "3: keys == distinct samples in order",
                          witness, observed={"keys": new_keys, "positions": positions}, expected={"distinct_samples": fresh})
            return
        limit = len(fresh) if not term_names else last + 1
        for pos, s in enumerate(fresh[:limit]):
            if pos in positions:
                continue
            if find(canon(s, mask, round_ints), raised) >= 0 or find(s, raised) >= 0:
                continue
            rep.violation(f"C03:doe-sample-not-recorded:{lib}:{par}", "3: every distinct sample is recorded", witness,
                          observed={"missing_sample": s, "position": pos}, expected="a database key")
            return
    # exactly once per function and distinct sample
    names = sorted({c["name"] for c in calls})
    evaluated = [k for k in new_keys] if db_on else (distinct if not term_names else [])
    if not db_on and duplicates:
        rep.observe("doe-duplicate-samples-re-evaluated-without-database", {"algo": run["algo"]})
        return
    for name in names:
        pts = [np.array(c["x"]) for c in calls
               if c["name"] == name and c["kind"] == "f" and not c["probe"] and c["status"] != "raised"]
        n_raised = [np.array(c["x"]) for c in calls if c["name"] == name and c["kind"] == "f" and c["status"] == "raised"]
        if any(find(p, n_raised[:i]) >= 0 for i, p in enumerate(n_raised)):
            # nothing can be recorded about a sample whose evaluation raised: its duplicate is evaluated again
            rep.observe("doe-duplicate-of-a-raising-sample-is-evaluated-again", {"algo": run["algo"]})
        rep.count("clause3_exactly_once_checked")
        counted, counted_bits = [], set()
        for p in pts:
            if raw_bits(p) in counted_bits:
                sig = f"C03:doe-sample-evaluated-more-than-once:{lib}:{par}"
                if par == "parallel" and duplicates and db_on:
                    # the duplicated rows are dispatched to different worker processes, each with its own database copy
                    sig = "C03:doe-duplicated-sample-evaluated-again:parallel"
                rep.violation(sig, "3: each distinct sample evaluated once",
                              witness, observed={"function": name, "point": p}, expected="one call")
                return
            counted_bits.add(raw_bits(p))
            counted.append(p)
        if name == "f":
            for k in evaluated:
                if find(canon(k, mask, round_ints), counted) < 0 and find(canon(k, mask, round_ints), n_raised) < 0 \
                        and find(k, empty_keys) < 0:
                    rep.violation(f"C03:doe-recorded-sample-never-evaluated:{lib}:{par}", "3: each distinct sample evaluated once",
                                  witness, observed={"function": name, "key": k}, expected="one call")
                    return


# =========================================================================== case generation
def algorithm_catalogue():
    from gemseo.algos.doe.factory import DOELibraryFactory
    from gemseo.algos.opt.factory import OptimizationLibraryFactory

    opt_factory, doe_factory = OptimizationLibraryFactory(), DOELibraryFactory()
    cat = {"opt": {}, "doe": {}}
    for name in opt_factory.algorithms:
        try:
            d = opt_factory.create(name).ALGORITHM_INFOS[name]
        except Exception:  # library not importable offline
            continue
        cat["opt"][name] = {
            "eq": d.handle_equality_constraints, "ineq": d.handle_inequality_constraints,
            "int": d.handle_integer_variables, "lin": d.for_linear_problems or name == "Scipy_MILP",
            "grad": d.require_gradient, "mo": name == "MNBI", "lib": type(opt_factory.create(name)).__name__,
        }
    for name in doe_factory.algorithms:
        try:
            lib = doe_factory.create(name)
            d = lib.ALGORITHM_INFOS[name]
        except Exception:
            continue
        cat["doe"][name] = {"fields": sorted(d.Settings.model_fields), "lib": type(lib).__name__}
    return cat


def gen_problem(rng, n, fam, cstr_kinds=(), n_int=0, bad=None, sleep_ms=0):
    nt = n + n_int
    lb = np.concatenate([np.round(rng.uniform(-2.0, -0.5, n), 2), -rng.integers(1, 4, n_int).astype(float)])
    ub = np.concatenate([lb[:n] + np.round(rng.uniform(1.5, 4.0, n), 2), rng.integers(1, 4, n_int).astype(float)])
    x0 = np.concatenate([np.round(lb[:n] + (ub[:n] - lb[:n]) * rng.uniform(0.15, 0.85, n), 3),
                         np.round(rng.uniform(lb[n:], ub[n:]))])
    pd = {"fam": fam, "n": n, "n_int": n_int, "lb": lb.tolist(), "ub": ub.tolist(), "x0": x0.tolist(),
          "sleep_ms": sleep_ms}

    def spd():
        m = rng.uniform(-1, 1, (nt, nt))
        return np.round(m @ m.T + nt * 0.5 * np.eye(nt), 3)

    if fam in ("quad", "mo"):
        pd["A"] = spd().tolist()
        pd["c"] = np.round(lb + (ub - lb) * rng.uniform(0.1, 0.9, nt), 3).tolist()
        if fam == "mo":
            pd["A2"] = spd().tolist()
            pd["c2"] = np.round(lb + (ub - lb) * rng.uniform(0.1, 0.9, nt), 3).tolist()
    elif fam == "lin":
        pd["c"] = np.round(rng.uniform(-2, 2, nt), 2).tolist()
    cstr = []
    for kind in cstr_kinds:
        if kind == "vec":
            a = np.round(rng.uniform(-1, 1, (2, nt)), 2)
            b = np.round(a @ x0 + rng.uniform(0.2, 1.0, 2), 3)
            cstr.append({"type": "ineq", "a": a.tolist(), "b": b.tolist()})
        else:
            a = np.round(rng.uniform(-1, 1, nt), 2)
            if not np.any(a):
                a[0] = 1.0
            if kind == "eq":
                b = float(np.round(a @ x0 + rng.uniform(-0.3, 0.3), 3))
            else:
                b = float(np.round(a @ x0 + rng.uniform(0.2, 1.0), 3))
            cstr.append({"type": kind, "a": a.tolist(), "b": b})
    pd["cstr"] = cstr
    if bad:
        a = np.round(rng.uniform(-1, 1, nt), 2)
        if not np.any(a):
            a[0] = 1.0
        margin = float(rng.uniform(0.05, 0.6)) * float(np.sum(np.abs(a) * (ub - lb))) * 0.5
        pd["bad"] = {"a": a.tolist(), "b": float(np.round(a @ x0 + margin, 3)), "mode": bad[0], "who": bad[1]}
    return pd


def composite_settings(rng, algo, N):
    if algo == "MultiStart":
        n_start = int(rng.integers(1, 4))
        return {"n_start": n_start, "opt_algo_name": str(rng.choice(["SLSQP", "L-BFGS-B", "NLOPT_COBYLA"])),
                "doe_algo_name": "LHS"}, max(N, n_start + 1)
    if algo == "MNBI":
        return {"sub_optim_algo": "SLSQP", "n_sub_optim": int(rng.integers(3, 6)),
                "sub_optim_max_iter": int(rng.integers(2, 12))}, N
    if algo == "Augmented_Lagrangian_order_0":
        return {"sub_algorithm_name": str(rng.choice(["NLOPT_COBYLA", "NELDER-MEAD", "L-BFGS-B"])),
                "sub_algorithm_settings": {"max_iter": int(rng.integers(2, 15))}}, N
    if algo == "Augmented_Lagrangian_order_1":
        return {"sub_algorithm_name": str(rng.choice(["SLSQP", "L-BFGS-B", "NLOPT_MMA"])),
                "sub_algorithm_settings": {"max_iter": int(rng.integers(2, 15))}}, N
    return {}, N


def gen_opt_case(rng, cat, algo, N, stop="budget", force=None):
    """One optimisation case for ``algo``; ``force`` overrides generated features."""
    force = force or {}
    info = cat["opt"][algo]
    n = int(rng.integers(MIN_DIM.get(algo, 1), 5))
    settings = {"max_iter": N}
    extra, N = composite_settings(rng, algo, N)
    settings.update(extra)
    settings["max_iter"] = N
    diff = "user"
    if info["grad"] or algo == "MultiStart":
        diff = str(rng.choice(["user", "user", "finite_differences", "centered_differences", "complex_step"]))
    diff = force.get("diff", diff)
    n_int = 0
    if not info["lin"] and rng.random() < 0.25:
        n_int = 1
    if algo == "Scipy_MILP":
        n_int = int(rng.integers(0, 2))
    n_int = force.get("n_int", n_int)
    if algo in ("MNBI",):
        n_int = 0
    kinds = []
    if info["ineq"] and rng.random() < 0.6:
        kinds.append("ineq" if rng.random() < 0.75 or info["lin"] else "vec")
    if info["eq"] and rng.random() < 0.3 and n + n_int >= 2:
        kinds.append("eq")
    if algo.startswith("Augmented_Lagrangian") and not kinds:
        kinds.append("ineq")
    kinds = force.get("cstr", kinds)
    fam = "lin" if info["lin"] else ("mo" if info["mo"] else str(rng.choice(["quad", "quad", "rosen"])))
    if fam == "rosen" and n + n_int < 2:
        fam = "quad"
    bad = None
    sleep_ms = 0
    if stop == "nan" and fam != "lin":
        bad = ("nan", "obj" if not kinds or rng.random() < 0.7 else "g0")
    if stop == "max_time":
        sleep_ms = 10
        settings["max_time"] = 0.035
    if stop == "ftol":
        settings.update({"ftol_abs": 1e12, "stop_crit_n_x": int(rng.integers(2, 4))})
    if stop == "xtol":
        settings.update({"xtol_abs": 1e12, "stop_crit_n_x": int(rng.integers(2, 4))})
    if stop == "kkt":
        settings.update({"kkt_tol_abs": 1e12})
    elif info["grad"] and algo not in COMPOSITE and rng.random() < 0.2:
        # KKT criterion armed with a tolerance that cannot be met: the budget must still stop the run
        settings.update({str(rng.choice(["kkt_tol_abs", "kkt_tol_rel"])): 1e-14})
    pd = gen_problem(rng, n, fam, kinds, n_int, bad, sleep_ms)
    if algo != "MNBI" or "normalize_design_space" in force:
        settings["normalize_design_space"] = bool(force.get("normalize_design_space", rng.random() < 0.5))
    settings["use_database"] = bool(force.get("use_database", rng.random() < 0.9))
    if n_int:
        settings["round_ints"] = bool(force.get("round_ints", rng.random() < 0.6))
    run = {"kind": "opt", "algo": algo, "N": N, "stop": stop, "settings": settings, "lib": info["lib"],
           "skip_int_check": bool(n_int and not info["int"])}
    return {"problem": pd, "diff": diff, "runs": [run]}


def doe_settings(rng, algo, fields, N, pd):
    nt = pd["n"] + pd.get("n_int", 0)
    lb, ub, x0 = np.array(pd["lb"]), np.array(pd["ub"]), np.array(pd["x0"])
    s = {}
    if algo == "CustomDOE":
        rows = lb + (ub - lb) * np.round(rng.uniform(0, 1, (N, nt)), 3)
        if pd.get("n_int"):
            rows[:, pd["n"]:] = np.round(rows[:, pd["n"]:])
        if N >= 3 and rng.random() < 0.6:  # duplicates, not adjacent
            rows[int(rng.integers(1, N))] = rows[0]
            if N >= 5:
                rows[N - 1] = rows[1]
        s["samples"] = rows.tolist()
    elif algo == "OATDOE":
        # OATDOE reads its initial point in the unit hypercube
        s["initial_point"] = np.round((x0 - lb) / (ub - lb), 3).tolist()
        s["step"] = 0.05
    elif algo in ("OT_FACTORIAL", "OT_COMPOSITE", "OT_AXIAL"):
        s["levels"] = [0.2, 0.5][: int(rng.integers(1, 3))]
        s["centers"] = [0.5] * nt
    elif algo in ("OT_FULLFACT", "PYDOE_FULLFACT"):
        if rng.random() < 0.5:
            s["levels"] = [int(v) for v in rng.integers(1, 4, nt)]
        else:
            s["n_samples"] = max(N, 2 ** nt if rng.random() < 0.7 else N)
    elif algo == "OT_SOBOL_INDICES":
        s["n_samples"] = max(N, 2 * (nt + 2))
    elif algo == "MorrisDOE":
        s["n_samples"] = max(N, nt + 1)
    elif algo == "DiagonalDOE":
        s["n_samples"] = max(N, 2)
    elif "n_samples" in fields:
        s["n_samples"] = N
    if "seed" in fields and rng.random() < 0.5:
        s["seed"] = int(rng.integers(0, 1000))
    return s


def gen_doe_case(rng, cat, algo, N, stop="budget", force=None):
    force = force or {}
    fields = cat["doe"][algo]["fields"]
    n = int(rng.integers(MIN_DIM.get(algo, 1), 4))
    n_int = int(force.get("n_int", 1 if rng.random() < 0.3 else 0))
    if algo in ("PYDOE_BBDESIGN", "PYDOE_CCDESIGN", "OT_SOBOL_INDICES", "MorrisDOE", "OATDOE") and "n_int" not in force:
        n_int = 0
    kinds = ["ineq"] if rng.random() < 0.4 else []
    bad = None
    sleep_ms = 0
    if stop == "raise":
        bad = ("raise", "obj" if not kinds or rng.random() < 0.6 else "g0")
    elif stop == "nan":
        bad = ("nan", "obj")
    fam = str(rng.choice(["quad", "rosen"])) if n + n_int >= 2 else "quad"
    settings = {}
    if stop == "max_time":
        sleep_ms = 10
        settings["max_time"] = 0.035
    pd = gen_problem(rng, n, fam, kinds, n_int, bad, sleep_ms)
    settings.update(doe_settings(rng, algo, fields, N, pd))
    settings["normalize_design_space"] = bool(force.get("normalize_design_space", rng.random() < 0.4))
    settings["use_database"] = bool(force.get("use_database", rng.random() < 0.9))
    if n_int:
        settings["round_ints"] = bool(force.get("round_ints", rng.random() < 0.6))
    n_proc = int(force.get("n_processes", 2 if rng.random() < 0.08 else 1))
    if n_proc > 1:
        settings["n_processes"] = n_proc
    diff = "user"
    if rng.random() < 0.25:
        settings["eval_jac"] = True
        diff = str(rng.choice(["user", "finite_differences"]))
    run = {"kind": "doe", "algo": algo, "N": N, "stop": stop, "settings": settings, "lib": cat["doe"][algo]["lib"]}
    return {"problem": pd, "diff": diff, "runs": [run]}


def add_second_run(rng, cat, case):
    """Repeat an execution on the same problem, with or without counter reset (clause 5)."""
    first = case["runs"][0]
    second = json.loads(json.dumps(first))
    reset = bool(rng.random() < 0.5)
    N2 = int(rng.choice(BUDGETS))
    if first["kind"] == "opt":
        if first["algo"] in COMPOSITE or first["algo"] in LP_ALGOS:
            return case
        second["N"] = N2
        second["settings"]["max_iter"] = N2
        for k in ("ftol_abs", "xtol_abs", "kkt_tol_abs", "stop_crit_n_x", "max_time"):
            second["settings"].pop(k, None)
        second["stop"] = "budget"
    else:
        pd = case["problem"]
        fields = cat["doe"][first["algo"]]["fields"]
        keep = {k: v for k, v in first["settings"].items()
                if k in ("normalize_design_space", "use_database", "round_ints", "n_processes", "eval_jac")}
        keep.update(doe_settings(rng, first["algo"], fields, N2, pd))
        second["settings"] = keep
        second["N"] = N2
        second["stop"] = "budget"
    second["settings"]["reset_iteration_counters"] = reset
    case["runs"].append(second)
    return case


def gen_sliced_case(rng, cat):
    """Time-sliced runs: 2-6 executions on one problem sharing one budget (no counter reset after the first one), a
    random subset of them stopped by a tiny time limit or by a loose tolerance."""
    n_exec = int(rng.integers(2, 7))
    if rng.random() < 0.7:
        names = [a for a in sorted(cat["opt"]) if a in INPROCESS_OPT and a not in COMPOSITE and a not in LP_ALGOS]
        algo = str(rng.choice(names))
        N = int(rng.choice([3, 5, 8, 13]))
        sleeping = rng.random() < 0.3
        case = gen_opt_case(rng, cat, algo, N, "max_time" if sleeping else "budget",
                            {"use_database": True, "n_int": 0})
        first = case["runs"][0]
        for k in [k for k in first["settings"] if k.startswith("kkt_tol")]:
            first["settings"].pop(k)
        base = {k: v for k, v in first["settings"].items() if k not in ("max_time",)}
        runs = []
        for i in range(n_exec):
            r = json.loads(json.dumps(first))
            r["settings"] = dict(base)
            how = str(rng.choice(["time", "time", "tolerance", "none"]))
            if how == "time":
                r["settings"]["max_time"] = 0.025 if sleeping and rng.random() < 0.5 else 1e-9
                r["stop"] = "max_time"
            elif how == "tolerance":
                r["settings"].update({str(rng.choice(["ftol_abs", "xtol_abs"])): 1e12, "stop_crit_n_x": int(rng.integers(2, 4))})
                r["stop"] = "tolerance"
            else:
                r["stop"] = "budget"
            if i > 0:
                r["settings"]["reset_iteration_counters"] = False
            elif rng.random() < 0.5:
                r["settings"]["reset_iteration_counters"] = True
            runs.append(r)
        # sometimes a new epoch in the middle: a reset, then slices again
        if n_exec >= 4 and rng.random() < 0.25:
            runs[int(rng.integers(2, n_exec - 1))]["settings"]["reset_iteration_counters"] = True
        case["runs"] = runs
    else:
        names = [a for a in sorted(cat["doe"]) if a in INPROCESS_DOE]
        algo = str(rng.choice(names))
        sleeping = rng.random() < 0.3
        case = gen_doe_case(rng, cat, algo, int(rng.choice([3, 5, 8, 13])), "max_time" if sleeping else
                            str(rng.choice(["budget", "budget", "raise"])), {"use_database": True, "n_processes": 1,
                                                                             "normalize_design_space": False})
        first = case["runs"][0]
        first["settings"].pop("max_time", None)
        keep = {k: v for k, v in first["settings"].items()
                if k in ("normalize_design_space", "use_database", "round_ints", "eval_jac")}
        fields = cat["doe"][algo]["fields"]
        runs = []
        for i in range(n_exec):
            r = json.loads(json.dumps(first))
            Ni = int(rng.choice([3, 5, 8, 13]))
            r["N"] = Ni
            r["settings"] = dict(keep)
            r["settings"].update(doe_settings(rng, algo, fields, Ni, case["problem"]))
            if rng.random() < 0.45:
                r["settings"]["max_time"] = 0.025 if sleeping and rng.random() < 0.5 else 1e-9
                r["stop"] = "max_time"
            if i > 0:
                r["settings"]["reset_iteration_counters"] = False
            runs.append(r)
        case["runs"] = runs
    case["sliced"] = True
    return case


STOPS_OPT = ["budget", "budget", "budget", "ftol", "xtol", "max_time", "nan", "kkt"]
STOPS_DOE = ["budget", "budget", "raise", "raise", "nan", "max_time"]


def gen_random_case(rng, cat):
    if rng.random() < 0.62:
        names = sorted(cat["opt"])
        algo = str(rng.choice(names))
        while algo not in INPROCESS_OPT and rng.random() > 0.05:
            # algorithms run in child processes are expensive (a hanging NLOPT_NEWUOA burns its whole timeout):
            # they are mostly exercised by their sweep
            algo = str(rng.choice(names))
        stop = str(rng.choice(STOPS_OPT))
        if stop == "kkt" and not cat["opt"][algo]["grad"]:
            stop = "budget"
        if algo in LP_ALGOS and stop in ("nan",):
            stop = "budget"
        N = int(rng.choice(BUDGETS))
        if stop in ("ftol", "xtol", "max_time", "kkt"):
            N = int(rng.choice([8, 13, 21, 40]))
        case = gen_opt_case(rng, cat, algo, N, stop)
    else:
        names = sorted(cat["doe"])
        algo = str(rng.choice(names))
        stop = str(rng.choice(STOPS_DOE))
        N = int(rng.choice(BUDGETS))
        if stop == "max_time":
            N = 21
        case = gen_doe_case(rng, cat, algo, N, stop)
    if rng.random() < 0.3 and case["runs"][0]["stop"] in ("budget", "raise", "nan"):
        case = add_second_run(rng, cat, case)
    return case


def sweep_cases(rng, cat, kind, algo, tier):
    """Systematic part: every budget on an unconstrained/constrained problem with the four main settings."""
    cases = []
    budgets = BUDGETS if tier == "thorough" else [1, 2, 5, 13]
    if kind == "opt" and algo not in INPROCESS_OPT and tier == "quick":
        budgets = [1, 2, 3]  # measured: NLOPT_NEWUOA returns at once for these, and can take 30 s for N in 4..7
    for N in budgets:
        for j in range(2 if tier == "quick" else 4):
            force = {"use_database": True, "normalize_design_space": bool(j % 2)}
            if kind == "opt":
                if j >= 1:
                    force["n_int"] = 0
                cases.append(gen_opt_case(rng, cat, algo, N, "budget", force))
            else:
                cases.append(gen_doe_case(rng, cat, algo, N, "budget", force))
    return cases


def directed_cases(cat):
    """Fixed corners named in DESIGN.md (run by shard 0 in every run)."""
    rng = np.random.default_rng(20260301)
    out = []
    rosen = {"fam": "rosen", "n": 2, "n_int": 0, "lb": [-2.0, -2.0], "ub": [2.0, 2.0], "x0": [-1.5, 1.2], "cstr": [],
             "sleep_ms": 0}

    def opt(algo, N, pd=rosen, diff="user", stop="budget", **settings):
        s = {"max_iter": N}
        s.update(settings)
        return {"problem": json.loads(json.dumps(pd)), "diff": diff,
                "runs": [{"kind": "opt", "algo": algo, "N": N, "stop": stop, "settings": s,
                          "lib": cat["opt"].get(algo, {}).get("lib", algo)}]}

    # the known finding of DESIGN.md section 4: nothing enforces the budget without the database
    for algo, N in (("SLSQP", 1), ("L-BFGS-B", 3), ("NLOPT_COBYLA", 2), ("NELDER-MEAD", 5)):
        if algo in cat["opt"]:
            c = opt(algo, N, use_database=False)
            c["directed"] = "database-off"
            out.append(c)
    # same algorithms, database on, every differentiation method, both normalisations
    for algo in ("SLSQP", "L-BFGS-B", "NLOPT_SLSQP", "NLOPT_MMA", "TNC"):
        if algo not in cat["opt"]:
            continue
        for diff in ("user", "finite_differences", "centered_differences", "complex_step"):
            for norm in (False, True):
                for N in (1, 2, 7):
                    out.append(opt(algo, N, diff=diff, normalize_design_space=norm))
    # known finding: MultiStart with normalize_design_space=True un-normalises the points of its sub-optimisations a
    # second time (fixed problem, fixed settings, default seed of the LHS starting points)
    if "MultiStart" in cat["opt"]:
        # bounds [1,3]^2, unconstrained minimum at (5, 4.6): a physical point x read as a normalised one is evaluated
        # and recorded as 1+2x, outside the space, where the objective is lower than anywhere inside
        shifted = {"fam": "quad", "n": 2, "n_int": 0, "lb": [1.0, 1.0], "ub": [3.0, 3.0], "x0": [2.0, 2.0],
                   "A": [[2.0, 0.0], [0.0, 2.0]], "c": [5.0, 4.6], "cstr": [], "sleep_ms": 0}
        for pd_, sub, N, n_start in ((rosen, "NLOPT_COBYLA", 20, 2), (shifted, "SLSQP", 8, 2),
                                     (shifted, "L-BFGS-B", 9, 3), (shifted, "NLOPT_COBYLA", 12, 2)):
            if sub in cat["opt"]:
                c = opt("MultiStart", N, pd=pd_, n_start=n_start, opt_algo_name=sub, doe_algo_name="LHS",
                        normalize_design_space=True, use_database=True)
                c["directed"] = "multistart-normalized"
                out.append(c)
    # known finding: the budget stops a two-objective MNBI run whose short history defeats
    # ParetoFront.from_optimization_problem (fixed one-variable problem with one inequality constraint)
    if "MNBI" in cat["opt"]:
        two = {"fam": "mo", "n": 1, "n_int": 0, "lb": [-1.63], "ub": [2.04], "x0": [0.107], "sleep_ms": 0,
               "A": [[0.815]], "c": [-0.48], "A2": [[1.165]], "c2": [1.208],
               "cstr": [{"type": "ineq", "a": [0.41], "b": 0.756}]}
        for N, n_sub in ((3, 5), (3, 3), (2, 4)):
            c = opt("MNBI", N, pd=two, sub_optim_algo="SLSQP", n_sub_optim=n_sub, sub_optim_max_iter=8, use_database=True)
            c["directed"] = "mnbi-pareto-front"
            out.append(c)
        # known finding: the budget of the main problem is met inside the first sub-optimisation (max_iter=1: the
        # initial point consumed it) and MNBI raises RuntimeError; same with a tolerance criterion
        free = dict(two, cstr=[])
        for pd_, N, extra in ((two, 1, {}), (free, 1, {}), (free, 30, {"xtol_abs": 1e12, "stop_crit_n_x": 2})):
            c = opt("MNBI", N, pd=pd_, sub_optim_algo="SLSQP", n_sub_optim=3, sub_optim_max_iter=5, use_database=True, **extra)
            c["directed"] = "mnbi-criterion-in-sub-optimization"
            out.append(c)
    # KKT criterion armed (never met) and augmented Lagrangian of order 1: both build LagrangeMultipliers mid-run
    for algo in ("SLSQP", "L-BFGS-B", "NLOPT_SLSQP"):
        if algo in cat["opt"]:
            for N in (3, 5):
                c = opt(algo, N, kkt_tol_abs=1e-14)
                c["directed"] = "kkt-armed"
                out.append(c)
            out.append(opt(algo, 30, stop="kkt", kkt_tol_abs=1e12))
    if "Augmented_Lagrangian_order_1" in cat["opt"]:
        con = dict(rosen, cstr=[{"type": "ineq", "a": [1.0, 1.0], "b": 1.0}])
        for N in (2, 3, 5):
            out.append(opt("Augmented_Lagrangian_order_1", N, pd=con, sub_algorithm_name="SLSQP",
                           sub_algorithm_settings={"max_iter": 10}))
    # Jacobian-first points / stop causes on a fixed problem
    for algo in ("SLSQP", "NLOPT_COBYLA", "NELDER-MEAD", "DIFFERENTIAL_EVOLUTION"):
        if algo not in cat["opt"]:
            continue
        out.append(opt(algo, 30, stop="ftol", ftol_abs=1e12, stop_crit_n_x=2))
        out.append(opt(algo, 30, stop="xtol", xtol_abs=1e12, stop_crit_n_x=3))
        out.append(opt(algo, 200, pd=dict(rosen, sleep_ms=10), stop="max_time", max_time=0.035))
        nan = dict(rosen, bad={"a": [1.0, 0.0], "b": -1.4, "mode": "nan", "who": "obj"})
        out.append(opt(algo, 30, pd=nan, stop="nan"))
        nan0 = dict(rosen, bad={"a": [1.0, 0.0], "b": -1.6, "mode": "nan", "who": "obj"})  # NaN at the initial point
        out.append(opt(algo, 30, pd=nan0, stop="nan"))
    # integer variable: round_ints x normalisation
    mixed = {"fam": "quad", "n": 1, "n_int": 1, "lb": [-2.0, -3.0], "ub": [2.0, 3.0], "x0": [0.5, 1.0],
             "A": [[2.0, 0.3], [0.3, 1.0]], "c": [0.2, -1.4], "cstr": [], "sleep_ms": 0}
    for algo in ("SLSQP", "NLOPT_COBYLA", "DIFFERENTIAL_EVOLUTION"):
        if algo not in cat["opt"]:
            continue
        for norm in (False, True):
            for ri in (False, True):
                c = opt(algo, 6, pd=mixed, normalize_design_space=norm, round_ints=ri)
                c["runs"][0]["skip_int_check"] = not cat["opt"][algo]["int"]
                out.append(c)
    # repeated executions with and without counter reset
    for algo in ("SLSQP", "NLOPT_COBYLA", "L-BFGS-B"):
        if algo not in cat["opt"]:
            continue
        for reset in (True, False):
            for n1, n2 in ((3, 5), (5, 3), (4, 4), (2, 13)):
                c = opt(algo, n1)
                second = json.loads(json.dumps(c["runs"][0]))
                second["N"] = n2
                second["settings"].update(max_iter=n2, reset_iteration_counters=reset)
                c["runs"].append(second)
                out.append(c)
    # time-sliced runs sharing one budget N: slices stopped by a tiny time limit, then slices without time limit
    for algo in ("SLSQP", "L-BFGS-B", "NLOPT_COBYLA", "NELDER-MEAD", "DIFFERENTIAL_EVOLUTION"):
        if algo not in cat["opt"]:
            continue
        for N, n_timed in ((4, 8), (6, 3), (5, 1)):
            c = opt(algo, N, max_time=1e-9, stop="max_time")
            for i in range(n_timed + 1):
                r = json.loads(json.dumps(c["runs"][0]))
                r["settings"]["reset_iteration_counters"] = False
                if i == n_timed:
                    r["settings"].pop("max_time")
                    r["stop"] = "budget"
                c["runs"].append(r)
            c["sliced"] = True
            out.append(c)
        # slices stopped by a loose tolerance, a reset in the middle, then the shared budget again
        c = opt(algo, 7, ftol_abs=1e12, stop_crit_n_x=2, stop="ftol")
        for i, extra in enumerate(({"xtol_abs": 1e12, "stop_crit_n_x": 2}, {"max_time": 1e-9}, {}, {"max_time": 1e-9}, {})):
            r = opt(algo, 7, **extra)["runs"][0]
            r["settings"]["reset_iteration_counters"] = i == 2
            c["runs"].append(r)
        c["sliced"] = True
        out.append(c)
        # sleeping objective, 25 ms slices
        c = opt(algo, 9, pd=dict(rosen, sleep_ms=10), max_time=0.025, stop="max_time")
        for i in range(4):
            r = json.loads(json.dumps(c["runs"][0]))
            r["settings"]["reset_iteration_counters"] = False
            c["runs"].append(r)
        c["sliced"] = True
        out.append(c)
    # DOE corners: duplicates in a custom DOE, raising samples, parallel, repeated DOE without reset
    quad = {"fam": "quad", "n": 2, "n_int": 0, "lb": [-1.0, 0.0], "ub": [1.0, 2.0], "x0": [0.0, 1.0],
            "A": [[2.0, 0.5], [0.5, 1.0]], "c": [0.3, 0.8], "sleep_ms": 0,
            "cstr": [{"type": "ineq", "a": [1.0, 1.0], "b": 1.5}]}
    rows = [[-0.5, 0.5], [0.5, 1.5], [-0.5, 0.5], [0.9, 0.1], [0.5, 1.5], [0.0, 1.0]]

    def doe(algo, N, pd=quad, stop="budget", **settings):
        return {"problem": json.loads(json.dumps(pd)), "diff": "user",
                "runs": [{"kind": "doe", "algo": algo, "N": N, "stop": stop, "settings": settings,
                          "lib": cat["doe"].get(algo, {}).get("lib", algo)}]}

    if "CustomDOE" in cat["doe"]:
        # known findings: normalize_design_space=True (samples un-normalised a second time), and one row repeated six
        # times with a 30 ms evaluation on two workers (each worker evaluates it with its own copy of the database)
        for n_proc in (1, 2):
            extra = {"n_processes": n_proc} if n_proc > 1 else {}
            c = doe("CustomDOE", 6, samples=rows, normalize_design_space=True, **extra)
            c["directed"] = "doe-normalized"
            out.append(c)
        c = doe("CustomDOE", 7, pd=dict(quad, sleep_ms=30, cstr=[]), samples=[[0.25, 0.75]] * 6 + [[0.5, 1.0]], n_processes=2)
        c["directed"] = "doe-parallel-duplicates"
        out.append(c)
        for n_proc in (1, 2):
            extra = {"n_processes": n_proc} if n_proc > 1 else {}
            out.append(doe("CustomDOE", 6, samples=rows, **extra))
            for who in ("obj", "g0"):
                bad = dict(quad, bad={"a": [1.0, 0.0], "b": 0.7, "mode": "raise", "who": who})
                out.append(doe("CustomDOE", 6, pd=bad, stop="raise", samples=rows, **extra))
            allbad = dict(quad, bad={"a": [1.0, 0.0], "b": -5.0, "mode": "raise", "who": "obj"})
            out.append(doe("CustomDOE", 6, pd=allbad, stop="raise", samples=rows, **extra))
        out.append(doe("CustomDOE", 6, pd=dict(quad, sleep_ms=10), stop="max_time", samples=rows, max_time=0.025))
        for reset in (True, False):
            c = doe("CustomDOE", 6, samples=rows)
            second = json.loads(json.dumps(c["runs"][0]))
            second["settings"]["samples"] = [[0.1, 0.2], [-0.5, 0.5], [0.3, 0.4], [0.6, 0.7]]
            second["settings"]["reset_iteration_counters"] = reset
            second["N"] = 4
            c["runs"].append(second)
            out.append(c)
    # time-sliced sequential DOEs: each slice is stopped by the time limit after its first new sample
    if "CustomDOE" in cat["doe"]:
        grid = [[round(-0.9 + 0.2 * i, 2), round(0.1 + 0.2 * i, 2)] for i in range(9)]
        c = doe("CustomDOE", 9, samples=grid, max_time=1e-9, stop="max_time")
        for i in range(4):
            r = json.loads(json.dumps(c["runs"][0]))
            r["settings"]["reset_iteration_counters"] = False
            if i == 3:
                r["settings"].pop("max_time")
            c["runs"].append(r)
        c["sliced"] = True
        out.append(c)
    # completion order reversed by skewed durations: the database must still follow the generation order
    if "DiagonalDOE" in cat["doe"]:
        for n_proc in (2, 3):
            out.append(doe("DiagonalDOE", 6, pd=dict(quad, skew_ms=120, cstr=[]), n_samples=6, n_processes=n_proc))
    for algo in ("LHS", "OT_LHS", "PYDOE_FULLFACT", "OT_FULLFACT", "DiagonalDOE"):
        if algo in cat["doe"]:
            for n_proc in (1, 2):
                extra = {"n_processes": n_proc} if n_proc > 1 else {}
                out.append(doe(algo, 9, n_samples=9, **extra))
            # narrow integer range => duplicated samples after rounding
            narrow = {"fam": "quad", "n": 0, "n_int": 2, "lb": [0.0, 0.0], "ub": [1.0, 2.0], "x0": [0.0, 1.0],
                      "A": [[2.0, 0.5], [0.5, 1.0]], "c": [0.3, 0.8], "sleep_ms": 0, "cstr": []}
            out.append(doe(algo, 12, pd=narrow, n_samples=12))
    return out


# =========================================================================== isolated children
class ChildPool:
    """Cases of slow / unclassified algorithms run in child interpreters with a timeout."""

    def __init__(self, scratch, timeout, max_parallel=3):
        self.scratch, self.timeout, self.max_parallel = scratch, timeout, max_parallel
        self.pending, self.running, self.done = [], [], []
        self.n = 0

    def submit(self, case):
        self.pending.append(case)

    def _start(self):
        from vlib import bootstrap

        while self.pending and len(self.running) < self.max_parallel:
            case = self.pending.pop(0)
            self.n += 1
            cdir = Path(self.scratch) / f"child{self.n}"
            cdir.mkdir(parents=True, exist_ok=True)
            (cdir / "case.json").write_text(json.dumps(case))
            proc = subprocess.Popen(
                [bootstrap.PY, "-m", "checks.c03_budget", "--child", str(cdir / "case.json"), str(cdir / "out.json")],
                env=dict(bootstrap.child_env(), TMPDIR=str(cdir)), cwd=str(cdir), stdout=subprocess.DEVNULL,
                stderr=subprocess.DEVNULL)
            self.running.append((proc, time.monotonic(), case, cdir))

    def poll(self, rep, block=False):
        self._start()
        while self.running:
            still = []
            for proc, t0, case, cdir in self.running:
                rc = proc.poll()
                elapsed = time.monotonic() - t0
                if rc is None and elapsed > self.timeout:
                    proc.kill()
                    proc.wait()
                    rep.count("watchdog_fired_child")
                    rep.count(f"watchdog:{case['runs'][0]['algo']}")
                    rep.observe("watchdog-fired", {"algo": case["runs"][0]["algo"], "N": case["runs"][0]["N"],
                                                   "dimension": case["problem"]["n"]})
                elif rc is None:
                    still.append((proc, t0, case, cdir))
                else:
                    self._merge(rep, cdir, case)
            self.running = still
            self._start()
            if not block or not self.running:
                break
            time.sleep(0.05)

    def _merge(self, rep, cdir, case):
        out = cdir / "out.json"
        if not out.exists():
            rep.count("child_died")
            rep.observe("child-process-died", {"algo": case["runs"][0]["algo"]})
            return
        d = json.loads(out.read_text())
        rep.count("cases_run_in_child_process")
        rep.evaluations += d["evaluations"]
        rep.sigs.update(d["sigs"])
        for k, v in d["counters"].items():
            rep.count(k, v)
        for v in d["violations"]:
            rep.violation(v["signature"], v["clause"], v["case"], v["observed"], v["expected"], v["message"])
        for k, v in d["observations"].items():
            for e in v["examples"] or [None]:
                rep.observe(k, e)
        for r in d["inconclusive"]:
            rep.observe("child-harness-error", r[-400:])
            rep.count("child_harness_error")


def _child_main(argv):
    from vlib import bootstrap

    bootstrap.ensure()
    case = json.loads(Path(argv[0]).read_text())
    rep = Reporter(PID, {"scratch": str(Path(argv[1]).parent)})
    try:
        run_case(case, rep, tag="child")
    except BaseException:
        import traceback

        rep.inconclusive("child: " + traceback.format_exc()[-1200:])
    Path(argv[1]).write_text(json.dumps(rep.dump()))
    return 0


# =========================================================================== entry points
def needs_child(case):
    for r in case["runs"]:
        if r["algo"] not in (INPROCESS_DOE if r["kind"] == "doe" else INPROCESS_OPT):
            return True
        s = r["settings"]
        for key in ("opt_algo_name", "sub_optim_algo", "sub_algorithm_name"):
            if key in s and s[key] not in INPROCESS_OPT:
                return True
    return False


def run_shard(spec, rep):
    rng = np.random.default_rng(spec["seed"])
    tier = spec.get("tier", "quick")
    shard, n_shards = spec.get("shard", 0), spec.get("n_shards", N_SHARDS)
    Monitors.install()
    cat = algorithm_catalogue()
    pool = ChildPool(spec["scratch"], CHILD_TIMEOUT_S[tier], max_parallel=3 if tier == "quick" else 4)
    cases = []
    if shard == 0:
        for c in directed_cases(cat):
            cases.append(("directed", c))
        rep.count("opt_algorithms_in_factory", len(cat["opt"]))
        rep.count("doe_algorithms_in_factory", len(cat["doe"]))
    everything = [("opt", a) for a in sorted(cat["opt"])] + [("doe", a) for a in sorted(cat["doe"])]
    home = [(kind, algo) for i, (kind, algo) in enumerate(everything) if i % n_shards == shard]
    for kind, algo in home:
        for c in sweep_cases(rng, cat, kind, algo, tier):
            cases.append(("sweep", c))
    for _ in range(spec["n_random"]):
        cases.append(("random", gen_random_case(rng, cat)))
    sliced_rng = np.random.default_rng(subseed(spec["seed"], "sliced"))
    for _ in range(spec.get("n_sliced", 0)):
        cases.append(("sliced", gen_sliced_case(sliced_rng, cat)))
    n_sample = 0
    for tag, case in cases:
        if rep.time_left() < 0:
            rep.count("stopped_on_time_budget")
            break
        if tag == "directed":
            rep.count("directed_cases")
        if needs_child(case):
            pool.submit(case)
            pool.poll(rep)
            continue
        before = rep.counters.get("runs_judged", 0)
        run_case(case, rep, spec["scratch"], tag)
        if tag == "random" and n_sample < 3 and rep.counters.get("runs_judged", 0) > before:
            n_sample += 1
            rep.sample({"case": case, "note": "random case: executed on the real drivers and judged against clauses 1-5"})
        pool.poll(rep)
    pool.poll(rep, block=True)
    # every algorithm has a home shard that sweeps it: the sum over the shards counts the algorithms judged
    for kind, algo in home:
        if rep.counters.get(f"judged:{algo}", 0):
            rep.count(f"{kind}_algorithms_swept")
        else:
            rep.observe("algorithm-never-judged-in-its-home-shard", {"kind": kind, "algo": algo})


def coverage_extra(tier, counters):
    return {
        "algorithms_judged": {k[7:]: v for k, v in sorted(counters.items()) if k.startswith("judged:")},
        "stop_causes_seen": {k[5:]: v for k, v in sorted(counters.items()) if k.startswith("stop:")},
        "watchdog_firings": {k[9:]: v for k, v in sorted(counters.items()) if k.startswith("watchdog:")},
    }


def replay(case, rep):
    case = {k: v for k, v in case.items() if k != "failing_run"}
    if needs_child(case):
        pool = ChildPool(rep.spec["scratch"], CHILD_TIMEOUT_S["thorough"])
        pool.submit(case)
        pool.poll(rep, block=True)
    else:
        run_case(case, rep, rep.spec["scratch"], "replay")


if __name__ == "__main__":
    if len(sys.argv) >= 4 and sys.argv[1] == "--child":
        sys.exit(_child_main(sys.argv[2:]))
