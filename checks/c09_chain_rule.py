"""C09 — composite processes differentiate by the exact chain rule.

Monitors: (M1) harness leaves with exact partials that compute only the blocks they are asked for and
log every request; (M4) independent forward accumulation along the executed dataflow
(``vlib/ref/c09_forward_ad.py``); finite differences of the *executed* process as an arbiter whenever the
reference and gemseo disagree (so a wrong reference can never produce a VIOLATION); a static-single-assignment
twin of the composition to attribute a violation to name re-use; (M8) anchors.  See DESIGN.md section 3, C09.
"""

from __future__ import annotations

import contextlib
import copy
import io
import json
import logging
import os
import traceback
import warnings

import numpy as np

from vlib.gen import c09_compositions as G
from vlib.harness import subseed
from vlib.ref import c09_forward_ad as R

PID = "C09"
LEVEL = "exploration"
RULE = (
    "seeded generator over acyclic compositions of 2-7 harness disciplines (tree of MDOChain / MDOParallelChain with "
    "threads / MDOAdditiveChain / MDAChain nodes, depth <= 3; chains with diamonds, fan-in/out, pass-through inputs, "
    "overwritten and in-place-updated variables, unused outputs, isolated disciplines, structural zero partials; leaf "
    "Jacobians dense / csr / JacobianOperator / mixed; variable sizes 1-4) x 1-2 input points x a history of 1-5 "
    "successive linearization requests on one instance (growing, shrinking from compute_all_jacobians, disjoint, random); "
    "a case is distinct by the tree topology with leaf arities/formats and the request pattern (numbers excluded) and "
    "non-trivial when at least one requested block has a non-zero reference"
)
ASSUMPTIONS = [
    "the function a process computes is the one given by vlib/ref/c09_forward_ad.py; every case first checks that the "
    "executed outputs equal the reference values, and every disagreement on a Jacobian block is arbitrated by centred "
    "finite differences of the executed process: a reference contradicted by them makes the run inconclusive, never violated",
    "blocks are compared within 1e-10*(1+S), S being the same accumulation done with absolute values of the partials",
    "all process inputs are passed explicitly (no defaults); MDAChain is only used on acyclic single-writer systems",
    "symbolic sub-workload: polynomial leaves on object arrays of sympy symbols, caches disabled, judged by sympy.diff "
    "of the executed output expressions",
]
ANCHORS = [
    "gemseo.core.chains.chain:MDOChain.reverse_chain_rule",
    "gemseo.core.chains.chain:MDOChain._compute_jacobian",
    "gemseo.core.chains.chain:MDOChain._compute_diff_in_outs",
    "gemseo.core.derivatives.chain_rule:traverse_add_diff_io",
    "gemseo.core.derivatives.chain_rule:_merge_diff_ios",
    "gemseo.core.chains.parallel_chain:MDOParallelChain._compute_jacobian",
    "gemseo.core.chains.additive_chain:MDOAdditiveChain._compute_jacobian",
    "gemseo.core.discipline.discipline:Discipline._init_jacobian",
    "gemseo.core.discipline.discipline:Discipline.linearize",
    "gemseo.mda.mda_chain:MDAChain._compute_jacobian",
]
MIN_COUNTERS = {
    "quick": {"linearizations_judged": 650, "successive_requests_judged": 360, "blocks_checked": 4000,
              "zero_blocks_checked": 1400, "executed_values_checked": 3200, "unrequested_blocks_checked": 130,
              "cases_chain": 190, "cases_par": 58, "cases_add": 50, "cases_mdachain": 75, "cases_nested": 200,
              "cases_returning_sparse_blocks": 200, "cases_returning_op_blocks": 125, "cases_with_overwritten": 16,
              "symbolic_cases_judged": 24, "symbolic_blocks_checked": 130, "directed_cases": 24,
              "cases_overwrite_stratum": 55, "cases_requesting_only_inputs_the_overwriting_discipline_ignores": 35,
              "cases_requesting_only_inputs_of_the_overwriting_discipline": 20,
              "cases_pruned_overwriter_with_live_earlier_producer_and_later_reader": 8,
              "requests_pruning_the_last_producer_of_an_overwritten_variable": 45,
              "later_requests_pruning_the_last_producer_of_an_overwritten_variable": 18,
              "cases_interleaving_points": 200, "cases_root_cache_memory_full": 200, "cases_root_cache_hdf5": 100,
              "cases_root_cache_none": 150, "executions_without_linearization": 300,
              "linearizations_at_a_point_left_and_revisited": 550,
              "linearizations_whose_execution_is_served_by_a_multi_entry_root_cache": 350},
    "thorough": {"linearizations_judged": 11000, "successive_requests_judged": 6000, "blocks_checked": 60000,
                 "zero_blocks_checked": 22000, "executed_values_checked": 50000, "unrequested_blocks_checked": 2200,
                 "cases_chain": 3200, "cases_par": 1000, "cases_add": 800, "cases_mdachain": 1200, "cases_nested": 3300,
                 "cases_returning_sparse_blocks": 3400, "cases_returning_op_blocks": 2100,
                 "cases_with_overwritten": 200, "symbolic_cases_judged": 220, "symbolic_blocks_checked": 1400,
                 "directed_cases": 24, "cases_overwrite_stratum": 900,
                 "cases_requesting_only_inputs_the_overwriting_discipline_ignores": 500,
                 "cases_requesting_only_inputs_of_the_overwriting_discipline": 300,
                 "cases_pruned_overwriter_with_live_earlier_producer_and_later_reader": 120,
                 "requests_pruning_the_last_producer_of_an_overwritten_variable": 650,
                 "later_requests_pruning_the_last_producer_of_an_overwritten_variable": 280,
                 "cases_interleaving_points": 4000, "cases_root_cache_memory_full": 4000, "cases_root_cache_hdf5": 2000,
                 "cases_root_cache_none": 3000, "executions_without_linearization": 6000,
                 "linearizations_at_a_point_left_and_revisited": 11000,
                 "linearizations_whose_execution_is_served_by_a_multi_entry_root_cache": 7000},
}
SHARD_TIMEOUT = {"quick": 500, "thorough": 3000}

RTOL = 1e-10
CLS = {"chain": "MDOChain", "par": "MDOParallelChain", "add": "MDOAdditiveChain", "mdachain": "MDAChain"}
KNOWN_OVERWRITE = "C09:MDOChain:overwritten-variable"
WRONG_VALUE = ("wrong-block", "nonzero-independent-block", "unrequested-wrong-block",
               "unrequested-nonzero-independent-block")


class _Swallowed(logging.Handler):
    """Collects the exceptions that gemseo's parallel workers catch and only log (M3 event log)."""

    def __init__(self):
        super().__init__(level=logging.ERROR)
        self.events = []

    def emit(self, record):
        if isinstance(record.msg, BaseException):
            self.events.append(f"{type(record.msg).__name__}@{_where(record.msg)}")


_SWALLOWED = _Swallowed()


def _quiet():
    warnings.filterwarnings("ignore")
    logging.disable(logging.NOTSET)  # the shard bootstrap disables logging; the swallowed-exception monitor needs it
    root = logging.getLogger("gemseo")
    if not getattr(root, "_c09_quiet", False):
        root._c09_quiet = True
        root.setLevel(logging.ERROR)
        root.propagate = False
        root.addHandler(logging.NullHandler())
        logging.getLogger("gemseo.core.parallel_execution.callable_parallel_execution").addHandler(_SWALLOWED)


def shards(tier, seed):
    n = 16
    per = {"quick": 150, "thorough": 6000}[tier]
    sym = {"quick": 8, "thorough": 80}[tier]
    return [{"seed": subseed(seed, PID, i), "n_cases": per, "n_symbolic": sym,
             "budget_s": {"quick": 350, "thorough": 2400}[tier]} for i in range(n)]


# --------------------------------------------------------------------------- helpers
def dense(block):
    from scipy.sparse.linalg import LinearOperator

    if isinstance(block, LinearOperator):
        return np.asarray(block.dot(np.eye(block.shape[1])), dtype=float)
    if hasattr(block, "toarray"):
        return np.asarray(block.toarray(), dtype=float)
    return np.asarray(block)


def block_kind(block):
    from scipy.sparse.linalg import LinearOperator

    if isinstance(block, LinearOperator):
        return "op"
    if hasattr(block, "toarray"):
        return "sparse"
    return "dense"


def as_point(pt):
    return {k: np.array(v, dtype=float) for k, v in pt.items()}


def finite_differences(spec, pt, ins, outs, h=1e-6):
    """Centred differences of the executed (fresh) process: an oracle that does not use the reference."""
    proc = G.build(spec["root"])
    base = as_point(pt)
    fd = {o: {} for o in outs}
    for i in ins:
        cols = {o: [] for o in outs}
        for j in range(spec["sizes"][i]):
            vals = []
            for sgn in (1.0, -1.0):
                x = {k: v.copy() for k, v in base.items()}
                x[i][j] += sgn * h
                out = proc.execute(x)
                vals.append({o: np.array(out[o], dtype=float) for o in outs})
            for o in outs:
                cols[o].append((vals[0][o] - vals[1][o]) / (2 * h))
        for o in outs:
            fd[o][i] = np.array(cols[o]).T.reshape(spec["sizes"][o], spec["sizes"][i])
    return fd


def _where(exc):
    """Innermost gemseo frame of an exception: ``module.function`` (a mechanism, not a value)."""
    where = "?"
    for fr in traceback.extract_tb(exc.__traceback__):
        fn = fr.filename.replace("\\", "/")
        if "/gemseo/" in fn:
            where = fn.rsplit("/", 1)[1].removesuffix(".py") + "." + fr.name
    return where


SCRATCH = {"dir": None, "n": 0}


def _set_root_cache(proc, policy):
    """Cache policy of the root process: default SimpleCache, multi-entry (memory / HDF5 file in the scratch) or none."""
    if policy == "simple":
        return
    if policy == "none":
        proc.set_cache(proc.CacheType.NONE)
    elif policy == "memory_full":
        proc.set_cache(proc.CacheType.MEMORY_FULL)
    elif policy == "hdf5":
        import tempfile

        if SCRATCH["dir"] is None:
            SCRATCH["dir"] = tempfile.mkdtemp(prefix="c09_cache_")
        SCRATCH["n"] += 1
        proc.set_cache(proc.CacheType.HDF5, hdf_file_path=f"{SCRATCH['dir']}/c09_{os.getpid()}_{SCRATCH['n']}.h5",
                       hdf_node_path="root")
    else:  # pragma: no cover
        raise ValueError(policy)


class Finding:
    """One oracle failure before classification."""

    def __init__(self, clause, what, request_index, out=None, inp=None, observed=None, expected=None, exc=None):
        self.clause, self.what, self.k = clause, what, request_index
        self.wrong_point = []
        self.swallowed = []
        self.out, self.inp, self.observed, self.expected, self.exc = out, inp, observed, expected, exc


# --------------------------------------------------------------------------- the oracle
def judge(case, counters=None):
    """Run the history of requests of ``case`` on one fresh process; return (findings, info).

    ``findings``: list of Finding (empty = every oracle evaluation passed); ``info``: counters and notes.
    """
    _quiet()
    spec = case["spec"]
    sizes = spec["sizes"]
    cnt = counters if counters is not None else {}

    def count(name, n=1):
        cnt[name] = cnt.get(name, 0) + n

    findings = []
    info = {"harness": [], "nontrivial": False, "block_kinds": set()}
    ref_ins, ref_outs = R.process_io(spec["root"])
    root_cls = CLS[spec["root"]["t"]]
    try:
        proc = G.build(spec["root"])
    except Exception as e:  # a valid acyclic composition must be constructible
        findings.append(Finding("the process is built", "exception:build", 0, exc=f"{type(e).__name__}: {e}"))
        return findings, info
    cache = case.get("cache", "simple")
    try:
        _set_root_cache(proc, cache)
    except Exception as e:
        info["harness"].append({"cache-setup": f"{cache}: {type(e).__name__}: {e}"})
        return findings, info
    visited = []  # points at which the root process has been executed or linearized, in order
    got_ins, got_outs = list(proc.io.input_grammar), list(proc.io.output_grammar)
    if set(got_ins) != set(ref_ins) or not set(ref_outs) <= set(got_outs) or \
            set(got_outs) - set(ref_outs) - {G.RESIDUAL_NORM}:
        info["harness"].append({"io-mismatch": {"gemseo": [got_ins, got_outs], "reference": [ref_ins, ref_outs]}})
        return findings, info
    eff_in, eff_out = set(), set()
    refs = {}
    leaf_objs = [d for d in G.all_disciplines(proc) if hasattr(d, "wrong_point")]
    seen_wrong_point = set()
    seen_swallowed = set()
    if set(ref_ins) & set(ref_outs):
        x0 = as_point(case["points"][0])
        vals0 = R.reference(spec, x0)[2]
        try:
            out0 = G.build(spec["root"]).execute({n: v.copy() for n, v in x0.items()})
            bad = [o for o in ref_outs if not np.allclose(np.asarray(out0[o], dtype=float), vals0[o], rtol=1e-12, atol=1e-12)]
        except Exception as e:
            bad = [f"{type(e).__name__}: {e}"]
        if bad:
            info["harness"].append({"value-mismatch": {"outputs": bad, "request": "execute"}})
            return findings, info
    for k, req in enumerate(case["requests"]):
        pt = case["points"][req["point"]]
        x = as_point(pt)
        if req["point"] not in refs:
            trace = {}
            refs[req["point"]] = R.reference(spec, x, trace) + (trace,)
        _, _, values, jref, scale, trace = refs[req["point"]]
        G.EXPECTED_LEAF_INPUTS.clear()
        G.EXPECTED_LEAF_INPUTS.update(trace)
        n_found = len(findings)
        revisit = req["point"] in visited and visited[-1] != req["point"]
        visited.append(req["point"])
        if req.get("op") == "execute":
            # the process is only evaluated at this point (no linearization): later linearizations at another point
            # find the sub-disciplines in the state of this one
            try:
                with contextlib.redirect_stderr(io.StringIO()):
                    out = proc.execute({n: v.copy() for n, v in x.items()})
                bad = [o for o in ref_outs if o not in ref_ins and not np.allclose(
                    np.asarray(out[o], dtype=float), values[o], rtol=1e-12, atol=1e-12)]
            except Exception as e:
                bad = [f"{type(e).__name__}: {e}"]
            finally:
                G.EXPECTED_LEAF_INPUTS.clear()
            if bad:
                info["harness"].append({"value-mismatch": {"outputs": bad, "request": k}})
                return findings, info
            count("executions_without_linearization")
            continue
        if revisit:
            count("linearizations_at_a_point_left_and_revisited")
            if cache in ("memory_full", "hdf5"):
                count("linearizations_whose_execution_is_served_by_a_multi_entry_root_cache")
        try:
            if req["ins"]:
                proc.add_differentiated_inputs(list(req["ins"]))
                eff_in |= set(req["ins"])
            if req["outs"]:
                proc.add_differentiated_outputs(list(req["outs"]))
                eff_out |= set(req["outs"])
            if req["all"]:
                want_in, want_out = list(ref_ins), list(ref_outs)
            else:
                want_in, want_out = sorted(eff_in), sorted(eff_out)
            if not want_in or not want_out:
                count("requests_with_nothing_to_differentiate")
                continue
            del _SWALLOWED.events[:]
            with contextlib.redirect_stderr(io.StringIO()):  # workers print the tracebacks they swallow
                jac = proc.linearize({n: v.copy() for n, v in x.items()}, compute_all_jacobians=bool(req["all"]))
        except Exception as e:
            f = Finding("linearize returns the Jacobian", f"exception:{type(e).__name__}@{_where(e)}", k,
                        exc=f"{type(e).__name__}: {e}", observed=traceback.format_exc()[-1200:])
            f.wrong_point = sorted(seen_wrong_point | {d.name for d in leaf_objs if d.wrong_point})
            f.swallowed = sorted(seen_swallowed | set(_SWALLOWED.events))
            findings.append(f)
            return findings, info
        finally:
            G.EXPECTED_LEAF_INPUTS.clear()
        count("linearizations_judged")
        wrong_point = sorted(d.name for d in leaf_objs if d.wrong_point)
        seen_wrong_point.update(wrong_point)  # Jacobians computed off the point may be served again from caches
        seen_swallowed.update(_SWALLOWED.events)  # a worker that failed once may leave its discipline unusable
        swallowed = sorted(seen_swallowed)
        for d in leaf_objs:
            d.wrong_point.clear()
        if swallowed:
            count("linearizations_with_an_exception_swallowed_by_a_parallel_worker")
        if wrong_point:
            count("linearizations_with_a_leaf_linearized_off_the_executed_point")
        if k:
            count("successive_requests_judged")
        # the executed function must be the one the reference models (else the comparison is meaningless)
        # (a name that is both an input and an output is reset to its input value by linearize; it is checked on
        # a separately executed fresh instance below)
        bad_val = [o for o in ref_outs if o not in ref_ins
                   if o not in proc.io.data or np.shape(proc.io.data[o]) != np.shape(values[o])
                   or not np.allclose(np.asarray(proc.io.data[o], dtype=float), values[o], rtol=1e-12, atol=1e-12)]
        if bad_val:
            info["harness"].append({"value-mismatch": {"outputs": bad_val, "request": k}})
            return findings, info
        count("executed_values_checked", len(ref_outs))
        for o in want_out:
            for i in want_in:
                row = jac.get(o) if hasattr(jac, "get") else None
                blk = None if row is None else row.get(i)
                if blk is None:
                    findings.append(Finding("every requested block is returned", "missing-block", k, o, i,
                                            observed=sorted(map(str, row)) if row is not None else "no row",
                                            expected=jref[o][i]))
                    continue
                f = _check_block(blk, o, i, sizes, jref, scale, k, requested=True)
                count("blocks_checked")
                info["block_kinds"].add(block_kind(blk))
                if not np.any(jref[o][i]):
                    count("zero_blocks_checked")
                else:
                    info["nontrivial"] = True
                if f:
                    findings.append(f)
        # blocks that are returned without having been requested
        for o, row in (jac.items() if hasattr(jac, "items") else ()):
            if o not in jref:
                continue
            for i, blk in row.items():
                if i not in jref[o] or (o in want_out and i in want_in):
                    continue
                count("unrequested_blocks_checked")
                f = _check_block(blk, o, i, sizes, jref, scale, k, requested=False)
                if f:
                    findings.append(f)
        for f in findings[n_found:]:
            f.wrong_point = sorted(seen_wrong_point)
            f.swallowed = swallowed
        if findings:
            break  # the instance may be left in a damaged state: later requests would only show secondary effects
    info["leaf_requests"] = sum(len(d.requests) for d in G.all_disciplines(proc) if hasattr(d, "requests"))
    return findings, info


def _check_block(blk, o, i, sizes, jref, scale, k, requested):
    tag = "" if requested else "unrequested-"
    shape = tuple(getattr(blk, "shape", ()))
    want = (sizes[o], sizes[i])
    if shape != want:
        return Finding("blocks have shape (output size, input size)", tag + "shape", k, o, i,
                       observed=list(shape), expected=list(want))
    try:
        m = dense(blk)
    except Exception as e:
        return Finding("blocks can be evaluated", tag + f"unusable-block:{type(e).__name__}", k, o, i, exc=str(e))
    if m.shape != want or not np.all(np.isfinite(m)):
        return Finding("blocks are finite matrices", tag + "non-finite", k, o, i, observed=m, expected=jref[o][i])
    tol = RTOL * (1.0 + scale[o][i])
    if np.any(np.abs(m - jref[o][i]) > tol):
        what = "wrong-block" if np.any(jref[o][i]) else "nonzero-independent-block"
        return Finding("blocks equal the Jacobian of the computed function", tag + what, k, o, i,
                       observed=m, expected=jref[o][i])
    return None


# --------------------------------------------------------------------------- classification
def single_request_case(case, k):
    """The cumulative request ``k`` of ``case`` alone, on a fresh instance."""
    reqs = [r for r in case["requests"][: k + 1] if r.get("op") != "execute"]
    last = case["requests"][k]
    if last["all"]:
        one = {"all": True, "ins": [], "outs": [], "point": 0}
    else:
        one = {"all": False, "ins": sorted({n for r in reqs for n in r["ins"]}),
               "outs": sorted({n for r in reqs for n in r["outs"]}), "point": 0}
    return {"spec": case["spec"], "points": [case["points"][last["point"]]], "requests": [one], "pattern": "single"}


ADDITIVE_SUM = "additive_chain._compute_jacobian"


def classify(case, f):
    """Mechanism signature of a finding (never uses numbers).

    Order: what the monitors saw (an exception raised/swallowed in a known place, a leaf linearized off the executed
    point) first, then differential twins (fresh instance, static single assignment), then the generic signature.
    """
    spec = case["spec"]
    feats = G.features(spec)
    root_cls = CLS[feats["root"]]
    nested = "nested" if feats["depth"] > 1 else "flat"
    notes = {}
    # 0. the sum of MDOAdditiveChain raised (directly, or inside a parallel worker that swallowed it)
    places = ([f.what.split(":", 1)[1]] if f.what.startswith("exception:") else []) + list(f.swallowed)
    notes["exceptions_swallowed_by_parallel_workers"] = list(f.swallowed)
    for pl in places:
        if pl.endswith("@" + ADDITIVE_SUM):
            how = "raised" if f.what.startswith("exception:") and f.what.endswith(ADDITIVE_SUM) else "swallowed-by-parallel-worker"
            return f"C09:MDOAdditiveChain:jacobian-sum:{pl.split('@')[0]}:{how}", notes
    # 0b. multi-entry cache on the root process: does the very same history pass with the default cache?
    if case.get("cache") in ("memory_full", "hdf5"):
        f0, i0 = judge(dict(case, cache="simple"))
        notes["same_history_passes_with_the_default_cache"] = not f0 and not i0["harness"]
        if notes["same_history_passes_with_the_default_cache"]:
            # the execution at the requested point was served by the cache of the root process, the sub-processes
            # still hold the data of the last point actually computed and are linearized there
            return (f"C09:{root_cls}:multi-entry-cache-hit:sub-disciplines-linearized-at-another-point"
                    if f.wrong_point or f.what in WRONG_VALUE else
                    f"C09:{root_cls}:multi-entry-cache-hit:{f.what}"), notes
    # 1. a leaf was linearized at a point which is not the one of the executed dataflow
    if f.wrong_point:
        notes["leaves_linearized_off_the_executed_point"] = f.wrong_point
        return "C09:MDOChain:in-out-variable:sub-discipline-linearized-at-its-output-value", notes
    # 2. does the same cumulative request fail on a fresh instance?  (history dependence)
    history = False
    if f.k > 0:
        f1, i1 = judge(single_request_case(case, f.k))
        history = not f1 and not i1["harness"]
        notes["fails_on_fresh_instance"] = not history
    # 3. the same name produced by two children of a parallel chain and the failing block is a row of that name
    name_reuse = feats["overwritten"] or feats["overwritten_unread"]
    if feats["par_dup"] and f.out in G.par_duplicates(spec["root"]) and f.what in WRONG_VALUE and not history:
        return "C09:MDOParallelChain:duplicate-output:rows-merged" + (
            ":with-overwritten-variable" if name_reuse else ""), notes
    # 4. is it caused by re-using a name?  Differential twins in static single assignment form: the first kind of
    #    renaming that repairs the case (same cumulative request, or everything requested) names the mechanism
    if (name_reuse or feats["inout_child"] or feats["par_dup"]) and not history and f.what in WRONG_VALUE:
        ow = G.chain_overwrites(spec["root"])
        for key, kw in (("overwrites", {}), ("overwrites+in_place_updates", {"rename_self": True}),
                        ("parallel_duplicates", {"drop_par_dup": True, "only": "par_dup"}),
                        ("overwrites+parallel_duplicates", {"drop_par_dup": True})):
            if key.startswith("parallel") and not feats["par_dup"]:
                continue
            if kw.pop("only", None) == "par_dup":
                twin = G.ssa_twin(spec, keep_overwrites=True, **kw)
            else:
                twin = G.ssa_twin(spec, **kw)
            if twin is None:
                continue
            passes = False
            for everything in (False, True):
                tcase = single_request_case(case, f.k)
                tcase["spec"] = twin
                ren = twin["renamed_outputs"]
                if everything:
                    tcase["requests"][0] = {"all": True, "ins": [], "outs": [], "point": 0}
                else:
                    tcase["requests"][0]["outs"] = sorted(ren.get(o, o) for o in tcase["requests"][0]["outs"])
                f2, i2 = judge(tcase)
                if not f2 and not i2["harness"]:
                    passes = True
                    break
            notes["twin_without_" + key + "_passes"] = passes
            if not passes:
                continue
            if key == "overwrites+in_place_updates":
                # only renaming the names that a leaf updates in place repairs it, and no leaf was linearized off its
                # point: reverse_chain_rule composes jac[o][x] through dx_out/dx_in after another output of the same
                # discipline has already been accumulated into jac[o][x]
                return "C09:MDOChain:in-out-variable:composed-after-accumulation", notes
            if key == "parallel_duplicates":
                return "C09:MDOParallelChain:duplicate-output:rows-merged:seen-downstream", notes
            if key == "overwrites+parallel_duplicates":
                return "C09:MDOParallelChain:duplicate-output:rows-merged:with-overwritten-variable", notes
            if f.out in ow["pure_unread"] and f.out not in ow["pure"]:
                # produced twice, not read in between: nothing to double count; the row of an earlier
                # producer is reported because the last producer was pruned or comes first in reverse order
                return KNOWN_OVERWRITE + ":row-of-an-earlier-producer", notes
            if not name_reuse:
                # the name is overwritten by a sub-process that also reads it (in another of its disciplines)
                return KNOWN_OVERWRITE + ":by-a-sub-process-reading-it", notes
            return KNOWN_OVERWRITE, notes
    parts = [f"C09:{root_cls}:{f.what}", nested]
    for flag in ("self_update", "par_dup", "partial_sum"):
        if feats[flag]:
            parts.append(flag)
    if feats["overwritten"] or feats["overwritten_unread"]:
        parts.append("overwritten")
    if "op" in feats["fmt"] and f.what.startswith(("exception", "unusable")):
        parts.append("operator")
    if history:
        parts.append("history-dependent")
    return ":".join(parts), notes


def arbitrate(case, f):
    """Centred finite differences of the executed process for the block of ``f``.

    Returns 'reference' (FD agree with the reference, not with gemseo), 'gemseo', 'both' or 'neither'.
    """
    if f.out is None or f.observed is None or not isinstance(f.observed, np.ndarray) or f.expected is None:
        return "n/a"
    pt = case["points"][case["requests"][f.k]["point"]]
    try:
        fd = finite_differences(case["spec"], pt, [f.inp], [f.out])[f.out][f.inp]
    except Exception as e:
        return f"fd-failed:{type(e).__name__}"
    ref = np.asarray(f.expected, dtype=float)
    tol = 1e-5 * (1.0 + np.abs(ref).max())
    ok_ref = bool(np.all(np.abs(fd - ref) <= tol))
    ok_obs = bool(np.all(np.abs(fd - f.observed) <= tol))
    return {(True, False): "reference", (False, True): "gemseo", (True, True): "both", (False, False): "neither"}[
        (ok_ref, ok_obs)]


def _count_restricted(case, rep):
    """Count the requests whose cumulative inputs avoid every input of an overwriting discipline (it is then pruned by
    the graph traversal while an earlier producer of the same name is not)."""
    events = G.overwrite_events(case["spec"])
    eff = set()
    for k, r in enumerate(case["requests"]):
        if r["all"]:
            continue
        eff |= set(r["ins"])
        if eff and any(not (eff & ev["after"]) and (eff & ev["before"]) for ev in events):
            rep.count("requests_pruning_the_last_producer_of_an_overwritten_variable")
            if k:
                rep.count("later_requests_pruning_the_last_producer_of_an_overwritten_variable")


# --------------------------------------------------------------------------- one case
def run_case(case, rep):
    cnt = {}
    findings, info = judge(case, cnt)
    for name, n in cnt.items():
        rep.count(name, n)
    feats = G.features(case["spec"])
    rep.case((G.shape_signature(case["spec"]), case.get("pattern"), len(case["requests"]),
              len(case["points"])), info["nontrivial"] or bool(findings))
    rep.count("cases_" + feats["root"])
    pat = str(case.get("pattern", ""))
    rep.count("cases_root_cache_" + str(case.get("cache", "simple")))
    if pat.startswith("interleaved"):
        rep.count("cases_interleaving_points")
    if case.get("stratum") == "overwrite":
        rep.count("cases_overwrite_stratum")
    if pat.startswith("overwrite-exclude"):
        rep.count("cases_requesting_only_inputs_the_overwriting_discipline_ignores")
        if pat.endswith("sharp"):
            # ... and the replaced value depends on a requested input, the producer does not read the name, and a
            # later discipline of the chain reads the new value
            rep.count("cases_pruned_overwriter_with_live_earlier_producer_and_later_reader")
        _count_restricted(case, rep)
    elif pat.startswith("overwrite-only"):
        rep.count("cases_requesting_only_inputs_of_the_overwriting_discipline")
    for flag in ("overwritten", "self_update", "in_out", "par_dup", "partial_sum"):
        if feats[flag]:
            rep.count("cases_with_" + flag)
    if feats["depth"] > 1:
        rep.count("cases_nested")
    for kind in info["block_kinds"]:
        rep.count("cases_returning_" + kind + "_blocks")
    for fm in feats["fmt"]:
        rep.count("cases_with_leaf_" + fm)
    for h in info["harness"]:
        key = next(iter(h))
        rep.count("harness_" + key)
        rep.observe("harness:" + key, {"case": _pack(case), "detail": h[key]})
        rep.inconclusive(f"harness self-check failed ({key}): the reference model does not describe the executed process")
    if any(n["t"] == "mdachain" and not n.get("chain_linearize", True) for n in G.walk(case["spec"]["root"])):
        # MDAChain(chain_linearize=False) differentiates with the coupled-adjoint assembly (JacobianAssembly), which is
        # the mechanism of property C07, not the chain rule of C09: observed, never part of the verdict
        rep.count("cases_adjoint_route_observed_only")
        for f in findings[:3]:
            rep.observe(f"outside-C09:MDAChain(chain_linearize=False):{f.what}",
                        {"case": _pack(case), "request_index": f.k, "block": [f.out, f.inp], "exception": f.exc})
        return findings
    seen = set()
    for f in findings[:6]:
        verdict = arbitrate(case, f)
        if verdict == "gemseo":
            rep.inconclusive("reference model contradicted by finite differences of the executed process")
            rep.observe("harness:reference-contradicted-by-fd", {"case": _pack(case), "block": [f.out, f.inp]})
            continue
        sig, notes = classify(case, f)
        if sig in seen:
            continue
        seen.add(sig)
        notes["finite_differences_support"] = verdict
        rep.violation(sig, f.clause, _pack(case),
                      observed={"request_index": f.k, "block": [f.out, f.inp], "value": f.observed,
                                "exception": f.exc, "notes": notes},
                      expected={"block": f.expected},
                      msg=f"{f.what} at request {f.k} for d{f.out}/d{f.inp}")
    return findings


# --------------------------------------------------------------------------- symbolic sub-workload
def gen_symbolic_case(rng):
    """Flat MDOChain of 2-4 polynomial leaves with dense Jacobians (sparse zero blocks of nested processes and
    JSON grammars reject object arrays, so nesting / csr / operators are left to the numeric workload)."""
    spec = G.random_composition(rng, root_kind="chain", n_leaves=int(rng.integers(2, 5)), max_depth=1, fmt="dense",
                                p_overwrite=0.1, p_self_update=0.0, sizes=[1, 2, 2, 3])
    n_sq = 0
    for lf in G.leaves(spec["root"]):
        if lf["phi"] == "tanh":
            lf["phi"] = "sq"
        if lf["phi"] == "sq":
            n_sq += 1
            if n_sq > 2:  # keep the degree of the composed polynomial <= 4
                lf["phi"] = "lin"
    ins, outs = R.process_io(spec["root"])
    k_in = int(rng.integers(1, len(ins) + 1))
    k_out = int(rng.integers(1, len(outs) + 1))
    return {"kind": "symbolic", "spec": spec,
            "request": {"all": bool(rng.random() < 0.5),
                        "ins": sorted(rng.choice(ins, size=k_in, replace=False).tolist()),
                        "outs": sorted(rng.choice(outs, size=k_out, replace=False).tolist())}}


def judge_symbolic(case):
    """Execute and linearize the real chain on sympy symbols; compare with sympy.diff of the executed outputs.

    Returns (status, findings, n_blocks): status 'ok' or 'rejected:<why>' when object arrays do not go through.
    """
    import sympy as sp

    _quiet()
    spec, req = case["spec"], case["request"]
    ins, outs = R.process_io(spec["root"])
    x = {n: np.array([sp.Symbol(f"{n}_{j}") for j in range(spec["sizes"][n])], dtype=object) for n in ins}
    proc = G.build(spec["root"], symbolic=True)
    for d in G.all_disciplines(proc):
        d.set_cache(d.CacheType.NONE)  # caches hash / compare numeric arrays
    try:
        out = dict(proc.execute({k: v.copy() for k, v in x.items()}))
    except Exception as e:
        return f"rejected:execute:{type(e).__name__}", [], 0
    want_in, want_out = (ins, outs) if req["all"] else (req["ins"], req["outs"])
    try:
        if not req["all"]:
            proc.add_differentiated_inputs(list(want_in))
            proc.add_differentiated_outputs(list(want_out))
        jac = proc.linearize({k: v.copy() for k, v in x.items()}, compute_all_jacobians=req["all"])
    except Exception as e:
        return f"rejected:linearize:{type(e).__name__}@{_where(e)}", [], 0
    findings, n = [], 0
    for o in want_out:
        for i in want_in:
            blk = jac.get(o, {}).get(i)
            if blk is None:
                findings.append(Finding("every requested block is returned", "missing-block", 0, o, i))
                continue
            m = blk.toarray() if hasattr(blk, "toarray") else np.asarray(blk)
            want = (spec["sizes"][o], spec["sizes"][i])
            if m.shape != want:
                findings.append(Finding("blocks have shape (output size, input size)", "shape", 0, o, i,
                                        observed=list(m.shape), expected=list(want)))
                continue
            n += 1
            for a in range(want[0]):
                for b in range(want[1]):
                    exact = sp.diff(out[o][a], x[i][b])
                    if sp.expand(sp.sympify(m[a, b]) - exact) != 0:
                        findings.append(Finding("blocks equal the Jacobian of the computed function (symbolically)",
                                                "wrong-block", 0, o, i, observed=str(m[a, b])[:300],
                                                expected=str(sp.expand(exact))[:300]))
                        break
                else:
                    continue
                break
    return "ok", findings, n


def run_symbolic_case(case, rep):
    status, findings, n = judge_symbolic(case)
    feats = G.features(case["spec"])
    if status != "ok":
        rep.count("symbolic_cases_rejected")
        rep.observe("symbolic:" + status, {"features": feats})
        return
    rep.case(("symbolic", G.shape_signature(case["spec"]), case["request"]["all"]), True)
    rep.count("symbolic_cases_judged")
    rep.count("symbolic_blocks_checked", n)
    seen = set()
    for f in findings[:4]:
        sig = f"C09:MDOChain:symbolic:{f.what}"
        if feats["overwritten"] or feats["overwritten_unread"]:
            twin = G.ssa_twin(case["spec"])
            if twin is not None:
                ren = twin["renamed_outputs"]
                treq = dict(case["request"], outs=sorted(ren.get(o, o) for o in case["request"]["outs"]))
                st2, f2, _ = judge_symbolic({"spec": twin, "request": treq})
                if st2 == "ok" and not f2:
                    ow = G.chain_overwrites(case["spec"]["root"])
                    sig = KNOWN_OVERWRITE
                    if f.out in ow["pure_unread"] and f.out not in ow["pure"]:
                        sig += ":row-of-an-earlier-producer"
        if sig in seen:
            continue
        seen.add(sig)
        rep.violation(sig, f.clause, _pack(case), observed={"block": [f.out, f.inp], "entry": f.observed, "symbolic": True},
                      expected={"entry": f.expected}, msg=f"symbolic {f.what} for d{f.out}/d{f.inp}")


# --------------------------------------------------------------------------- directed cases
def _leaf(name, ins, outs, sizes, rng, phi="lin", fmt="dense", skip=()):
    A = {o: {i: np.round(rng.uniform(-1, 1, (sizes[o], sizes[i])), 3).tolist() for i in ins if (o, i) not in skip}
         for o in outs}
    return {"t": "leaf", "name": name, "ins": [[i, sizes[i]] for i in ins], "outs": [[o, sizes[o]] for o in outs],
            "A": A, "c": {o: np.round(rng.uniform(-0.5, 0.5, sizes[o]), 3).tolist() for o in outs}, "phi": phi,
            "fmt": {o: {i: fmt for i in ins} for o in outs}}


def _req(ins=(), outs=(), all_=False, point=0):
    return {"all": bool(all_), "ins": list(ins), "outs": list(outs), "point": point}


def directed_cases():
    rng = np.random.default_rng(5)
    cases = []

    def add(root, sizes, reqs, points=None, pattern="directed"):
        spec = {"root": root, "sizes": sizes}
        ins = R.process_io(root)[0]
        pts = points or [{n: np.round(np.linspace(0.1, 0.3 * sizes[n], sizes[n]), 3).tolist() for n in ins}]
        cases.append({"spec": spec, "points": pts, "requests": reqs, "pattern": pattern})

    # 1. the overwritten variable of DESIGN.md section 4 (three requests on fresh instances)
    s = {"x": 3, "a": 2, "b": 1, "o": 2}
    for fmt in ("dense", "csr", "op"):
        rng = np.random.default_rng(5)
        ch = [_leaf("d0", ["x"], ["a"], s, rng, fmt=fmt), _leaf("d1", ["a"], ["b"], s, rng, fmt=fmt),
              _leaf("d2", ["b", "x"], ["a"], s, rng, fmt=fmt), _leaf("d3", ["a", "b", "x"], ["o"], s, rng, fmt=fmt)]
        for reqs in ([_req(["x"], ["o"])], [_req(["x"], ["a"])], [_req(["x"], ["a", "b", "o"])], [_req(all_=True)]):
            add({"t": "chain", "children": copy.deepcopy(ch)}, s, reqs)
    # 1b. a chain input that is overwritten after having been read, and read again
    s = {"a": 2, "b": 3, "o": 1}
    rng = np.random.default_rng(6)
    add({"t": "chain", "children": [_leaf("d0", ["a"], ["b"], s, rng, "tanh"), _leaf("d1", ["b"], ["a"], s, rng),
                                    _leaf("d2", ["a", "b"], ["o"], s, rng, "sq")]}, s, [_req(["a"], ["o"])])
    # 2. diamond with a shared input, pass-through input consumed at three depths, unused output
    s = {"x": 2, "z": 3, "l": 1, "r": 4, "u": 2, "o": 3}
    for fmt in ("dense", "csr", "op"):
        rng = np.random.default_rng(7)
        root = {"t": "chain", "children": [
            _leaf("top", ["x", "z"], ["l", "u"], s, rng, "tanh", fmt), _leaf("mid", ["x", "l"], ["r"], s, rng, "sq", fmt),
            _leaf("bot", ["x", "l", "r"], ["o"], s, rng, "tanh", fmt)]}
        add(root, s, [_req(["x"], ["o"]), _req(["z"], []), _req([], ["r"]), _req(all_=True), _req(["x"], ["o"])])
    # 3. independent pairs: isolated discipline in a chain, zero blocks in every container
    s = {"x": 2, "w": 3, "p": 1, "q": 4}
    rng = np.random.default_rng(8)
    two = [_leaf("A", ["x"], ["p"], s, rng, "sq"), _leaf("B", ["w"], ["q"], s, rng, "tanh")]
    for t in ("chain", "par", "mdachain"):
        node = {"t": t, "children": copy.deepcopy(two)}
        if t == "mdachain":
            node.update(chain_linearize=True, parallelize=False)
        add(node, s, [_req(["x"], ["q"]), _req(["w"], ["p"]), _req(all_=True)])
    # 4. additive chain: summed and individual outputs, subset then all
    s = {"x": 2, "y": 3, "s0": 2, "e": 1}
    rng = np.random.default_rng(9)
    add({"t": "add", "sum": ["s0"], "n_processes": None, "children": [
        _leaf("A", ["x"], ["s0"], s, rng, "sq"), _leaf("B", ["x", "y"], ["s0", "e"], s, rng, "tanh"),
        _leaf("C", ["y"], ["s0"], s, rng)]}, s, [_req(["x"], ["s0"]), _req(["y"], ["e"]), _req(all_=True)])
    # 5. MDAChain on an acyclic system listed against the data flow, both linearization routes, nested in a chain
    s = {"x": 2, "a": 3, "b": 1, "c": 2, "o": 4}
    for cl in (True, False):
        for par in (False, True):
            rng = np.random.default_rng(10)
            mda = {"t": "mdachain", "chain_linearize": cl, "parallelize": par, "children": [
                _leaf("D3", ["b", "c", "x"], ["o"], s, rng, "tanh"), _leaf("D2", ["a"], ["c"], s, rng, "sq"),
                _leaf("D1", ["a", "x"], ["b"], s, rng, "tanh"), _leaf("D0", ["x"], ["a"], s, rng)]}
            add(mda, s, [_req(["x"], ["o"]), _req([], ["b"]), _req(all_=True)])
    # 6. nesting depth 3: chain(par(chain(leaf, leaf), leaf), leaf), two points, shrinking then growing
    s = {"x": 2, "z": 1, "a": 3, "b": 2, "c": 4, "o": 1}
    rng = np.random.default_rng(11)
    inner = {"t": "chain", "children": [_leaf("i0", ["x"], ["a"], s, rng, "tanh", "csr"),
                                        _leaf("i1", ["a", "z"], ["b"], s, rng, "sq", "op")]}
    root = {"t": "chain", "children": [{"t": "par", "n_processes": 2, "children": [inner, _leaf("p1", ["x", "z"], ["c"], s, rng)]},
                                       _leaf("last", ["b", "c", "x"], ["o"], s, rng, "tanh")]}
    pts = [{"x": [0.2, -0.4], "z": [0.7]}, {"x": [0.2, -0.4], "z": [-0.1]}]
    add(root, s, [_req(all_=True), _req(["z"], ["o"], point=1), _req(["x"], ["a"], point=1), _req(["x"], ["c"], point=0)], pts)
    # 7. additive chain: a child that does not read the requested input; only a non-summed output requested;
    #    a summed output that no child links to the requested input; operator + dense terms
    s = {"x": 2, "y": 3, "s0": 2, "e": 1}
    for fmt in ("dense", "op"):
        rng = np.random.default_rng(12)
        kids = [_leaf("A", ["x"], ["s0"], s, rng, "sq", fmt), _leaf("C", ["y"], ["s0", "e"], s, rng, "tanh")]
        for reqs in ([_req(["x"], ["s0"])], [_req(["y"], ["e"])], [_req(["x", "y"], ["s0", "e"])], [_req(all_=True)]):
            add({"t": "add", "sum": ["s0"], "n_processes": None, "children": copy.deepcopy(kids)}, s, reqs)
    # 8. a discipline that updates one of its inputs in place (x := f(x)), followed by a reader
    s = {"x": 2, "y": 3}
    rng = np.random.default_rng(13)
    add({"t": "chain", "children": [_leaf("upd", ["x"], ["x"], s, rng, "sq"), _leaf("rd", ["x"], ["y"], s, rng)]}, s,
        [_req(["x"], ["y", "x"])])
    # 9. two children of a parallel chain produce the same output (the later has priority)
    s = {"x": 2, "z": 3, "y": 2}
    rng = np.random.default_rng(14)
    add({"t": "par", "n_processes": None, "children": [_leaf("A", ["x"], ["y"], s, rng, "tanh"),
                                                     _leaf("B", ["z"], ["y"], s, rng, "sq")]}, s, [_req(all_=True)])
    # 10. a variable produced twice in a chain without being read in between; the last producer does not
    #     depend on the requested input
    s = {"x": 2, "w": 3, "v": 2}
    rng = np.random.default_rng(15)
    add({"t": "chain", "children": [_leaf("first", ["x", "w"], ["v"], s, rng, "tanh"),
                                    _leaf("second", ["x"], ["v"], s, rng, "sq")]}, s, [_req(["w"], ["v"])])
    # 11. a variable overwritten by a discipline that ignores the requested input and read afterwards
    #     (D0: v=f(x); D1: v=g(z); D2: o=h(v)): requesting only x prunes D1, do/dx must still be an exact zero block;
    #     as single request, as first of several, after compute_all_jacobians, and the symmetric request {z}
    s = {"x": 2, "z": 3, "v": 2, "o": 3}
    for fmt in ("dense", "csr", "op"):
        rng = np.random.default_rng(16)
        kids = [_leaf("D0", ["x"], ["v"], s, rng, "tanh", fmt), _leaf("D1", ["z"], ["v"], s, rng, "sq", fmt),
                _leaf("D2", ["v"], ["o"], s, rng, "tanh", fmt)]
        for reqs, pat in (([_req(["x"], ["o"])], "overwrite-exclude-first"),
                          ([_req(["x"], ["o"]), _req(["z"], ["v"])], "overwrite-exclude-first"),
                          ([_req(all_=True), _req(["x"], ["o", "v"])], "overwrite-exclude-after-all"),
                          ([_req(["z"], ["o"])], "overwrite-only-first")):
            add({"t": "chain", "children": copy.deepcopy(kids)}, s, reqs, pattern=pat)
    # 12. multi-entry cache on the root process and interleaved points: execute at p0, execute at p1, linearize at p0
    #     (execution served by the root cache while the sub-disciplines hold p1), at p1, again at p0 with a grown request
    s = {"x": 2, "z": 1, "a": 3, "b": 2, "o": 2}
    pts = [{"x": [0.3, -0.2], "z": [0.5]}, {"x": [-0.7, 0.9], "z": [-0.4]}]

    def ex(point):
        return {"op": "execute", "all": False, "ins": [], "outs": [], "point": point}

    hist = [ex(0), ex(1), _req(["x"], ["o"], point=0), _req(point=1), _req(["z"], ["b"], point=0), _req(point=0)]
    for kind in ("mdachain", "chain", "par", "add"):
        for cache in ("memory_full", "hdf5", "simple", "none"):
            rng = np.random.default_rng(17)
            if kind in ("mdachain", "chain"):
                kids = [_leaf("D1", ["x", "z"], ["a"], s, rng, "sq"), _leaf("D2", ["a", "x"], ["b"], s, rng, "tanh", "csr"),
                        _leaf("D3", ["b", "a"], ["o"], s, rng, "sq")]
            else:
                kids = [_leaf("D1", ["x", "z"], ["o"], s, rng, "sq"), _leaf("D2", ["x"], ["o", "b"], s, rng, "tanh", "csr")]
            node = {"t": kind, "children": kids}
            if kind == "mdachain":
                node.update(chain_linearize=True, parallelize=False)
            if kind == "add":
                node.update(sum=["o"], n_processes=None)
            if kind == "par":
                node.update(n_processes=None)
            add(node, s, copy.deepcopy(hist), copy.deepcopy(pts), pattern="interleaved-directed")
            cases[-1]["cache"] = cache
    return cases


# --------------------------------------------------------------------------- generated cases
OVERWRITE_STRATUM = {"p_overwrite": 0.45, "p_self_update": 0.0, "p_overwrite_from_elsewhere": 0.6, "p_read_overwritten": 0.85}
"""Sub-population (15 % of the generated cases) rich in variables overwritten by disciplines that read other process
inputs than the replaced value, followed by a reader; no in-place update (its known finding would stop the case)."""


def gen_case(rng, opts=None):
    stratum = ""
    p_targeted = 0.6
    if opts is None and rng.random() < 0.15:
        stratum = "overwrite"
        p_targeted = 0.9
        opts = dict(OVERWRITE_STRATUM, n_leaves=int(rng.integers(3, 7)))
        if rng.random() < 0.6:
            opts["root_kind"] = "chain"
    spec = G.random_composition(rng, **(opts or {}))
    if not stratum and rng.random() < 0.2:
        hist = G.interleaved_requests(rng, spec)
        cache = str(rng.choice(["simple", "memory_full", "hdf5", "none"], p=[0.15, 0.5, 0.2, 0.15]))
    else:
        hist = G.random_requests(rng, spec, p_targeted=p_targeted)
        cache = str(rng.choice(["simple", "memory_full", "hdf5", "none"], p=[0.7, 0.12, 0.06, 0.12]))
    if cache in ("memory_full", "hdf5"):
        # multi-entry caches copy / serialise the Jacobian they store: a JacobianOperator block cannot be written to
        # HDF5 (no native type) nor deep-copied when it closes over local callables; storing operators is a cache
        # matter (C05/C11), so the leaves of these cases return csr blocks instead of operators
        for lf in G.leaves(spec["root"]):
            for row in lf["fmt"].values():
                for i, f_ in row.items():
                    if f_ == "op":
                        row[i] = "csr"
    return {"spec": spec, "points": hist["points"], "requests": hist["requests"], "pattern": hist["pattern"],
            "stratum": stratum, "cache": cache}


def run_shard(spec, rep):
    _quiet()
    SCRATCH["dir"] = spec.get("scratch") or SCRATCH["dir"]
    rng = np.random.default_rng(spec["seed"])
    if spec.get("shard", 0) == 0:
        for case in directed_cases():
            run_case(case, rep)
            rep.count("directed_cases")
    for i in range(spec["n_cases"]):
        if rep.time_left() < 0:
            rep.count("stopped_on_time_budget")
            break
        case = gen_case(rng)
        run_case(case, rep)
        if i < 1:
            rep.sample({"features": G.features(case["spec"]), "pattern": case["pattern"],
                        "requests": case["requests"], "tree": G.shape_signature(case["spec"])[0]})
    for i in range(spec.get("n_symbolic", 0)):
        if rep.time_left() < 0:
            rep.count("stopped_on_time_budget")
            break
        run_symbolic_case(gen_symbolic_case(rng), rep)


def _pack(case):
    """Witness form of a case: the harness truncates nested structures below depth 8, a JSON string survives."""
    feats = G.features(case["spec"])
    return {"json": json.dumps(case), "features": feats,
            "tree": G.shape_signature(case["spec"])[0] if feats["depth"] <= 2 else "deep",
            "requests": case.get("requests", case.get("request"))}


def replay(case, rep):
    _quiet()
    SCRATCH["dir"] = rep.spec.get("scratch") or SCRATCH["dir"]
    if "json" in case:
        case = json.loads(case["json"])
    if case.get("kind") == "symbolic":
        run_symbolic_case(case, rep)
    else:
        run_case(case, rep)
