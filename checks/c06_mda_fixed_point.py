"""C06 — every MDA algorithm converges to the multidisciplinary fixed point.

Events: the data returned by ``mda.execute`` (first and, for re-executions, second call on the same
instance); the convergence claim of every elementary solver inside the MDA (``normed_residual`` vs
``tolerance``; SciPy's ``success`` flag for ``MDAQuasiNewton``, observed by wrapping
``gemseo.mda.quasi_newton.root``); the reference scale every solver fixed at its first iteration.

Oracle (harness only, numpy): generated contractive systems of ``vlib.gen.systems`` /
``vlib.gen.c06_systems`` with exact solution ``y*``.  (1) every discipline re-evaluated by the
harness on the returned data reproduces the returned outputs within ``K*tol*s`` (times the
Lipschitz constant of the output for non-coupling outputs); (2) ``|y-y*|`` and (3) ``|f-f*|`` within
the same bound divided by ``1-L``; (4) bounded progress: (1)-(3) are demanded whenever the MDA
claims convergence, and also when it stops on ``max_mda_iter=300`` for algorithm/system pairs with
a convergence guarantee; a pair without guarantee that stops on its cap is counted
(``no_guarantee_stopped_on_cap``) and never a violation.  ``mda.normed_residual`` is never the
verdict.  See DESIGN.md section 3, C06.
"""

from __future__ import annotations

import copy
import logging
import math
import warnings

import numpy as np

from vlib.gen import c06_systems as cs
from vlib.gen import systems as gs
from vlib.harness import Reporter
from vlib.harness import subseed

PID = "C06"
LEVEL = "exploration"
RULE = (
    "seeded generator over (coupling graph kind: ring / dense / two SCCs / head-SCC-tail / feed-forward chain / "
    "long head / long tail / self-coupled+tail / diamond; 2-5 disciplines; coupling sizes 1-3; linear or tanh; "
    "contraction constant L in {0.2,0.5,0.8}; self-coupled or not) x (listing order of the disciplines: identity, "
    "reverse, random permutations) x (MDA class: Jacobi, Gauss-Seidel, Newton-Raphson, quasi-Newton with each SciPy "
    "method, GS-Newton, MDASequential of two solvers, MDAChain with each inner MDA) x (acceleration method, "
    "over-relaxation factor, residual scaling, tolerance, Newton linear solver and matrix type, sparse Jacobians, "
    "starting point zero / random / close to the solution, warm start or plain re-execution at a nearby input, tolerance / "
    "max_mda_iter given loosely to the constructor and re-assigned through .settings before the first or the second "
    "execution); a case "
    "is distinct by that tuple (matrix coefficients and input values excluded) and non-trivial when the system has at "
    "least one coupling read by a discipline"
)
ASSUMPTIONS = [
    "the generated systems are contractions in the max-norm with constant L<1 (row sums of the coupling blocks; tanh is "
    "1-Lipschitz), hence well-posed with a unique fixed point; the exact solution is numpy.linalg.solve (linear) or a "
    "harness Gauss-Seidel iteration to 1e-15 (tanh)",
    "the requested tolerance is interpreted with the scale s each ResidualScaling documents (1, sqrt(n), first initial "
    "residual); s is read from the solver instance and capped by a harness-side a-priori bound 4*sqrt(N)*(1+L)*|y0-y*|; "
    "the oracle allows K=100 times tol*s plus a rounding floor",
    "MDAQuasiNewton delegates its stop criterion to scipy.optimize.root; its scale is 1+|y*|+the a-priori bound; a run "
    "whose SciPy result is not 'success' is counted as stopped-on-cap (no convergence guarantee), never a violation",
    "pairs with a convergence guarantee within 300 iterations: Jacobi / Gauss-Seidel without acceleration whose "
    "relaxed contraction rate predicts convergence within 240 iterations, Newton-Raphson without relaxation or "
    "acceleration on linear systems, and compositions of those; every other pair may legitimately stop on its cap",
]
ANCHORS = [
    "gemseo.mda.gauss_seidel:MDAGaussSeidel._execute",
    "gemseo.mda.jacobi:MDAJacobi._execute",
    "gemseo.mda.newton_raphson:MDANewtonRaphson._execute",
    "gemseo.mda.quasi_newton:MDAQuasiNewton._execute",
    "gemseo.mda.sequential_mda:MDASequential._execute",
    "gemseo.mda.mda_chain:MDAChain._create_mdo_chain",
    "gemseo.mda.mda_chain:MDAChain._execute",
    "gemseo.mda.base_mda_solver:BaseMDASolver._stop_criterion_is_reached",
    "gemseo.mda.base_mda_solver:BaseMDASolver._compute_normalized_residual_norm",
    "gemseo.mda.base_mda_solver:BaseMDASolver._compute_residuals",
    "gemseo.mda.base_mda_solver:BaseMDASolver._set_resolved_variables",
    "gemseo.mda.base_mda:BaseMDA._prepare_warm_start",
    "gemseo.core.derivatives.jacobian_assembly:JacobianAssembly.compute_newton_step",
    "gemseo.algos.sequence_transformer.composite.composite:CompositeSequenceTransformer.compute_transformed_iterate",
    "gemseo.algos.sequence_transformer.relaxation.over_relaxation:OverRelaxation._compute_transformed_iterate",
    "gemseo.algos.sequence_transformer.acceleration.aitken:Aitken._compute_transformed_iterate",
    "gemseo.algos.sequence_transformer.acceleration.secant:Secant._compute_transformed_iterate",
    "gemseo.algos.sequence_transformer.acceleration.minimum_polynomial:MinimumPolynomial._compute_transformed_iterate",
    "gemseo.algos.sequence_transformer.acceleration.alternate_2_delta:Alternate2Delta._compute_transformed_iterate",
    "gemseo.algos.sequence_transformer.acceleration.alternate_delta_square:AlternateDeltaSquared._compute_transformed_iterate",
]
_MIN_QUICK = {
    "executions_judged": 1800, "fixed_point_oracle_evaluations": 12000, "exact_solution_oracle_evaluations": 12000,
    "claims_convergence": 1700, "systems": 110, "directed_cases": 200,
    "cases_with_couplings_listed_against_the_flow": 500, "cases_with_weakly_coupled_disciplines": 700,
    "cases_with_several_sccs": 150, "cases_with_self_coupling": 350, "cases_with_acceleration": 400,
    "cases_with_relaxation": 350, "cases_with_explicit_scaling": 650, "cases_with_permuted_list": 900,
    "warm_start_second_executions": 250, "plain_second_executions": 180, "small_scale_cases": 250,
    "twin_discipline_reexecutions": 3000, "expected_refusals": 40,
    "cases:MDAChain": 500, "cases:MDAGSNewton": 70, "cases:MDAGaussSeidel": 250, "cases:MDAJacobi": 250,
    "cases:MDANewtonRaphson": 100, "cases:MDAQuasiNewton": 55, "cases:MDASequential": 120,
    # settings re-assigned after construction, judged against the settings in force at execute time
    "settings_reassigned_after_construction": 340, "settings_reassigned:MDAChain": 180,
    "settings_reassigned:MDAGSNewton": 15, "settings_reassigned:MDASequential": 45,
    "settings_reassigned:elementary-solver": 90, "settings_reassigned:tolerance": 260,
    "settings_reassigned:max_mda_iter": 160, "settings_reassigned_before_first_execution": 240,
    "settings_reassigned_before_second_execution": 95,
    # MDASequential whose first stage is built with its own loose tolerance, judged against the sequence's tolerance
    "sequences_with_a_stage_built_with_its_own_loose_tolerance": 120, "own_tolerance_stage_then:MDANewtonRaphson": 20,
    "own_tolerance_stage_then:MDAJacobi": 40, "own_tolerance_stage_then:MDAGaussSeidel": 45,
    "own_tolerance_stage_then:MDAQuasiNewton": 10,
}
MIN_COUNTERS = {
    "quick": dict(_MIN_QUICK),
    # the thorough tier runs ~30 times the generated cases of the quick tier (directed cases once)
    "thorough": {k: (v if k == "directed_cases" else 12 * v) for k, v in _MIN_QUICK.items()},
}
SHARD_TIMEOUT = {"quick": 400, "thorough": 2400}

K = 100.0
MAX_ITER = 300
EPS = np.finfo(float).eps
KNOWN_GS = "C06:MDAGaussSeidel:weak-couplings-listed-out-of-order"
SIG_EMPTY = "C06:MDAGaussSeidel:no-strong-coupling:empty-residual-vector:scaling-exception"
SIG_SEQ_NORM = "C06:MDASequential:sub-MDA-without-residual-norm-output:InvalidDataError"
SIG_QN_TRIAL = "C06:MDAQuasiNewton:non-coupling-outputs-from-last-trial-point"

ACCELERATIONS = ["NoTransformation", "Aitken", "Alternate2Delta", "AlternateDeltaSquared", "MinimumPolynomial", "Secant"]
SCALINGS = ["no_scaling", "initial_residual_norm", "initial_subresidual_norm", "n_coupling_variables",
            "initial_residual_component", "scaled_initial_residual_component"]
QN_METHODS = ["hybr", "lm", "broyden1", "broyden2", "anderson", "krylov", "df-sane", "diagbroyden", "linearmixing",
              "excitingmixing"]
NEWTON_SOLVERS = ["DEFAULT", "GMRES", "LGMRES", "BICGSTAB", "GCROT", "TFQMR", "BICG", "CGS"]
FIXED_POINT = ("MDAJacobi", "MDAGaussSeidel")
NEEDS_CYCLES = ("MDANewtonRaphson", "MDAGSNewton", "MDAQuasiNewton")

_QN_RESULTS: list = []
_PATCHED = False


# --------------------------------------------------------------------------- gemseo plumbing
def _quiet():
    logging.disable(logging.CRITICAL)
    warnings.filterwarnings("ignore")


def _patch_root():
    """Observe the SciPy result of MDAQuasiNewton (add-only wrapper around the name it imported)."""
    global _PATCHED
    if _PATCHED:
        return
    import gemseo.mda.quasi_newton as qn

    real_root = qn.root

    def root(*args, **kwargs):
        res = real_root(*args, **kwargs)
        _QN_RESULTS.append(bool(getattr(res, "success", False)))
        return res

    qn.root = root
    _PATCHED = True


def _classes():
    from gemseo.mda.gauss_seidel import MDAGaussSeidel
    from gemseo.mda.gs_newton import MDAGSNewton
    from gemseo.mda.jacobi import MDAJacobi
    from gemseo.mda.mda_chain import MDAChain
    from gemseo.mda.newton_raphson import MDANewtonRaphson
    from gemseo.mda.quasi_newton import MDAQuasiNewton
    from gemseo.mda.sequential_mda import MDASequential

    return {c.__name__: c for c in (MDAGaussSeidel, MDAGSNewton, MDAJacobi, MDAChain, MDANewtonRaphson,
                                    MDAQuasiNewton, MDASequential)}


def build_mda(case, system, tol_build=None, max_iter_build=None):
    """Instantiate the MDA of ``case`` on fresh disciplines.

    ``tol_build`` / ``max_iter_build``: the values given to the constructor when the case re-assigns these settings
    afterwards (see ``apply_settings``); by default the values of the case.
    """
    from gemseo.core.derivatives.jacobian_assembly import JacobianAssembly

    cls = _classes()
    cfg = case["cfg"]
    defaults = {k: np.array(v, dtype=float) for k, v in case["defaults"].items()}
    discs = system.make_disciplines(order=case["order"], sparse=case.get("sparse", False), defaults=defaults)
    tol_build = case["tol"] if tol_build is None else tol_build
    max_iter_build = MAX_ITER if max_iter_build is None else max_iter_build
    common = {"tolerance": tol_build, "max_mda_iter": max_iter_build}
    if cfg["cls"] == "MDASequential":
        subs = []
        for sub in cfg["seq"]:
            kw = dict(sub["settings"])
            kw["max_mda_iter"] = min(int(kw.get("max_mda_iter", MAX_ITER)), max_iter_build)
            kw.setdefault("tolerance", tol_build)  # a stage may be built with its own (looser) tolerance
            subs.append(cls[sub["cls"]](discs, **kw))
        mda = cls["MDASequential"](discs, subs, **common)
    else:
        mda = cls[cfg["cls"]](discs, **common, **cfg["settings"])
    if cfg.get("scaling"):
        mda.scaling = mda.ResidualScaling(cfg["scaling"])  # composed MDAs cascade it to their solvers
    if cfg.get("matrix_type"):
        jt = JacobianAssembly.JacobianType(cfg["matrix_type"])
        for leaf in leaves(mda):
            leaf.matrix_type = jt
    return mda, discs


def apply_settings(mda, cfg, tol=None, max_iter=None):
    """Re-assign settings on an existing MDA through the documented route.

    MDAChain and MDAGSNewton document ``tolerance`` and ``max_mda_iter`` as cascaded to their inner MDAs
    (``_settings_names_to_be_cascaded``), so only the outer settings are assigned.  A plain MDASequential cascades
    nothing: the user assigns the settings of every MDA of the sequence (each keeps its own iteration cap).  An
    elementary solver reads its own settings at execution time.
    """
    if cfg["cls"] == "MDASequential":
        for sub_cfg, sub in zip(cfg["seq"], mda.mda_sequence):
            if tol is not None and "tolerance" not in sub_cfg["settings"]:
                sub.settings.tolerance = tol
            if max_iter is not None:
                sub.settings.max_mda_iter = min(int(sub_cfg["settings"].get("max_mda_iter", MAX_ITER)), max_iter)
    if max_iter is not None:
        mda.settings.max_mda_iter = max_iter
    if tol is not None:
        mda.settings.tolerance = tol


def leaves(mda):
    """The elementary solvers that iterate inside ``mda``."""
    if hasattr(mda, "inner_mdas"):
        return [l for m in mda.inner_mdas for l in leaves(m)]
    if hasattr(mda, "mda_sequence"):
        return [l for m in mda.mda_sequence for l in leaves(m)]
    return [mda]


def leaf_scale(leaf, cap):
    """Absolute residual level (max-norm) that ``normed_residual <= tol`` guarantees, divided by tol.

    Returns ``None`` when the solver never computed a residual.  Entries equal to exactly 1.0 stand for
    the documented replacement of a null initial residual and are not capped.
    """
    sd = getattr(leaf, "_scaling_data", None)
    scaling = str(getattr(leaf, "scaling", "initial_residual_norm"))

    def capped(v):
        v = float(abs(v))
        return v if v == 1.0 else min(v, cap)

    if scaling == "no_scaling":
        return 1.0
    if sd is None:
        return None
    try:
        if scaling == "n_coupling_variables":
            return float(sd)
        if scaling == "initial_residual_norm":
            return capped(sd)
        if scaling == "initial_subresidual_norm":
            return max(capped(v) for _, v in sd)
        if scaling == "initial_residual_component":
            return max(capped(v) for v in np.ravel(sd))
        if scaling == "scaled_initial_residual_component":
            arr = np.ravel(sd)
            return math.sqrt(arr.size) * max(capped(v) for v in arr)
    except Exception:
        return None
    return None


def claims_convergence(mda, qn_flags, tol=None):
    """Whether the MDA itself says it met its tolerance (``qn_flags``: SciPy success flags of this execute).

    A stage of a sequence only counts when it met the tolerance requested for the *sequence* (``tol``)."""
    name = type(mda).__name__
    if name == "MDAChain":
        return all(claims_convergence(m, qn_flags) for m in mda.inner_mdas)
    if hasattr(mda, "mda_sequence"):
        seq_tol = mda.settings.tolerance
        return any(claims_convergence(m, qn_flags, seq_tol) for m in mda.mda_sequence)
    if name == "MDAQuasiNewton":
        own = mda.settings.tolerance
        return bool(qn_flags) and all(qn_flags) and (tol is None or own <= tol)
    return bool(mda.normed_residual <= (mda.settings.tolerance if tol is None else min(tol, mda.settings.tolerance)))


# --------------------------------------------------------------------------- a-priori facts
def relaxed_rate(L, omega, nonstrong_extra=0):
    """Worst-case contraction rate per iteration of x+ = w G(x_n) + (1-w) G(x_{n-1}) (two-step when w != 1)."""
    if omega == 1.0:
        return L
    return math.sqrt(min(1.0, (omega + abs(1.0 - omega)) * L)) if (omega + abs(1.0 - omega)) * L < 1 else 1.0


def leaf_guaranteed(cls_name, settings, system, tol, max_iter=MAX_ITER):
    accel = settings.get("acceleration_method", "NoTransformation")
    omega = float(settings.get("over_relaxation_factor", 1.0))
    L = system.spec["L"]
    if cls_name in FIXED_POINT:
        if accel != "NoTransformation":
            return False
        rho = relaxed_rate(L, omega)
        if rho >= 1.0:
            return False
        need = math.log(tol * 1e-3) / math.log(rho) + 2 * len(system.discs) + 5
        return need <= 0.8 * min(max_iter, int(settings.get("max_mda_iter", max_iter)))
    if cls_name == "MDANewtonRaphson":
        return (not system.nonlinear) and accel == "NoTransformation" and omega == 1.0 and max_iter >= 5
    return False


def leaf_safe(cls_name, settings, system):
    """The solver cannot run away from a finite starting point (so that a following solver starts from a sane point)."""
    accel = settings.get("acceleration_method", "NoTransformation")
    omega = float(settings.get("over_relaxation_factor", 1.0))
    if cls_name in FIXED_POINT:
        return accel == "NoTransformation" and relaxed_rate(system.spec["L"], omega) < 1.0
    if cls_name == "MDANewtonRaphson":
        return (not system.nonlinear) and accel == "NoTransformation" and omega == 1.0
    return False


def sequence_guaranteed(seq, system, tol, max_iter=MAX_ITER):
    """``seq``: list of (class name, settings).  The first guaranteed solver must be reached through safe ones."""
    for cls_name, settings in seq:
        own = settings.get("tolerance")
        if (own is None or own <= tol) and leaf_guaranteed(cls_name, settings, system, tol, max_iter):
            return True
        if not leaf_safe(cls_name, settings, system):
            return False
    return False


def guaranteed(cfg, system, tol, max_iter=MAX_ITER):
    c = cfg["cls"]
    if c in FIXED_POINT or c == "MDANewtonRaphson":
        return leaf_guaranteed(c, cfg["settings"], system, tol, max_iter)
    if c == "MDAGSNewton":
        return sequence_guaranteed([("MDAGaussSeidel", cfg["settings"].get("gauss_seidel_settings", {})),
                                    ("MDANewtonRaphson", cfg["settings"].get("newton_settings", {}))], system, tol,
                                   max_iter)
    if c == "MDASequential":
        return sequence_guaranteed([(s["cls"], s["settings"]) for s in cfg["seq"]], system, tol, max_iter)
    if c == "MDAChain":
        inner = cfg["settings"].get("inner_mda_name", "MDAJacobi")
        ist = cfg["settings"].get("inner_mda_settings", {})
        if inner == "MDAGSNewton":
            return sequence_guaranteed([("MDAGaussSeidel", {}), ("MDANewtonRaphson", {})], system, tol, max_iter)
        return leaf_guaranteed(inner, ist, system, tol, max_iter)
    return False


def output_lipschitz(system, sol):
    """Max-norm Lipschitz constant of each output w.r.t. the coupling inputs near the solution (upper bound)."""
    lip = {}
    for d in system.discs:
        lip[d["y"][0]] = 1.0
        if "f" in d:
            rows = np.zeros(d["f"][1])
            usum = 0.0
            for nm, _ in d["inputs"]:
                rows = rows + np.abs(np.array(d["B"][nm])).sum(axis=1)
                usum += float(np.sum(np.abs(sol[nm])))
            lip[d["f"][0]] = 1.0 + float(rows.max()) + float(d.get("q", 0.0)) * (usum + 1.0)
    return lip


def apriori_scale(system, data0, sol):
    """``(N, cap)``: number of coupling components and the a-priori bound on any first residual norm."""
    N = sum(system.sizes[nm] for nm in system.couplings)
    r0 = max(float(np.max(np.abs(np.asarray(data0[nm]) - sol[nm]))) for nm in system.couplings)
    return N, 4.0 * math.sqrt(N) * (1.0 + system.spec["L"]) * r0


# --------------------------------------------------------------------------- oracle
def features(case, system):
    cfg = case["cfg"]
    f = []
    if cs.weak_disciplines(system):
        f.append("weak-disciplines")
    if any(a == b for a, b in system.edges):
        f.append("self-coupled")

    def walk(st):
        if st.get("acceleration_method", "NoTransformation") != "NoTransformation":
            f.append("accel")
        if float(st.get("over_relaxation_factor", 1.0)) != 1.0:
            f.append("relax")
        for v in st.values():
            if isinstance(v, dict):
                walk(v)

    walk(cfg.get("settings", {}))
    for s in cfg.get("seq", []):
        walk(s["settings"])
    if cfg.get("scaling") and cfg["scaling"] != "initial_residual_norm":
        f.append("scaling=" + cfg["scaling"])
    if cfg.get("matrix_type") == "linear_operator":
        f.append("linop")
    if any("tolerance" in s_["settings"] for s_ in cfg.get("seq", [])):
        f.append("stage-with-own-tolerance")
    re_ = case.get("reassign")
    if re_:
        f.append("settings-reassigned-" + re_["when"].replace("_", "-") + "="
                 + "&".join(k for k in ("tolerance", "max_mda_iter") if re_.get(k) is not None))
    return "+".join(sorted(set(f))) or "plain"


def class_label(cfg):
    if cfg["cls"] == "MDAChain":
        return "MDAChain[" + cfg["settings"].get("inner_mda_name", "MDAJacobi") + "]"
    if cfg["cls"] == "MDASequential":
        return "MDASequential[" + ",".join(s["cls"] for s in cfg["seq"]) + "]"
    if cfg["cls"] == "MDAQuasiNewton":
        return "MDAQuasiNewton[" + cfg["settings"].get("method", "hybr") + "]"
    return cfg["cls"]


def judge_output(system, out, inputs, sol, base, lip):
    """Evaluate clauses (1)-(3) on returned data; return a list of (clause, name, observed, bound)."""
    failures = []
    data = {k: np.asarray(v, dtype=float) for k, v in inputs.items()}
    names = system.couplings + system.f_names
    for nm in names:
        if nm not in out:
            failures.append(("output-present", nm, "missing", "present"))
            return failures, None
        v = np.asarray(out[nm])
        if v.shape != (system.sizes[nm],) or not np.all(np.isfinite(np.real(v))) or np.any(np.imag(v) != 0):
            failures.append(("output-finite-real-vector", nm, v, [system.sizes[nm]]))
            return failures, None
        data[nm] = np.real(v).astype(float)
    worst = 0.0
    for d in system.discs:
        ev = system.eval_disc(d, data)
        for nm, v in ev.items():
            r = float(np.max(np.abs(v - data[nm])))
            worst = max(worst, r / (base * lip[nm]))
            if r > base * lip[nm]:
                failures.append(("fixed-point-residual", nm, r, base * lip[nm]))
    L = system.spec["L"]
    for nm in names:
        e = float(np.max(np.abs(data[nm] - sol[nm])))
        b = base * lip[nm] / (1.0 - L)
        if e > b:
            failures.append(("distance-to-exact-coupling" if nm in system.couplings else "non-coupling-output-at-solution",
                             nm, e, b))
    return failures, worst


def run_case(case, rep, *, quiet=False, count=True):
    """Execute one case; returns ``"ok" | "refused" | "inconclusive" | "violated"``."""
    _quiet()
    _patch_root()
    system = gs.CoupledSystem(case["spec"])
    cfg = case["cfg"]
    label = class_label(cfg)
    feat = features(case, system)
    tol_final = case["tol"]
    in_cycles = cs.all_in_cycles(system)
    # settings given to the constructor vs settings in force at execution time (the oracle uses the latter)
    re_ = case.get("reassign") or {}
    tol_build = re_["tolerance"] if re_.get("tolerance") is not None else tol_final
    mi_build = re_["max_mda_iter"] if re_.get("max_mda_iter") is not None else MAX_ITER

    # ---- construction (documented domain)
    try:
        mda, discs = build_mda(case, system, tol_build, mi_build)
    except ValueError as e:
        msg = str(e)
        refusing = cfg["cls"] in ("MDANewtonRaphson", "MDAGSNewton") or (
            cfg["cls"] == "MDASequential" and any(s["cls"] == "MDANewtonRaphson" for s in cfg["seq"]))
        if refusing and not in_cycles and ("weakly coupled" in msg or "no couplings" in msg):
            if count:
                rep.count("expected_refusals")
            return "refused"
        rep.violation(f"C06:{label}:constructor-exception:ValueError:{feat}", "constructs on a well-posed system", case,
                      observed=f"ValueError: {msg}", expected="an MDA instance")
        return "violated"
    except Exception as e:
        rep.violation(f"C06:{label}:constructor-exception:{type(e).__name__}:{feat}", "constructs on a well-posed system",
                      case, observed=f"{type(e).__name__}: {e}", expected="an MDA instance")
        return "violated"
    if cfg["cls"] in ("MDANewtonRaphson", "MDAGSNewton") and not in_cycles:
        rep.observe("newton-accepted-weakly-coupled-disciplines", {"kind": case["spec"]["kind"], "cls": cfg["cls"]})
        return "refused"

    status = "ok"
    n_first = 0
    runs = [case["inputs"]] + ([case["inputs2"]] if case.get("inputs2") else [])
    data0 = {nm: np.array(case["defaults"].get(nm, np.zeros(system.sizes[nm])), dtype=float) for nm in system.couplings}
    N, cap = None, None
    tol, max_iter = tol_build, mi_build  # in force
    for k, inputs in enumerate(runs):
        if re_ and ((k == 0 and re_["when"] == "before_first") or (k == 1 and re_["when"] == "before_second")):
            try:
                apply_settings(mda, cfg, tol_final if re_.get("tolerance") is not None else None,
                               MAX_ITER if re_.get("max_mda_iter") is not None else None)
            except Exception as e:
                rep.violation(f"C06:{label}:settings-assignment-exception:{type(e).__name__}", "settings can be re-assigned",
                              case, observed=f"{type(e).__name__}: {e}", expected="assignment accepted")
                return "violated"
            tol, max_iter = tol_final, MAX_ITER
            if count:
                rep.count("settings_reassigned_after_construction")
                rep.count("settings_reassigned:" + (cfg["cls"] if cfg["cls"] in ("MDAChain", "MDAGSNewton", "MDASequential")
                                                     else "elementary-solver"))
                rep.count("settings_reassigned_" + re_["when"] + "_execution")
                for nm_ in ("tolerance", "max_mda_iter"):
                    if re_.get(nm_) is not None:
                        rep.count("settings_reassigned:" + nm_)
                # non-verdict monitor: what the elementary solvers hold after the assignment
                for leaf in leaves(mda):
                    if re_.get("tolerance") is not None and leaf.settings.tolerance != tol_final:
                        rep.observe("inner-solver-tolerance-differs-from-reassigned-value",
                                    {"cls": cfg["cls"], "leaf": type(leaf).__name__, "leaf_tolerance": leaf.settings.tolerance,
                                     "assigned": tol_final})
        pair_ok = guaranteed(cfg, system, tol, max_iter)
        inp = {nm: np.array(v, dtype=float) for nm, v in inputs.items()}
        sol = system.solve(inp)
        if k == 0:
            N, cap = apriori_scale(system, data0, sol)
        del _QN_RESULTS[:]
        try:
            out = mda.execute({nm: v.copy() for nm, v in inp.items()})
        except Exception as e:
            if _linear_solver_breakdown(cfg, e):
                # a Krylov solver chosen by the case broke down (SciPy info < 0, raised by gemseo's wrapper as
                # documented): the pair (solver, system) has no guarantee, the case is not judged
                if count:
                    rep.count("newton_linear_solver_breakdown_not_judged")
                rep.observe("newton-krylov-solver-breakdown", {"cfg": cfg, "kind": case["spec"]["kind"]})
                return "inconclusive"
            if not pair_ok and _diverged(mda, system, sol, discs):
                # an algorithm/system pair without convergence guarantee ran away to huge or non-finite iterates and
                # something downstream (e.g. the Newton linear solver) refused them: not judged
                if count:
                    rep.count("no_guarantee_diverged_then_raised")
                rep.observe("no-guarantee-pair-diverged-then-raised", {"cfg": cfg, "error": f"{type(e).__name__}: {e}"[:200]})
                return "inconclusive"
            sig = classify_exception(case, system, e) or f"C06:{label}:execute-exception:{type(e).__name__}:{feat}"
            rep.violation(sig, "execute returns", case,
                          observed=f"{type(e).__name__}: {e}", expected="output data", msg=f"execution #{k}")
            return "violated"
        qn_flags = list(_QN_RESULTS)
        out = {nm: np.array(v) for nm, v in out.items() if nm in system.sizes}
        # ---- scale of the requested tolerance
        scales = []
        rescaled = False
        for leaf in leaves(mda):
            if type(leaf).__name__ == "MDAQuasiNewton":
                ystar = math.sqrt(sum(float(np.sum(sol[nm] ** 2)) for nm in system.couplings))
                scales.append(1.0 + ystar + cap)
            else:
                s_ = leaf_scale(leaf, cap)
                if s_ is not None:
                    scales.append(s_)
                    raw = leaf_scale(leaf, math.inf)
                    if raw is not None and raw > cap and raw != 1.0 and str(getattr(leaf, "scaling", "")) not in (
                            "no_scaling", "n_coupling_variables"):
                        rescaled = True
        s = max(scales) if scales else max(cap, 1.0)
        mag = 1.0 + max(float(np.max(np.abs(v))) for v in sol.values())
        floor = 512 * EPS * mag * (1 + len(system.discs))
        base = max(K * tol * s, floor)
        lip = output_lipschitz(system, sol)
        failures, worst = judge_output(system, out, inp, sol, base, lip)
        claims = claims_convergence(mda, qn_flags)
        for leaf in leaves(mda):
            nr = getattr(leaf, "normed_residual", 0.0)
            if isinstance(nr, float) and nr != nr:
                rep.observe("normed_residual-is-nan", {"cls": type(leaf).__name__, "scaling": cfg.get("scaling"),
                                                       "kind": case["spec"]["kind"]})
        if count:
            rep.count("executions_judged")
            rep.count("fixed_point_oracle_evaluations", len(system.couplings) + len(system.f_names))
            rep.count("exact_solution_oracle_evaluations", len(system.couplings) + len(system.f_names))
            rep.count("claims_convergence" if claims else "stopped_without_claim")
            if k == 1:
                rep.count("warm_start_second_executions" if _warm(cfg) else "plain_second_executions")
            if base == floor:
                rep.count("bound_is_rounding_floor")
            if s < 1e-2:
                rep.count("small_scale_cases")
            if worst is not None and worst > 1e-3:
                rep.count("residual_within_3_decades_of_bound")
            ml = [l for l in leaves(mda) if type(l).__name__ != "MDAQuasiNewton" and hasattr(l, "normed_residual")]
            if ml and claims:
                rep.count("normed_residual_below_tol_recorded")
        if failures and rescaled and not pair_ok:
            # a solver without convergence guarantee ran away, and a later solver fixed its reference residual at that
            # far-away point: it may legitimately "converge" relatively to it (documented scaling); not judged
            if count:
                rep.count("no_guarantee_runaway_then_rescaled")
            rep.observe("no-guarantee-stage-ran-away-next-stage-converged-relative-to-huge-initial-residual",
                        {"cfg": cfg, "kind": case["spec"]["kind"]})
            status = "inconclusive"
            break
        if failures and not claims and not pair_ok:
            if count:
                rep.count("no_guarantee_stopped_on_cap")
                rep.count(f"no_guarantee_stopped_on_cap:{cfg['cls']}")
            status = "inconclusive"
            break
        if failures:
            clause, nm, obs, bound = failures[0]
            if not claims:
                clause = "bounded-progress:" + clause
            sig = None
            if not quiet:
                sig = classify_gs(case, system, rep) or classify_qn(case, system, rep, failures)
            sig = sig or f"C06:{label}:{clause}:{feat}" + (":second-execution" if k == 1 else "")
            rep.violation(sig, clause, case,
                          observed={"variable": nm, "value": obs, "returned": out.get(nm), "claims_convergence": claims,
                                    "all_failures": [(c, n) for c, n, _, _ in failures][:12], "execution": k,
                                    "iterations": [len(getattr(l, "residual_history", [])) for l in leaves(mda)]},
                          expected={"bound": bound, "exact": sol.get(nm), "tol": tol, "scale": s, "K": K},
                          msg=f"{label} order={case['order']} kind={case['spec']['kind']}")
            return "violated"
        # ---- literal twin re-execution through gemseo disciplines (plumbing check of the same clause)
        if count and case.get("twin"):
            twins = system.make_disciplines()
            data = dict(inp)
            data.update({nm: np.real(v).astype(float) for nm, v in out.items()})
            for td in twins:
                o = td.execute({nm: data[nm] for nm, _ in td.d["inputs"]})
                for nm in [td.d["y"][0]] + ([td.d["f"][0]] if "f" in td.d else []):
                    rep.count("twin_discipline_reexecutions")
                    if float(np.max(np.abs(o[nm] - data[nm]))) > base * lip[nm]:
                        rep.violation(f"C06:{label}:twin-reexecution:{feat}", "fixed-point-residual (gemseo twin)", case,
                                      observed=o[nm], expected=data[nm])
                        return "violated"
        # ---- non-verdict monitor: a plain re-execution behaves like a fresh instance (outside the statement, which
        # allows the number of iterations to change; recorded because a transformer state leaking from one execution
        # to the next is invisible in the solution)
        if (count and k == 1 and not re_ and not _warm(cfg) and cfg["cls"] in FIXED_POINT and "accel" in feat
                and cfg.get("scaling") in ("no_scaling", "n_coupling_variables") and claims):
            fresh_case = dict(case, inputs=case["inputs2"])
            fresh_case.pop("inputs2")
            try:
                fresh, _ = build_mda(fresh_case, system)
                fresh.execute({nm: v.copy() for nm, v in inp.items()})
                n_fresh = len(fresh.residual_history)
                n_again = len(mda.residual_history) - n_first
                rep.count("reexecution_vs_fresh_instance_compared")
                if n_fresh != n_again:
                    rep.observe("reexecution-iteration-count-differs-from-fresh-instance",
                                {"cls": cfg["cls"], "settings": cfg["settings"], "fresh": n_fresh, "again": n_again})
            except Exception as e:  # monitor only
                rep.observe("reexecution-monitor-error", f"{type(e).__name__}: {e}"[:200])
        if k == 0:
            n_first = len(getattr(mda, "residual_history", []))
    return status


def _warm(cfg):
    if cfg.get("settings", {}).get("warm_start"):
        return True
    return any(s["settings"].get("warm_start") for s in cfg.get("seq", []))


def _uses_gs_on_full_list(cfg):
    if cfg["cls"] in ("MDAGaussSeidel", "MDAGSNewton"):
        return True
    return cfg["cls"] == "MDASequential" and any(s["cls"] == "MDAGaussSeidel" for s in cfg["seq"])


def _diverged(mda, system, sol, discs=()):
    big = 1e6 * (1.0 + max(float(np.max(np.abs(sol[nm]))) for nm in system.couplings))
    for m in [mda, *leaves(mda), *discs]:
        try:
            data = m.io.data
        except Exception:
            continue
        for nm in system.couplings:
            v = data.get(nm)
            if v is None:
                continue
            v = np.asarray(v)
            if v.dtype.kind in "fc" and (not np.all(np.isfinite(v)) or float(np.max(np.abs(v))) > big):
                return True
    return False


def _linear_solver_breakdown(cfg, exc):
    if not isinstance(exc, RuntimeError) or "breakdown" not in str(exc):
        return False
    names = set()

    def walk(st):
        for k, v in st.items():
            if k == "newton_linear_solver_name":
                names.add(v)
            elif isinstance(v, dict):
                walk(v)

    walk(cfg.get("settings", {}))
    for s_ in cfg.get("seq", []):
        walk(s_["settings"])
    return bool(names & {"BICG", "BICGSTAB", "CGS", "TFQMR", "GCROT"})


def classify_exception(case, system, exc):
    """Narrow classifiers of the two exception mechanisms found on the unchanged tree."""
    cfg = case["cfg"]
    msg = str(exc)
    # MDASequential replaces its data by the data of the last sub-MDA it ran; MDAQuasiNewton with a method that has no
    # callback removed "MDA residuals norm" from its outputs, so the output validation of MDASequential fails
    if (type(exc).__name__ == "InvalidDataError" and "MDA residuals norm" in msg and cfg["cls"] == "MDASequential"
            and any(s_["cls"] == "MDAQuasiNewton" and s_["settings"].get("method", "hybr") not in ("broyden1", "broyden2")
                    for s_ in cfg["seq"])):
        return SIG_SEQ_NORM
    # MDAGaussSeidel resolves the strong couplings only; without any cycle its residual vector is empty and three of
    # the residual scalings cannot reduce an empty vector
    if (_uses_gs_on_full_list(cfg) and not system.strong_coupling_names()
            and cfg.get("scaling") in ("initial_subresidual_norm", "initial_residual_component",
                                       "scaled_initial_residual_component")
            and isinstance(exc, (ValueError, ZeroDivisionError))
            and ("iterable argument is empty" in msg or "zero-size array" in msg or "division by zero" in msg)):
        return SIG_EMPTY
    return None


def _qn_settings(cfg):
    """The settings dicts of the quasi-Newton solvers of ``cfg`` (references, so that a twin can edit them)."""
    out = []
    if cfg["cls"] == "MDAQuasiNewton":
        out.append(cfg["settings"])
    if cfg["cls"] == "MDAChain" and cfg["settings"].get("inner_mda_name") == "MDAQuasiNewton":
        out.append(cfg["settings"].setdefault("inner_mda_settings", {}))
    for s_ in cfg.get("seq", []):
        if s_["cls"] == "MDAQuasiNewton":
            out.append(s_["settings"])
    return out


def classify_qn(case, system, rep, failures):
    """Narrow classifier: MDAQuasiNewton returns the couplings of SciPy's solution but the other outputs of the last
    point SciPy evaluated (for lm/hybr without analytic Jacobian: a finite-difference perturbation of the solution).

    Given only when (a) a quasi-Newton solver with method lm or hybr and ``use_gradient=False`` is involved,
    (b) every failing clause concerns a non-coupling output and (c) the same case passes with ``use_gradient=True``
    (no finite-difference evaluations)."""
    sts = [st for st in _qn_settings(case["cfg"])
           if st.get("method", "hybr") in ("lm", "hybr") and not st.get("use_gradient", False)]
    if not sts or any(nm in system.couplings for _, nm, _, _ in failures):
        return None
    twin = copy.deepcopy(case)
    twin["twin"] = False
    for st in _qn_settings(twin["cfg"]):
        if st.get("method", "hybr") in ("lm", "hybr"):
            st["use_gradient"] = True
    scratch = Reporter(PID)
    res = run_case(twin, scratch, quiet=True, count=False)
    rep.count("qn_defect_classifier_reruns")
    if res == "ok" and not scratch.violations:
        return SIG_QN_TRIAL
    return None


def classify_gs(case, system, rep):
    """Narrow classifier of the known Gauss-Seidel defect.

    The signature is given only when (a) an MDAGaussSeidel sweeps the full discipline list, (b) some
    coupling between two different SCCs has its consumer listed before its producer, and (c) the very
    same case passes once the list is rearranged along the data flow (relative order inside every SCC
    unchanged).  Any other failure keeps its own signature.
    """
    if not _uses_gs_on_full_list(case["cfg"]):
        return None
    if not cs.edges_against_order(system, case["order"]):
        return None
    twin = copy.deepcopy(case)
    twin["order"] = cs.flow_order(system, case["order"])
    twin["twin"] = False
    scratch = Reporter(PID)
    res = run_case(twin, scratch, quiet=True, count=False)
    rep.count("gs_defect_classifier_reruns")
    if res == "ok" and not scratch.violations:
        return KNOWN_GS
    return None


# --------------------------------------------------------------------------- generation
def gen_settings_fixed_point(rng, rich=True):
    st = {}
    r = rng.random()
    if r < 0.55:
        st["acceleration_method"] = str(rng.choice(ACCELERATIONS[1:]))
    r = rng.random()
    if r < 0.25:
        st["over_relaxation_factor"] = 0.7
    elif r < 0.45:
        st["over_relaxation_factor"] = 1.3
    return st


def gen_cfg(rng, system):
    """Draw an MDA configuration valid for ``system`` (or a documented refusal, with small probability)."""
    in_cycles = cs.all_in_cycles(system)
    r = rng.random()
    cfg = {"settings": {}}
    if r < 0.17:
        cfg["cls"] = "MDAJacobi"
        cfg["settings"] = gen_settings_fixed_point(rng)
        cfg["settings"]["n_processes"] = 2 if rng.random() < 0.05 else 1
    elif r < 0.36:
        cfg["cls"] = "MDAGaussSeidel"
        cfg["settings"] = gen_settings_fixed_point(rng)
    elif r < 0.50:
        cfg["cls"] = "MDANewtonRaphson"
        st = {"n_processes": 2 if rng.random() < 0.05 else 1}
        if rng.random() < 0.5:
            st["newton_linear_solver_name"] = str(rng.choice(NEWTON_SOLVERS))
        if rng.random() < 0.2:
            st["over_relaxation_factor"] = float(rng.choice([0.7, 1.3]))
        if rng.random() < 0.2:
            st["acceleration_method"] = str(rng.choice(ACCELERATIONS[1:]))
        cfg["settings"] = st
        if rng.random() < 0.3:
            cfg["matrix_type"] = "linear_operator"
    elif r < 0.60:
        cfg["cls"] = "MDAQuasiNewton"
        m = str(rng.choice(QN_METHODS[:7])) if rng.random() < 0.85 else str(rng.choice(QN_METHODS[7:]))
        st = {"method": m, "n_processes": 1}
        if m in ("hybr", "lm") and rng.random() < 0.5:
            st["use_gradient"] = True
        cfg["settings"] = st
    elif r < 0.68:
        cfg["cls"] = "MDAGSNewton"
        st = {}
        if rng.random() < 0.4:
            st["gauss_seidel_settings"] = gen_settings_fixed_point(rng)
        if rng.random() < 0.4:
            st["newton_settings"] = {"newton_linear_solver_name": str(rng.choice(NEWTON_SOLVERS)), "n_processes": 1}
        else:
            st["newton_settings"] = {"n_processes": 1}
        cfg["settings"] = st
    elif r < 0.78:
        cfg["cls"] = "MDASequential"
        first = str(rng.choice(["MDAGaussSeidel", "MDAJacobi"]))
        k1 = int(rng.choice([1, 2, 3, 5, 300]))
        fst = {"max_mda_iter": k1}
        if rng.random() < 0.5:
            # the first stage is built with its own loose tolerance; the sequence is judged against its own one
            fst["tolerance"] = float(rng.choice([1e-1, 1e-2, 1e-3]))
            if rng.random() < 0.5:
                fst["max_mda_iter"] = int(rng.choice([20, 50, 300]))
        if first == "MDAJacobi":
            fst["n_processes"] = 1
        pool = ["MDAJacobi", "MDAGaussSeidel"] + (["MDANewtonRaphson", "MDAQuasiNewton"] if in_cycles else [])
        if not in_cycles and rng.random() < 0.1:
            pool = ["MDANewtonRaphson"]  # documented refusal
        second = str(rng.choice(pool))
        sst = {}
        if second in ("MDAJacobi", "MDANewtonRaphson", "MDAQuasiNewton"):
            sst["n_processes"] = 1
        if second in FIXED_POINT and rng.random() < 0.4:
            sst.update(gen_settings_fixed_point(rng))
        if second == "MDAQuasiNewton":
            sst["method"] = str(rng.choice(QN_METHODS[:4]))
        cfg["seq"] = [{"cls": first, "settings": fst}, {"cls": second, "settings": sst}]
    else:
        cfg["cls"] = "MDAChain"
        inner = str(rng.choice(["MDAJacobi", "MDAGaussSeidel", "MDANewtonRaphson", "MDAQuasiNewton", "MDAGSNewton"]))
        ist = {}
        if inner in FIXED_POINT:
            ist = gen_settings_fixed_point(rng)
        if inner in ("MDAJacobi", "MDANewtonRaphson", "MDAQuasiNewton"):
            ist["n_processes"] = 1
        if inner == "MDANewtonRaphson" and rng.random() < 0.4:
            ist["newton_linear_solver_name"] = str(rng.choice(NEWTON_SOLVERS))
        if inner == "MDAQuasiNewton":
            ist["method"] = str(rng.choice(QN_METHODS[:7]))
        # MDAGSNewton: MDAChain builds MDAGSNewton_Settings from inner_mda_settings, which has no field for the
        # settings of its two solvers; they keep their defaults
        st = {"inner_mda_name": inner, "inner_mda_settings": ist, "n_processes": 1}
        if rng.random() < 0.1:
            st["mdachain_parallelize_tasks"] = True
            st["mdachain_parallel_settings"] = {"use_threading": True, "n_processes": 2}
        cfg["settings"] = st
        if inner == "MDANewtonRaphson" and rng.random() < 0.3:
            cfg["matrix_type"] = "linear_operator"
    # weakly coupled disciplines: route the cycle-only classes through MDAChain most of the time, keep a few
    # direct constructions to observe the documented refusal
    if cfg["cls"] in NEEDS_CYCLES and not in_cycles:
        if cfg["cls"] == "MDAQuasiNewton" or rng.random() < 0.8:
            inner = cfg["cls"]
            ist = {} if inner == "MDAGSNewton" else dict(cfg["settings"])
            cfg = {"cls": "MDAChain", "settings": {"inner_mda_name": inner, "inner_mda_settings": ist, "n_processes": 1},
                   **({"matrix_type": cfg["matrix_type"]} if cfg.get("matrix_type") else {})}
    # residual scaling
    if rng.random() < 0.5:
        cfg["scaling"] = str(rng.choice(SCALINGS))
    # warm start / re-execution
    r = rng.random()
    if r < 0.2:
        if cfg["cls"] == "MDASequential":
            for s in cfg["seq"]:
                s["settings"]["warm_start"] = True
        cfg["settings"]["warm_start"] = True
        cfg["second"] = True
    elif r < 0.35:
        cfg["second"] = True
    return cfg


def gen_system(rng):
    if rng.random() < 0.55:
        return gs.random_system(rng)
    return cs.extra_system(rng)


def gen_orders(rng, n, k):
    ident = list(range(n))
    orders = [ident]
    if n > 1:
        orders.append(ident[::-1])
    tries = 0
    while len(orders) < k and tries < 20:
        p = [int(v) for v in rng.permutation(n)]
        tries += 1
        if p not in orders:
            orders.append(p)
    return orders


def gen_start(rng, system, sol):
    """Default values of the couplings: zero, random, or close to the solution (small reference residual)."""
    r = rng.random()
    if r < 0.5:
        return "zero", {}
    if r < 0.75:
        return "random", {nm: np.round(rng.uniform(-1, 1, system.sizes[nm]), 3).tolist() for nm in system.couplings}
    h = float(rng.choice([1e-2, 1e-3, 1e-4]))
    return "close", {nm: (sol[nm] + h * rng.uniform(-1, 1, system.sizes[nm])).tolist() for nm in system.couplings}


def gen_cases_for_system(rng, n_orders, n_cfg):
    spec = gen_system(rng)
    system = gs.CoupledSystem(spec)
    inputs = {k: v.tolist() for k, v in system.default_inputs(rng).items()}
    sol = system.solve({k: np.array(v) for k, v in inputs.items()})
    cases = []
    for order in gen_orders(rng, spec["n"], n_orders):
        for _ in range(n_cfg):
            cfg = gen_cfg(rng, system)
            kind, defaults = gen_start(rng, system, sol)
            tol = float(rng.choice([1e-8, 1e-10, 1e-10, 1e-12])) if kind != "close" else float(rng.choice([1e-6, 1e-8]))
            case = {"spec": spec, "inputs": inputs, "order": order, "cfg": cfg, "tol": tol, "start": kind,
                    "defaults": defaults, "sparse": bool(rng.random() < 0.15), "twin": bool(rng.random() < 0.2)}
            # settings re-assigned after construction (before the first or the second execution)
            p_re = 0.35 if cfg["cls"] in ("MDAChain", "MDAGSNewton", "MDASequential") else 0.15
            if rng.random() < p_re:
                re_ = {"when": "before_first" if rng.random() < 0.7 else "before_second", "tolerance": None,
                       "max_mda_iter": None}
                which = int(rng.integers(3))
                if which != 1 or re_["when"] == "before_second":
                    re_["tolerance"] = float(rng.choice([1e-1, 1e-2, 1e-3]))
                if which != 0 and re_["when"] == "before_first":
                    re_["max_mda_iter"] = int(rng.choice([1, 2, 3, 5]))
                if re_["when"] == "before_second":
                    cfg["second"] = True
                case["reassign"] = re_
            if cfg.get("second"):
                case["inputs2"] = {k: (np.array(v) + np.round(rng.uniform(-0.05, 0.05, len(v)), 4)).tolist()
                                   for k, v in inputs.items()}
            cases.append(case)
    return cases


def case_signature(case, system):
    cfg = case["cfg"]
    spec = case["spec"]
    order = case["order"]
    n = spec["n"]
    okind = "identity" if order == list(range(n)) else "reverse" if order == list(range(n))[::-1] else "perm"
    return (spec["kind"], n, spec["nonlinear"], spec["L"], tuple(sorted(system.edges)),
            tuple(system.sizes[nm] for nm in system.couplings), okind, bool(cs.edges_against_order(system, order)),
            class_label(cfg), repr(sorted(_flat(cfg.get("settings", {})))), repr([sorted(_flat(s["settings"])) for s in cfg.get("seq", [])]),
            cfg.get("scaling"), cfg.get("matrix_type"), case["tol"], case["start"], bool(case.get("inputs2")),
            case.get("sparse", False), repr(sorted((case.get("reassign") or {}).items())))


def _flat(d, prefix=""):
    out = []
    for k, v in d.items():
        if isinstance(v, dict):
            out += _flat(v, prefix + k + ".")
        else:
            out.append((prefix + k, str(v)))
    return out


# --------------------------------------------------------------------------- directed cases
def _lin_disc(i, ins, A, c, f=None):
    d = {"name": f"D{i}", "inputs": [[nm, 1] for nm in ins], "y": [f"y{i}", 1],
         "A": {nm: [[A[k]]] for k, nm in enumerate(ins)}, "c": [c]}
    if f:
        d["f"] = [f"f{i}", 1]
        d["B"] = {nm: [[f[k]]] for k, nm in enumerate(ins)}
        d["d"] = [0.0]
        d["q"] = 0.0
    return d


def directed_cases():
    """Fixed corners named in DESIGN.md; run in shard 0 of both tiers."""
    out = []
    x = {"x": [1.5]}
    # (a) the probe of DESIGN.md section 4: a purely feed-forward chain of four disciplines, listed in reverse
    chain = {"n": 4, "kind": "directed-chain", "nonlinear": False, "L": 0.8, "x_size": 1, "disciplines": [
        _lin_disc(0, ["x"], [2.0], 0.0),
        _lin_disc(1, ["x", "y0"], [0.0, 0.8], 1.0),
        _lin_disc(2, ["x", "y1"], [0.0, 0.8], 0.0, f=[1.0, 1.0]),
        _lin_disc(3, ["x", "y2"], [0.0, 0.8], -5.0, f=[0.0, 2.0]),
    ]}
    # (b) 2-cycle followed by a tail of two, tail listed first
    mixed = {"n": 4, "kind": "directed-cycle-tail", "nonlinear": False, "L": 0.75, "x_size": 1, "disciplines": [
        _lin_disc(0, ["x", "y1"], [1.0, 0.5], 0.0),
        _lin_disc(1, ["x", "y0"], [0.0, 0.25], 1.0),
        _lin_disc(2, ["x", "y0", "y1"], [0.0, 0.4, 0.35], 0.0),
        _lin_disc(3, ["x", "y2"], [0.0, 0.75], 0.0, f=[0.0, 2.0]),
    ]}
    # (c) one self-coupled discipline alone, and with a tail
    selfc = {"n": 1, "kind": "directed-self", "nonlinear": True, "L": 0.5, "x_size": 1, "disciplines": [
        _lin_disc(0, ["x", "y0"], [0.7, 0.5], 0.1, f=[1.0, 1.0])]}
    selft = {"n": 2, "kind": "directed-self-tail", "nonlinear": False, "L": 0.5, "x_size": 1, "disciplines": [
        _lin_disc(0, ["x", "y0"], [0.7, 0.5], 0.1),
        _lin_disc(1, ["x", "y0"], [0.3, 0.5], 0.0, f=[1.0, -1.0])]}
    # (d) two 2-cycles linked by one weak coupling (every discipline on a cycle: Newton's documented domain)
    twoc = {"n": 4, "kind": "directed-two-cycles", "nonlinear": True, "L": 0.8, "x_size": 1, "disciplines": [
        _lin_disc(0, ["x", "y1"], [1.0, 0.8], 0.0),
        _lin_disc(1, ["x", "y0"], [0.2, -0.6], 0.3),
        _lin_disc(2, ["x", "y1", "y3"], [0.0, 0.4, 0.4], 0.0),
        _lin_disc(3, ["x", "y2"], [0.5, 0.7], -0.2, f=[1.0, 1.0])]}
    base = {"inputs": x, "tol": 1e-10, "start": "zero", "defaults": {}, "sparse": False, "twin": True}

    def add(spec, order, cfg, **kw):
        out.append(dict(base, spec=spec, order=order, cfg=cfg, **kw))

    plain = [
        {"cls": "MDAGaussSeidel", "settings": {}},
        {"cls": "MDAJacobi", "settings": {"n_processes": 1}},
        {"cls": "MDAChain", "settings": {"inner_mda_name": "MDAGaussSeidel", "n_processes": 1}},
        {"cls": "MDAChain", "settings": {"inner_mda_name": "MDANewtonRaphson", "n_processes": 1,
                                         "inner_mda_settings": {"n_processes": 1}}},
        {"cls": "MDAChain", "settings": {"inner_mda_name": "MDAQuasiNewton", "n_processes": 1,
                                         "inner_mda_settings": {"n_processes": 1}}},
        {"cls": "MDASequential", "seq": [{"cls": "MDAGaussSeidel", "settings": {"max_mda_iter": 2}},
                                         {"cls": "MDAJacobi", "settings": {"n_processes": 1}}], "settings": {}},
        {"cls": "MDANewtonRaphson", "settings": {"n_processes": 1}},
        {"cls": "MDAGSNewton", "settings": {"newton_settings": {"n_processes": 1}}},
        {"cls": "MDAQuasiNewton", "settings": {"n_processes": 1, "method": "hybr"}},
        {"cls": "MDAQuasiNewton", "settings": {"n_processes": 1, "method": "broyden1"}},
    ]
    for spec in (chain, mixed):
        for order in ([0, 1, 2, 3], [3, 2, 1, 0], [2, 3, 0, 1], [3, 0, 1, 2]):
            for cfg in plain[:8]:
                add(spec, order, copy.deepcopy(cfg))
    for spec, orders in ((selfc, ([0],)), (selft, ([0, 1], [1, 0])), (twoc, ([0, 1, 2, 3], [3, 2, 1, 0], [2, 0, 3, 1]))):
        for order in orders:
            for cfg in plain:
                add(spec, list(order), copy.deepcopy(cfg))
    # (e) every residual scaling, with a start close to the solution (small reference residual) and far from it
    sys_t = gs.CoupledSystem(twoc)
    sol = sys_t.solve({"x": np.array([1.5])})
    close = {nm: (sol[nm] + 1e-3 * (1 + 0.5 * k)).tolist() for k, nm in enumerate(sys_t.couplings)}
    for scaling in SCALINGS:
        for cfg in plain[:4] + plain[6:8]:
            c = copy.deepcopy(cfg)
            c["scaling"] = scaling
            add(twoc, [0, 1, 2, 3], c, tol=1e-8, start="close", defaults=close)
            add(twoc, [1, 3, 0, 2], copy.deepcopy(c))
    # (g) Gauss-Seidel on the cycle-free chain listed along the flow, with every residual scaling (empty residual)
    for scaling in SCALINGS:
        add(chain, [0, 1, 2, 3], {"cls": "MDAGaussSeidel", "settings": {}, "scaling": scaling})
        add(chain, [0, 1, 2, 3], {"cls": "MDAJacobi", "settings": {"n_processes": 1}, "scaling": scaling})
    # (h) MDASequential ending with each quasi-Newton method (only broyden1/2 output the residual norm)
    for meth in QN_METHODS[:7]:
        add(twoc, [0, 1, 2, 3], {"cls": "MDASequential", "settings": {}, "seq": [
            {"cls": "MDAJacobi", "settings": {"max_mda_iter": 2, "n_processes": 1}},
            {"cls": "MDAQuasiNewton", "settings": {"n_processes": 1, "method": meth}}]})
    # (i) quasi-Newton with a finite-difference Jacobian at a tight tolerance on small linear systems (SciPy's lm ends
    # on a Jacobian evaluation when the residual is exactly zero); use_gradient=True is the control
    for seed in (1003, 1009, 1014):
        rng = np.random.default_rng(seed)
        spec = cs.extra_system(rng, kind="self_tail", n=2, nonlinear=False, L=0.8)
        inputs = {k: v.tolist() for k, v in gs.CoupledSystem(spec).default_inputs(rng).items()}
        for meth, grad in (("lm", False), ("lm", True), ("hybr", False)):
            ist = {"n_processes": 1, "method": meth, "use_gradient": grad}
            add(spec, [0, 1], {"cls": "MDAChain", "settings": {"inner_mda_name": "MDAQuasiNewton", "n_processes": 1,
                                                              "inner_mda_settings": ist}}, tol=1e-12, inputs=inputs)
    # (k) MDASequential whose first stage is built with its own loose tolerance (and cap), last stage tight: the
    # returned couplings must meet the tolerance requested for the sequence
    lin2 = {"n": 2, "kind": "directed-linear-2-cycle", "nonlinear": False, "L": 0.5, "x_size": 1, "disciplines": [
        _lin_disc(0, ["x", "y1"], [1.0, 0.5], 1.0, f=[1.0, 1.0]),
        _lin_disc(1, ["x", "y0"], [-1.0, 0.4], 2.0)]}
    for spec, order, seconds in ((lin2, [0, 1], ("MDANewtonRaphson", "MDAJacobi", "MDAGaussSeidel", "MDAQuasiNewton")),
                                 (twoc, [0, 1, 2, 3], ("MDAJacobi", "MDAGaussSeidel", "MDANewtonRaphson")),
                                 (mixed, [0, 1, 2, 3], ("MDAJacobi", "MDAGaussSeidel"))):
        for first in ("MDAGaussSeidel", "MDAJacobi"):
            for second in seconds:
                for loose, cap_ in ((1e-1, 50), (1e-2, 300), (1e-3, 5)):
                    for scaling in (None, "no_scaling"):
                        fst = {"tolerance": loose, "max_mda_iter": cap_}
                        sst = {}
                        if first == "MDAJacobi":
                            fst["n_processes"] = 1
                        if second in ("MDAJacobi", "MDANewtonRaphson", "MDAQuasiNewton"):
                            sst["n_processes"] = 1
                        if second == "MDAQuasiNewton":
                            sst["method"] = "broyden1"
                        c = {"cls": "MDASequential", "settings": {},
                             "seq": [{"cls": first, "settings": fst}, {"cls": second, "settings": sst}]}
                        if scaling:
                            c["scaling"] = scaling
                        add(spec, list(order), c)
    # (j) settings given loosely to the constructor and re-assigned before the first / the second execution; the
    # composed MDAs must hand the new values to their inner solvers (documented cascade)
    x2b = {"x": [1.45]}
    re_variants = [
        {"when": "before_first", "tolerance": 1e-2, "max_mda_iter": 5},
        {"when": "before_first", "tolerance": 1e-2, "max_mda_iter": None},
        {"when": "before_first", "tolerance": None, "max_mda_iter": 3},
        {"when": "before_second", "tolerance": 1e-2, "max_mda_iter": None},
    ]
    re_cfgs = [
        {"cls": "MDAChain", "settings": {"inner_mda_name": "MDAGaussSeidel", "n_processes": 1}},
        {"cls": "MDAChain", "settings": {"inner_mda_name": "MDAJacobi", "n_processes": 1,
                                         "inner_mda_settings": {"n_processes": 1}}},
        {"cls": "MDAChain", "settings": {"inner_mda_name": "MDANewtonRaphson", "n_processes": 1,
                                         "inner_mda_settings": {"n_processes": 1}}},
        {"cls": "MDAChain", "settings": {"inner_mda_name": "MDAQuasiNewton", "n_processes": 1,
                                         "inner_mda_settings": {"n_processes": 1, "method": "broyden1"}}},
        {"cls": "MDAChain", "settings": {"inner_mda_name": "MDAGSNewton", "n_processes": 1}},
        {"cls": "MDASequential", "settings": {}, "seq": [{"cls": "MDAGaussSeidel", "settings": {"max_mda_iter": 2}},
                                                         {"cls": "MDAJacobi", "settings": {"n_processes": 1}}]},
        {"cls": "MDAGaussSeidel", "settings": {}},
        {"cls": "MDAJacobi", "settings": {"n_processes": 1}},
        {"cls": "MDAGSNewton", "settings": {"newton_settings": {"n_processes": 1}}},
        {"cls": "MDANewtonRaphson", "settings": {"n_processes": 1}},
    ]
    for spec, cfgs in ((twoc, re_cfgs), (mixed, re_cfgs[:8])):
        for cfg in cfgs:
            for rv in re_variants:
                c = copy.deepcopy(cfg)
                kw = {"reassign": dict(rv)}
                if rv["when"] == "before_second":
                    c["second"] = True
                    kw["inputs2"] = x2b
                add(spec, [0, 1, 2, 3], c, **kw)
    # (f) acceleration x relaxation on the fixed-point solvers, executed twice on the same instance
    x2 = {"x": [1.45]}
    for acc in ACCELERATIONS:
        for om in (0.7, 1.0, 1.3):
            for cname in FIXED_POINT:
                st = {"acceleration_method": acc, "over_relaxation_factor": om}
                if cname == "MDAJacobi":
                    st["n_processes"] = 1
                add(twoc, [0, 1, 2, 3], {"cls": cname, "settings": dict(st), "second": True}, inputs2=x2)
                add(twoc, [0, 1, 2, 3], {"cls": cname, "settings": dict(st, warm_start=True), "second": True}, inputs2=x2)
    return out


# --------------------------------------------------------------------------- entry points
def shards(tier, seed):
    n = 16
    n_sys = {"quick": 14, "thorough": 250}[tier]
    return [{"seed": subseed(seed, "C06", i), "n_systems": n_sys, "n_orders": {"quick": 3, "thorough": 4}[tier],
             "n_cfg": {"quick": 4, "thorough": 5}[tier], "budget_s": {"quick": 200, "thorough": 1500}[tier]}
            for i in range(n)]


def execute_case(case, rep, sample=False):
    system = gs.CoupledSystem(case["spec"])
    rep.case(case_signature(case, system), nontrivial=bool(system.edges))
    res = run_case(case, rep)
    cfg = case["cfg"]
    rep.count("cases:" + cfg["cls"])
    if cs.edges_against_order(system, case["order"]):
        rep.count("cases_with_couplings_listed_against_the_flow")
    if cs.weak_disciplines(system):
        rep.count("cases_with_weakly_coupled_disciplines")
    if len([c for c in system.sccs() if len(c) > 1 or (c[0], c[0]) in system.edges]) > 1:
        rep.count("cases_with_several_sccs")
    if any(a == b for a, b in system.edges):
        rep.count("cases_with_self_coupling")
    if cfg.get("scaling"):
        rep.count("cases_with_explicit_scaling")
    f = features(case, system)
    if "accel" in f:
        rep.count("cases_with_acceleration")
    if "relax" in f:
        rep.count("cases_with_relaxation")
    if case["order"] != list(range(case["spec"]["n"])):
        rep.count("cases_with_permuted_list")
    if case.get("reassign"):
        rep.count("cases_with_settings_reassigned_after_construction")
    if any("tolerance" in s_["settings"] for s_ in cfg.get("seq", [])):
        rep.count("sequences_with_a_stage_built_with_its_own_loose_tolerance")
        rep.count("own_tolerance_stage_then:" + cfg["seq"][-1]["cls"])
    if sample:
        rep.sample({"kind": case["spec"]["kind"], "n": case["spec"]["n"], "nonlinear": case["spec"]["nonlinear"],
                    "L": case["spec"]["L"], "order": case["order"], "cfg": cfg, "tol": case["tol"],
                    "start": case["start"], "result": res,
                    "note": "returned data judged by harness re-evaluation of every discipline and by the exact solution"})
    return res


def run_shard(spec, rep):
    rng = np.random.default_rng(spec["seed"])
    if spec.get("shard", 0) == 0:
        for case in directed_cases():
            execute_case(case, rep)
            rep.count("directed_cases")
    n_done = 0
    for i in range(spec["n_systems"]):
        if rep.time_left() < 0:
            rep.count("stopped_on_time_budget")
            break
        cases = gen_cases_for_system(rng, spec["n_orders"], spec["n_cfg"])
        results = []
        for j, case in enumerate(cases):
            results.append(execute_case(case, rep, sample=(i < 2 and j == 0)))
            n_done += 1
        if sum(r == "ok" for r in results) >= 2:
            # every "ok" run is within its bound of the same exact solution: pairwise agreement of the algorithms
            # and of the list permutations follows; count it so that the evidence shows the comparison happened
            rep.count("systems_with_pairwise_agreement_of_algorithms_and_orders")
        rep.count("systems")


def replay(case, rep):
    res = execute_case(case, rep)
    print("replay result:", res)
