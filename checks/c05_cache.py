"""C05 — discipline caches are transparent.

Monitors (DESIGN.md section 3, C05):

* (M4) differential twin: every ``execute`` / ``linearize`` of a harness discipline under a cache policy is
  compared, call by call, with the same call on an uncached copy (``CacheType.NONE``); the twin itself is
  checked against the closed form it was built from (a mismatch there is a harness error, not a verdict);
* (M1) recorder inside ``_run`` / ``_compute_jacobian`` of the harness discipline: copy of the inputs of every
  body run (=> "at most one run per distinct input" for the full caches, hit counters for all policies);
* (M2) structural invariant of ``BaseFullCache`` read from the private state after every call, without calling
  anything that writes: every index of ``_hashes_to_indices`` lies in ``1..max_index``, appears once, and the
  hash of the stored inputs of that index is the key it is filed under; plus "every stored entry is truthful"
  (stored outputs / Jacobian blocks are those of the stored inputs);
* (M7) census of open HDF5 file objects (``h5py.h5f.get_obj_ids``) and of ``/proc/self/fd`` links to ``*.h5``
  files at quiescent points (after every call on an HDF5-cached discipline) - recorded as an observation,
  because the property statement says nothing about handles;
* (M6) forced hash collisions: for a fraction of the histories ``hash_data`` (as imported by the full caches) is
  replaced by ``real_hash % K`` (K = 1, 2), so that the comparison of the stored inputs is what decides a hit;
* re-opening: a second ``HDF5Cache`` on the same file/node in the same process at random points of a history and a
  fresh interpreter at the end of the shard must serve the entries the first one serves;
* (M8) anchors.
"""

from __future__ import annotations

import json
import os
import subprocess
import sys

import numpy as np

from vlib.gen import functions as gf
from vlib.harness import subseed

PID = "C05"
LEVEL = "exploration"
RULE = (
    "seeded generator of call histories (10-40 operations) on a generated discipline (1-3 inputs of size 1-3, "
    "1-3 outputs, optional self-coupled variable, dense Jacobian or Jacobian blocks in any SciPy sparse container "
    "(csr/csc/coo/lil/dia/bsr/dok, array and matrix flavours, one per discipline or one per block, square and "
    "rectangular blocks), defaults for a subset of the inputs) "
    "under a cache policy (none / SimpleCache / MemoryFullCache shared or not / HDF5Cache with root or nested node; "
    "tolerance 0, 1e-9, 1e-2; real or colliding hash). Operations: execute, linearize(all), linearize after "
    "add_differentiated_* (growing subsets), partially defaulted inputs, calls with caller-owned arrays that are "
    "later edited in place then called with the old and the new value, near-duplicate inputs within / outside the "
    "tolerance (also chained), cache re-open, set_cache, clear, tolerance change, entry listing. A history is "
    "distinct by (policy, tolerance class, hash mode, discipline shape, set of operation kinds) and non-trivial "
    "when at least one input value is requested twice"
)
ASSUMPTIONS = [
    "the harness discipline is a pure function of its inputs (closed form, exact Jacobian); the uncached twin is "
    "checked against that closed form bit for bit",
    "inputs are float64 arrays without NaN and without negative zeros, so equality by value is equality of bytes "
    "(-0.0 vs 0.0 and int vs float inputs are recorded as observations only)",
    "tolerance t>0: an answer is accepted when it is the twin's answer at the requested input or the answer at any "
    "input requested earlier in the same cache epoch that is within t under either reading of the documented "
    "metric (norm(new-cached) <= t*(1+norm(new)) as coded, or t*(1+norm(cached)) as documented), per variable",
    "a change of cache.tolerance in mid-history extends the quantifier: answers are then accepted within the largest "
    "tolerance used since the cache was created / cleared (entries filed under the old tolerance stay)",
    "forced hash collisions replace gemseo.caches.utils.hash_data as imported by base_full_cache and "
    "_hdf5_file_singleton by real_hash % K; a cache that compares the stored inputs is insensitive to it",
    "open HDF5 handles at quiescent points and body re-runs under SimpleCache are outside the statement: observed, "
    "never a verdict",
]
ANCHORS = [
    "gemseo.core.discipline.base_discipline:BaseDiscipline.execute",
    "gemseo.core.discipline.base_discipline:BaseDiscipline.__can_load_cache",
    "gemseo.core.discipline.base_discipline:BaseDiscipline.__create_input_data_for_cache",
    "gemseo.core.discipline.base_discipline:BaseDiscipline._store_cache",
    "gemseo.core.discipline.discipline:Discipline.linearize",
    "gemseo.core.discipline.discipline:Discipline._set_data_from_cache",
    "gemseo.caches.utils:hash_data",
    "gemseo.utils.comparisons:compare_dict_of_arrays",
    "gemseo.caches.base_full_cache:BaseFullCache.__getitem__",
    "gemseo.caches.base_full_cache:BaseFullCache.__ensure_input_data_exists",
    "gemseo.caches.base_full_cache:BaseFullCache._read_input_output_data",
    "gemseo.caches.base_full_cache:BaseFullCache.cache_outputs",
    "gemseo.caches.base_full_cache:BaseFullCache.cache_jacobian",
    "gemseo.caches.simple_cache:SimpleCache.cache_outputs",
    "gemseo.caches.simple_cache:SimpleCache.cache_jacobian",
    "gemseo.caches.simple_cache:SimpleCache.__getitem__",
    "gemseo.caches.memory_full_cache:MemoryFullCache._write_data",
    "gemseo.caches.memory_full_cache:MemoryFullCache._read_data",
    "gemseo.caches.hdf5_cache:HDF5Cache._read_hashes",
    "gemseo.caches._hdf5_file_singleton:HDF5FileSingleton.write_data",
    "gemseo.caches._hdf5_file_singleton:HDF5FileSingleton.read_data",
    "gemseo.caches._hdf5_file_singleton:HDF5FileSingleton.read_hashes",
]
# about half of what seed 0 observes on the unchanged tree (the deciding monitors only)
MIN_COUNTERS = {
    "quick": {"outputs_compared": 4000, "jacobians_compared": 2000, "run_rule_evaluations": 1600,
              "hits_simple": 400, "hits_memory": 1000, "hits_memory_shared": 900, "hits_hdf5": 1300,
              "jacobian_hits_simple": 40, "jacobian_hits_memory": 160, "jacobian_hits_memory_shared": 140,
              "jacobian_hits_hdf5": 200, "invariant_evaluations": 5000, "len_checks": 2200,
              "caller_array_mutations": 180, "calls_with_mutated_caller_arrays": 180, "reopens_in_process": 140,
              "reopened_lookups": 350, "reopens_in_fresh_interpreter": 100, "hdf5_handle_census": 2000,
              "tolerance_hits": 145, "answers_from_a_seen_input_within_tolerance": 210,
              "histories_with_forced_hash_collisions": 60, "calls_partial_inputs": 900,
              "differentiated_subset_growths": 450, "entry_listings_checked": 700, "set_cache_changes": 130,
              "cache_clears": 75, "directed_cases": 268, "square_nonsymmetric_sparse_blocks_served_from_cache": 600,
              "rectangular_sparse_blocks_served_from_cache": 850,
              "linearizations_without_execution": 160,
              "jacobian_only_entries_completed_after_newer_entries_memory": 35,
              "jacobian_only_entries_completed_after_newer_entries_memory_shared": 26,
              "jacobian_only_entries_completed_after_newer_entries_hdf5": 40,
              "outputs_only_entries_completed_after_newer_entries_memory": 120,
              "outputs_only_entries_completed_after_newer_entries_memory_shared": 90,
              "outputs_only_entries_completed_after_newer_entries_hdf5": 120},
    "thorough": {"outputs_compared": 90000, "jacobians_compared": 45000, "run_rule_evaluations": 35000,
                 "hits_simple": 6500, "hits_memory": 22000, "hits_memory_shared": 19000, "hits_hdf5": 29000,
                 "jacobian_hits_simple": 780, "jacobian_hits_memory": 3800, "jacobian_hits_memory_shared": 3100,
                 "jacobian_hits_hdf5": 4600, "invariant_evaluations": 110000, "len_checks": 48000,
                 "caller_array_mutations": 3600, "calls_with_mutated_caller_arrays": 3600, "reopens_in_process": 2300,
                 "reopened_lookups": 8000, "reopens_in_fresh_interpreter": 2100, "hdf5_handle_census": 46000,
                 "tolerance_hits": 3300, "answers_from_a_seen_input_within_tolerance": 4700,
                 "histories_with_forced_hash_collisions": 1000, "calls_partial_inputs": 20000,
                 "differentiated_subset_growths": 9500, "entry_listings_checked": 15000, "set_cache_changes": 2900,
                 "cache_clears": 1500, "directed_cases": 268, "square_nonsymmetric_sparse_blocks_served_from_cache": 4700,
                 "rectangular_sparse_blocks_served_from_cache": 14000,
                 "linearizations_without_execution": 3200,
                 "jacobian_only_entries_completed_after_newer_entries_memory": 640,
                 "jacobian_only_entries_completed_after_newer_entries_memory_shared": 470,
                 "jacobian_only_entries_completed_after_newer_entries_hdf5": 800,
                 "outputs_only_entries_completed_after_newer_entries_memory": 2500,
                 "outputs_only_entries_completed_after_newer_entries_memory_shared": 1850,
                 "outputs_only_entries_completed_after_newer_entries_hdf5": 2900},
}
SHARD_TIMEOUT = {"quick": 900, "thorough": 3600}

POLICIES = ("none", "simple", "memory", "memory_shared", "hdf5")
FULL = ("memory", "memory_shared", "hdf5")
TAG = {"none": "no-cache", "simple": "SimpleCache", "memory": "MemoryFullCache[not-shared]",
       "memory_shared": "MemoryFullCache[shared]", "hdf5": "HDF5Cache"}
ALIAS_SIG = "C05:MemoryFullCache:is_memory_shared=False:stored-inputs-alias-caller-arrays"
SHADOW_SIG = "C05:BaseFullCache:tolerance>0:first-match-without-outputs-shadows-entry-with-outputs"


class HarnessError(RuntimeError):
    """The harness (not gemseo) misbehaved: makes the shard inconclusive."""


class StopHistory(Exception):
    """A violation was reported: the rest of the history would only report its consequences."""


N_SHARDS = 16


def shards(tier, seed):
    n = N_SHARDS
    per = {"quick": 40, "thorough": 900}[tier]
    return [{"seed": subseed(seed, PID, i), "n_hist": per,
             "budget_s": {"quick": 400, "thorough": 2400}[tier]} for i in range(n)]


# =========================================================================== closed form of the harness discipline
def _names(dc):
    return [n for n, _ in dc["ins"]], [n for n, _ in dc["outs"]]


def _x_of(dc, data):
    return np.concatenate([np.asarray(data[n], dtype=float).ravel() for n, _ in dc["ins"]])


def closed_outputs(f, dc, data):
    y = np.asarray(f.value(_x_of(dc, data)), dtype=float)
    out, o = {}, 0
    for n, s in dc["outs"]:
        out[n] = y[o:o + s].copy()
        o += s
    return out


def closed_jacobian(f, dc, data):
    jm = f.jac(_x_of(dc, data))
    jac, o = {}, 0
    for no, so in dc["outs"]:
        jac[no] = {}
        i = 0
        for ni, si in dc["ins"]:
            jac[no][ni] = jm[o:o + so, i:i + si].copy()
            i += si
        o += so
    return jac


def dense(a):
    return np.asarray(a.toarray() if hasattr(a, "toarray") else a)


def same(a, b):
    a, b = dense(a), dense(b)
    return a.shape == b.shape and bool(np.array_equal(a, b))


def key_of(dc, data):
    return tuple((n, np.ascontiguousarray(np.asarray(data[n], dtype=float)).tobytes()) for n, _ in dc["ins"])


def within(q, e, t, names):
    """``e`` (seen earlier) is within tolerance ``t`` of the query ``q`` under either reading of the metric."""
    for n in names:
        d = float(np.linalg.norm(np.asarray(e[n]) - np.asarray(q[n])))
        ref = max(float(np.linalg.norm(q[n])), float(np.linalg.norm(e[n])))
        if d > t * (1.0 + ref) * (1 + 1e-9) + 1e-300:
            return False
    return True


SPARSE_FORMATS = tuple(f"{fmt}_{flavour}" for fmt in ("csr", "csc", "coo", "lil", "dia", "bsr", "dok")
                       for flavour in ("array", "matrix"))
"""Every SciPy sparse container gemseo accepts as a Jacobian block (``sparse_classes`` = ``spmatrix`` and ``sparray``)."""

# per container: blocks served by a cache and compared by value with the uncached twin (all policies / HDF5 only /
# HDF5 and square non-symmetric, where mixing up rows and columns is silent), blocks of listed entries checked
for _tier, _mins in (("quick", (100, 25, 10, 190)), ("thorough", (1450, 500, 90, 3200))):
    for _fmt in SPARSE_FORMATS:
        MIN_COUNTERS[_tier][f"jac_blocks_served_from_cache_{_fmt}"] = _mins[0]
        MIN_COUNTERS[_tier][f"hdf5_jac_blocks_served_{_fmt}"] = _mins[1]
        MIN_COUNTERS[_tier][f"hdf5_square_nonsymmetric_blocks_served_{_fmt}"] = _mins[2]
        MIN_COUNTERS[_tier][f"stored_jac_blocks_checked_{_fmt}"] = _mins[3]


def block_format(dc, o, i):
    """The container of the Jacobian block d``o``/d``i`` of the harness discipline: "dense" or one of SPARSE_FORMATS."""
    if not dc.get("sparse", False):
        return "dense"
    return dc.get("block_formats", {}).get(f"{o}|{i}", "csr_array")  # cases stored before the formats were generated


def make_discipline(dc):
    import scipy.sparse
    from gemseo.core.discipline import Discipline

    f = gf.from_description(dc["func"])
    in_names, out_names = _names(dc)
    sparse = dc.get("sparse", False)
    requested_only = dc.get("jac_requested_only", False)

    class HD(Discipline):
        def __init__(self):
            super().__init__(name="HD")
            self.io.input_grammar.update_from_names(in_names)
            self.io.output_grammar.update_from_names(out_names)
            self.io.input_grammar.defaults = {k: np.array(v, dtype=float) for k, v in dc["defaults"].items()}
            self.run_log = []  # (M1) copies of the inputs of every body run
            self.n_jac = 0

        def _run(self, input_data):
            self.run_log.append({n: np.array(input_data[n], dtype=float, copy=True) for n in in_names})
            return closed_outputs(f, dc, input_data)

        def _compute_jacobian(self, input_names=(), output_names=()):
            self.n_jac += 1
            jac = closed_jacobian(f, dc, {n: np.real(self.io.data[n]) for n in in_names})
            if requested_only and input_names and output_names:
                jac = {o: {i: b for i, b in row.items() if i in input_names}
                       for o, row in jac.items() if o in output_names}
            if sparse:
                jac = {o: {i: (b if block_format(dc, o, i) == "dense" else getattr(scipy.sparse, block_format(dc, o, i))(b))
                           for i, b in row.items()} for o, row in jac.items()}
            self.jac = jac

    return HD(), f


def apply_policy(d, pol, scratch):
    ct = d.CacheType
    t = float(pol.get("tol", 0.0))
    kind = pol["type"]
    if kind == "none":
        d.set_cache(ct.NONE)
    elif kind == "simple":
        d.set_cache(ct.SIMPLE, tolerance=t)
    elif kind == "memory":
        d.set_cache(ct.MEMORY_FULL, tolerance=t, is_memory_shared=False)
    elif kind == "memory_shared":
        d.set_cache(ct.MEMORY_FULL, tolerance=t, is_memory_shared=True)
    elif kind == "hdf5":
        d.set_cache(ct.HDF5, tolerance=t, hdf_file_path=os.path.join(scratch, pol["file"]),
                    hdf_node_path=pol["node"])
    else:  # pragma: no cover
        raise HarnessError(f"unknown policy {kind}")


# =========================================================================== hash collisions (fault injection)
class Collide:
    def __init__(self, k):
        self.k = int(k or 0)
        self.saved = []

    def __enter__(self):
        if not self.k:
            return self
        import gemseo.caches._hdf5_file_singleton as hs
        import gemseo.caches.base_full_cache as bfc
        from gemseo.caches.utils import hash_data as real

        k = self.k

        def weak(data):
            return real(data) % k

        for mod in (bfc, hs):
            self.saved.append((mod, mod.hash_data))
            mod.hash_data = weak
        return self

    def __exit__(self, *exc):
        for mod, fn in self.saved:
            mod.hash_data = fn
        self.saved = []
        return False


def current_hash():
    import gemseo.caches.base_full_cache as bfc

    return bfc.hash_data


# =========================================================================== census of HDF5 handles (M7)
def hdf5_census():
    import h5py

    try:
        n_obj = len(h5py.h5f.get_obj_ids(h5py.h5f.OBJ_ALL, h5py.h5f.OBJ_FILE))
    except Exception:  # pragma: no cover
        n_obj = -1
    n_fd = 0
    try:
        for fd in os.listdir("/proc/self/fd"):
            try:
                if os.readlink(f"/proc/self/fd/{fd}").endswith((".h5", ".hdf5")):
                    n_fd += 1
            except OSError:
                pass
    except OSError:
        n_fd = -1
    return n_obj, n_fd


# =========================================================================== the history runner
class Runner:
    def __init__(self, case, rep, scratch):
        self.case, self.rep, self.scratch = case, rep, scratch
        self.dc = case["disc"]
        self.in_names, self.out_names = _names(self.dc)
        self.pool = [{n: np.array(v, dtype=float) for n, v in p.items()} for p in case["pool"]]
        self.C, self.f = make_discipline(self.dc)
        self.T, _ = make_discipline(self.dc)
        self.T.set_cache(self.T.CacheType.NONE)
        self.pol = dict(case["policy"])
        apply_policy(self.C, self.pol, scratch)
        self.slots = {}  # slot -> {"arrays": {name: caller-owned array}, "value": prepared dict, "before": [..]}
        self.diff_in, self.diff_out = set(), set()
        self.flags = set()
        self.hdf_nodes = []  # (file, node) used by this history
        if self.pol["type"] == "hdf5":
            self.hdf_nodes.append((self.pol["file"], self.pol["node"]))
        self.last_key = None
        self.violated = False
        self._new_epoch()

    # ------------------------------------------------------------------ bookkeeping
    def _new_epoch(self):
        self.seen = {}        # key -> prepared inputs (in order of first request)
        self.ran = set()      # keys for which the body ran in this epoch
        self.ptr = len(self.C.run_log)
        self.mutated_slots = set()
        self.premutation = []  # prepared inputs that a caller-owned slot held when it was passed, before a mutation
        self.last_key = None
        self.tol_positive_in_epoch = self.tol > 0
        self.tol_max_in_epoch = self.tol
        self.flags = {fl for fl in self.flags if fl == "collide"}

    @property
    def kind(self):
        return self.pol["type"]

    @property
    def tol(self):
        return float(self.pol.get("tol", 0.0))

    def sig(self, what):
        feats = ["tol>0" if self.tol > 0 else "tol=0"]
        feats += sorted(self.flags)
        return f"C05:{TAG[self.kind]}:{what}:{'+'.join(feats)}"

    def violation(self, what, clause, observed=None, expected=None, msg="", step=None, alias_ok=False, shadow=""):
        self.violated = True
        sig = self.sig(what)
        al = self.alias_attribution(what) if alias_ok else ""
        if al:
            sig, msg = ALIAS_SIG, (msg + " | " if msg else "") + f"symptom={what}; " + al
        elif shadow:
            sig, msg = SHADOW_SIG, (msg + " | " if msg else "") + f"symptom={what}; " + shadow
        self.rep.violation(sig, clause, dict(self.case, failing_step=step), observed, expected, msg)
        raise StopHistory

    def prepared(self, i):
        return {n: self.pool[i][n].copy() for n in self.in_names}

    def call_args(self, value, mode):
        """The dictionary handed to the discipline for a prepared input ``value`` (fresh arrays)."""
        d = {n: value[n].copy() for n in self.in_names}
        if mode == "partial":
            for n, v in self.dc["defaults"].items():
                if np.array_equal(d[n], np.array(v, dtype=float)):
                    del d[n]
        elif mode == "extra":
            d["not_an_input"] = np.array([42.0])
        return d

    # ------------------------------------------------------------------ alias attribution (narrow, by evidence)
    def stored_input_arrays(self):
        """[(index, name, stored array)] for caches that keep python objects (private state, read only)."""
        c = self.C.cache
        out = []
        if self.kind == "memory":
            data = getattr(c, "_MemoryFullCache__data", {})
            for idx, groups in dict(data).items():
                for n, a in dict(groups.get(c.Group.INPUTS, {})).items():
                    out.append((idx, n, a))
        elif self.kind == "simple":
            for n, a in dict(getattr(c, "_SimpleCache__inputs", {})).items():
                out.append((1, n, a))
        return out

    def aliased_entries(self):
        hits = set()
        for idx, n, a in self.stored_input_arrays():
            if not isinstance(a, np.ndarray):
                continue
            for s, slot in self.slots.items():
                b = slot["arrays"].get(n)
                if b is not None and np.shares_memory(a, b):
                    hits.add((idx, s))
        return hits

    def aliased_mutated_indices(self):
        if self.kind != "memory" or not self.mutated_slots:
            return set()
        return {idx for idx, s in self.aliased_entries() if s in self.mutated_slots}

    def aliased_entry_holds(self, k):
        """An entry whose stored inputs are caller arrays edited after the call now holds exactly the inputs ``k``
        (the in-place edit turned it into a second entry for that value)."""
        idxs = self.aliased_mutated_indices()
        if not idxs:
            return False
        c = self.C.cache
        for i in idxs:
            inp = c._read_data(i, c.Group.INPUTS)
            if set(inp) == set(self.in_names) and key_of(self.dc, inp) == k:
                return True
        return False

    def premutation_served(self, out_c=None, jc=None, req=None):
        """Were the outputs / Jacobian blocks of a value held by a caller array *before* its edit served?"""
        for p in self.premutation:
            if out_c is not None:
                fp = closed_outputs(self.f, self.dc, p)
                if all(out_c[n] is not None and same(out_c[n], fp[n]) for n in self.out_names):
                    return True
            if jc is not None:
                jp = closed_jacobian(self.f, self.dc, p)
                if all(o in jc and i in jc[o] and same(jc[o][i], jp[o][i]) for o in req[1] for i in req[0]):
                    return True
        return False

    def shadow_evidence(self, query):
        """Evidence for the tolerance-lookup mechanism: in the cache's own iteration order the first stored input
        within the tolerance of ``query`` (metric as coded) has no outputs, while a later entry stored for exactly
        ``query`` has outputs.  Reads the private state only."""
        c = self.C.cache
        if self.kind not in FULL or self.tol <= 0:
            return ""
        order = [int(i) for idx in dict(c._hashes_to_indices.items()).values() for i in np.atleast_1d(idx)]
        first, exact = None, None
        for i in order:
            inp = c._read_data(i, c.Group.INPUTS)
            if set(inp) != set(self.in_names):
                continue
            has_out = bool(c._read_data(i, c.Group.OUTPUTS))
            if first is None and all(
                    np.linalg.norm(np.asarray(inp[n]) - query[n]) <= self.tol * (1 + np.linalg.norm(query[n]))
                    for n in self.in_names):
                first = (i, has_out)
            if exact is None and has_out and key_of(self.dc, inp) == key_of(self.dc, query):
                exact = i
        if first is not None and not first[1] and exact is not None and exact != first[0]:
            return (f"entry {first[0]} (Jacobian only, stored by linearize() at a near-duplicate that was answered "
                    f"from another entry) is the first one within the tolerance and hides entry {exact} which "
                    f"holds the outputs of exactly this input")
        return ""

    def alias_attribution(self, what):
        """Return an explanation when the violation is the known aliasing mechanism, else ''."""
        al = self.aliased_mutated_indices()
        if not al:
            return ""
        if what not in ("body-rerun-for-seen-input", "wrong-outputs", "wrong-jacobian", "invariant-hash-key",
                        "entry-untruthful", "len-differs-from-distinct-inputs"):
            return ""
        return (f"stored inputs of entries {sorted(al)} share memory with caller-owned arrays "
                f"that were edited in place after the call (np.shares_memory)")

    # ------------------------------------------------------------------ one gemseo call on both disciplines
    def call(self, step, op, value, args_c, lin, noexec=False):
        """``lin``: None (execute), "all" (compute_all_jacobians) or "diff" (differentiated subsets);
        ``noexec``: ``linearize(..., execute=False)``."""
        rep, C, T = self.rep, self.C, self.T
        k = key_of(self.dc, value)
        pre = self.exact_entry_state(value)
        # answers may stem from entries filed under the largest tolerance used so far in this cache epoch
        t_acc = max(self.tol, self.tol_max_in_epoch)
        n_jac0 = C.n_jac
        args_t = {n: value[n].copy() for n in self.in_names}
        # ---- twin (uncached) and closed form
        if lin is None:
            rt = T.execute(args_t)
            jt = None
        else:
            jt = T.linearize(args_t, compute_all_jacobians=(lin == "all"), execute=not noexec)
            jt = {o: {i: dense(b).copy() for i, b in row.items()} for o, row in jt.items()}
            rt = T.io.data
        # after linearize() the self-coupled variables of local_data are reset to their input values
        # (without a preliminary execution local_data holds no outputs of this input at all)
        cmp_names = (self.out_names if lin is None else
                     [] if noexec else [n for n in self.out_names if n not in self.in_names])
        out_t = {n: (np.array(rt[n], copy=True) if n in rt else None) for n in self.out_names}
        ref_out = closed_outputs(self.f, self.dc, value)
        if any(not same(out_t[n], ref_out[n]) for n in cmp_names):
            raise HarnessError("uncached twin differs from the closed form")
        req_in = self.in_names if lin == "all" else sorted(self.diff_in)
        req_out = self.out_names if lin == "all" else sorted(self.diff_out)
        if lin is not None:
            ref_j = closed_jacobian(self.f, self.dc, value)
            for o in req_out:
                for i in req_in:
                    if o not in jt or i not in jt[o] or not same(jt[o][i], ref_j[o][i]):
                        raise HarnessError("uncached twin Jacobian differs from the closed form")
        # ---- discipline under the cache policy
        try:
            if lin is None:
                rc = C.execute(args_c)
                jc = None
            else:
                jc = C.linearize(args_c, compute_all_jacobians=(lin == "all"), execute=not noexec)
                rc = C.io.data
            out_c = {n: (np.array(rc[n], copy=True) if n in rc else None) for n in self.out_names}
            if jc is not None:
                jc = {o: {i: dense(b).copy() for i, b in row.items()} for o, row in jc.items()}
        except HarnessError:
            raise
        except Exception as e:  # a valid call must return
            self.violation(f"exception:{type(e).__name__}:{op}", "the call returns", step=step,
                           observed=f"{type(e).__name__}: {e}"[:400], expected="outputs / Jacobian of the twin")
        new_runs = C.run_log[self.ptr:]
        self.ptr = len(C.run_log)
        ran_now = bool(new_runs)
        seen_before = k in self.seen
        # ---- outputs (the returned data of execute(); after linearize() local_data is state, not a return value:
        #      a difference there is only observed)
        cand = None
        ok = all(out_c[n] is not None and same(out_c[n], out_t[n]) for n in cmp_names)
        if not ok and t_acc > 0 and self.kind != "none":
            for e in self.seen.values():
                if within(value, e, t_acc, self.in_names):
                    fe = closed_outputs(self.f, self.dc, e)
                    if all(out_c[n] is not None and same(out_c[n], fe[n]) for n in cmp_names):
                        ok, cand = True, e
                        break
        if lin is None:
            rep.count("outputs_compared")
            if not ok:
                self.violation("wrong-outputs", "outputs equal those of the uncached copy"
                               + (" (or of a seen input within the tolerance)" if t_acc > 0 else ""), step=step,
                               observed={"outputs": out_c, "body_ran": ran_now},
                               expected={"outputs": out_t, "input": value},
                               alias_ok=self.premutation_served(out_c=out_c))
            if cand is not None:
                rep.count("answers_from_a_seen_input_within_tolerance")
        elif not ok:
            rep.observe("local_data-after-linearize-differs-from-uncached-copy",
                        {"policy": self.pol, "step": step, "observed": out_c, "expected": out_t})
        # ---- jacobian
        if lin is not None:
            rep.count("jacobians_compared")
            bad = None
            for o in req_out:
                for i in req_in:
                    if o not in jc or i not in jc[o] or not same(jc[o][i], jt[o][i]):
                        bad = (o, i)
            if bad and t_acc > 0 and self.kind != "none":
                near = [e for e in self.seen.values() if within(value, e, t_acc, self.in_names)]
                hop2 = [e for e in self.seen.values()
                        if any(within(n_, e, t_acc, self.in_names) for n_ in near + [value])]
                for e in near + hop2:
                    je = closed_jacobian(self.f, self.dc, e)
                    if all(o in jc and i in jc[o] and same(jc[o][i], je[o][i]) for o in req_out for i in req_in):
                        bad = None
                        if any(e is n_ for n_ in near):
                            rep.count("jacobians_from_a_seen_input_within_tolerance")
                        else:
                            # the entry that answers is within t of the request, its Jacobian was computed at another
                            # request within t of that entry (SimpleCache files it under the stored inputs): the
                            # statement does not pin this corner => observed, not judged
                            rep.observe("jacobian-of-a-seen-input-within-t-of-the-answering-entry-but-not-of-the-request",
                                        {"policy": self.pol, "step": step})
                        break
            if bad:
                self.violation("wrong-jacobian", "Jacobian equals that of the uncached copy", step=step,
                               observed={"block": bad, "jacobian": jc, "body_ran": ran_now},
                               expected={"jacobian": {o: {i: jt[o][i] for i in req_in} for o in req_out}, "input": value},
                               alias_ok=self.premutation_served(jc=jc, req=(req_in, req_out)))
            extra = {(o, i) for o in jc for i in jc[o]} - {(o, i) for o in req_out for i in req_in}
            if extra:
                rep.count("jacobian_superset_returned")
            if C.n_jac == n_jac0:
                rep.count("jacobian_served_without_recomputation")
                rep.count(f"jacobian_hits_{self.kind}")
                if self.kind != "none":
                    self.count_served_blocks(req_out, req_in, jt)
            elif seen_before and self.kind != "none":
                rep.count("jacobian_recomputed_at_seen_input")
        # ---- body runs
        for r in new_runs:
            rk = key_of(self.dc, r)
            if rk != k:
                rep.observe("body-ran-at-an-input-other-than-the-requested-one", {"run_input": r, "requested": value})
            if self.kind in FULL:
                rep.count("run_rule_evaluations")
                if rk in self.ran:
                    self.violation("body-rerun-for-seen-input", "full cache: at most one body run per distinct input",
                                   step=step, observed={"input": r, "runs_of_this_input": 2}, expected=1,
                                   alias_ok=(rk in {key_of(self.dc, p) for p in self.premutation}
                                             or self.aliased_entry_holds(rk)),
                                   shadow=self.shadow_evidence(r))
            self.ran.add(rk)
        if len(new_runs) > 1:
            rep.observe("body-ran-more-than-once-in-one-call", {"policy": self.pol, "runs": len(new_runs)})
        if self.kind != "none" and not ran_now and not noexec:
            rep.count("calls_served_without_body_run")
            rep.count(f"hits_{self.kind}")
            if not seen_before:
                rep.count("tolerance_hits")
        if self.kind == "simple" and self.tol == 0:
            if self.last_key == k and ran_now:
                rep.observe("SimpleCache-reran-the-previous-input", {"step": step})
            if self.last_key != k and not ran_now:
                # served although the input differs from the previous one: the twin comparison above decides
                rep.count("simple_cache_hit_on_other_input")
        self.last_key = k
        self.seen.setdefault(k, {n: value[n].copy() for n in self.in_names})
        self.count_completions(pre, value)
        self.after_call(step)

    def exact_entry_state(self, value):
        """(index, has outputs, has Jacobian, max_index) of the entry stored for exactly ``value`` in a full cache, or
        None.  Reads the private state only (hash index, groups of the entry)."""
        if self.kind not in FULL:
            return None
        c = self.C.cache
        idxs = dict(c._hashes_to_indices.items()).get(int(current_hash()(value)))
        if idxs is None:
            return None
        k = key_of(self.dc, value)
        for i in np.atleast_1d(idxs):
            inp = c._read_data(int(i), c.Group.INPUTS)
            if set(inp) == set(self.in_names) and key_of(self.dc, inp) == k:
                # _has_group() only tests the presence of the group: the monitor never decodes stored data
                return (int(i), bool(c._has_group(int(i), c.Group.OUTPUTS)), bool(c._has_group(int(i), c.Group.JACOBIAN)),
                        int(c._max_index.value))
        return None

    def count_completions(self, pre, value):
        """An entry that held only a Jacobian (only outputs) got its outputs (Jacobian) during this call, while newer
        entries existed: the write must go to the entry of the inputs, not to the newest one."""
        if pre is None:
            return
        post = self.exact_entry_state(value)
        if post is None or post[0] != pre[0]:
            return
        newer = pre[3] > pre[0]
        if pre[2] and not pre[1] and post[1]:
            self.rep.count("jacobian_only_entries_completed_with_outputs")
            if newer:
                self.rep.count("jacobian_only_entries_completed_after_newer_entries")
                self.rep.count(f"jacobian_only_entries_completed_after_newer_entries_{self.kind}")
        if pre[1] and not pre[2] and post[2]:
            self.rep.count("outputs_only_entries_completed_with_jacobian")
            if newer:
                self.rep.count("outputs_only_entries_completed_after_newer_entries")
                self.rep.count(f"outputs_only_entries_completed_after_newer_entries_{self.kind}")

    def count_served_blocks(self, req_out, req_in, jt):
        """Per container: Jacobian blocks that were served by the cache (no recomputation) and compared by value."""
        for o in req_out:
            for i in req_in:
                fmt = block_format(self.dc, o, i)
                self.rep.count(f"jac_blocks_served_from_cache_{fmt}")
                if self.kind == "hdf5":
                    self.rep.count(f"hdf5_jac_blocks_served_{fmt}")
                b = jt[o][i]
                if fmt != "dense" and b.shape[0] == b.shape[1] >= 2 and not np.array_equal(b, b.T):
                    self.rep.count("square_nonsymmetric_sparse_blocks_served_from_cache")
                    if self.kind == "hdf5":
                        self.rep.count("hdf5_square_nonsymmetric_sparse_blocks_served")
                        self.rep.count(f"hdf5_square_nonsymmetric_blocks_served_{fmt}")
                elif fmt != "dense" and b.shape[0] != b.shape[1]:
                    self.rep.count("rectangular_sparse_blocks_served_from_cache")

    # ------------------------------------------------------------------ state monitors
    def after_call(self, step):
        if self.tol > 0:
            self.tol_positive_in_epoch = True
            self.tol_max_in_epoch = max(self.tol_max_in_epoch, self.tol)
        if self.kind in FULL:
            self.check_invariant(self.C.cache, step)
            if not self.tol_positive_in_epoch:
                self.rep.count("len_checks")
                n = len(self.C.cache)
                if n != len(self.seen):
                    self.violation("len-differs-from-distinct-inputs", "len(cache) == number of distinct inputs",
                                   step=step, observed=n, expected=len(self.seen),
                                   alias_ok=bool(self.aliased_mutated_indices()))
        if self.kind == "hdf5":
            self.census(step)

    def census(self, step):
        n_obj, n_fd = hdf5_census()
        self.rep.count("hdf5_handle_census")
        if n_obj > 0 or n_fd > 0:
            self.rep.count("hdf5_handles_left_open")
            self.rep.observe("hdf5-file-left-open-at-quiescence",
                             {"step": step, "h5f_file_objects": n_obj, "proc_fd": n_fd, "ops": self.case["ops"][:step + 1]})

    def check_invariant(self, cache, step, where="invariant"):
        self.rep.count("invariant_evaluations")
        h2i = {int(h): [int(v) for v in np.atleast_1d(idx)] for h, idx in dict(cache._hashes_to_indices.items()).items()}
        mx = int(cache._max_index.value)
        allidx = [i for v in h2i.values() for i in v]
        if sorted(allidx) != list(range(1, mx + 1)):
            self.violation(f"{where}-index-set", "indices of the hash index are exactly 1..max_index, once each",
                           step=step, observed={"hashes_to_indices": h2i, "max_index": mx})
        hd = current_hash()
        for h, idxs in h2i.items():
            for i in idxs:
                inputs = cache._read_data(i, cache.Group.INPUTS)
                if int(hd(inputs)) != h:
                    self.violation(f"{where}-hash-key", "hash of the stored inputs of an index is its key", step=step,
                                   observed={"index": i, "key": h, "hash_of_stored_inputs": int(hd(inputs)),
                                             "stored_inputs": inputs},
                                   alias_ok=cache is self.C.cache and i in self.aliased_mutated_indices())

    def snapshot(self, cache):
        out = []
        if len(cache) == 0:
            # listing an *empty* HDF5Cache raises AssertionError (keep_open() closes a file that was never
            # opened): outside the statement, recorded once by outside_statement_probes()
            return out
        for e in cache.get_all_entries():
            out.append(({n: np.array(v, copy=True) for n, v in dict(e.inputs).items()},
                        {n: np.array(v, copy=True) for n, v in dict(e.outputs).items()},
                        {o: {i: dense(b).copy() for i, b in row.items()} for o, row in dict(e.jacobian).items()}))
        return out

    def check_entries(self, step, cache=None, where="entries"):
        cache = cache if cache is not None else self.C.cache
        if cache is None:
            return None
        try:
            snap = self.snapshot(cache)
        except HarnessError:
            raise
        except Exception as e:  # listing a non-empty cache is a valid request: it must be served
            self.violation(f"exception:{type(e).__name__}:entries", "the cache serves its entries", step=step,
                           observed=f"{type(e).__name__}: {e}"[:400], expected="the stored entries")
        self.rep.count("entry_listings_checked")
        if len(snap) != len(cache) and self.kind in FULL:
            self.violation("entries-count", "get_all_entries yields len(cache) entries", step=step,
                           observed=len(snap), expected=len(cache))
        seen_keys = list(self.seen)
        for pos, (inp, out, jac) in enumerate(snap):
            if set(inp) != set(self.in_names):
                self.violation("entry-input-names", "stored inputs are the discipline inputs", step=step,
                               observed=sorted(inp), expected=self.in_names)
            k = key_of(self.dc, inp)
            al = cache is self.C.cache and (pos + 1) in self.aliased_mutated_indices()
            if k not in self.seen:
                self.violation("entry-untruthful", "stored inputs are inputs that were requested", step=step,
                               observed={"position": pos, "inputs": inp}, expected="one of the requested inputs",
                               alias_ok=al)
            fo = closed_outputs(self.f, self.dc, inp)
            near = [inp] + ([e for e in self.seen.values() if within(inp, e, self.tol_max_in_epoch, self.in_names)]
                            if self.tol_positive_in_epoch else [])
            if out and not any(all(n in out and same(out[n], fe[n]) for n in self.out_names)
                               for fe in (closed_outputs(self.f, self.dc, e) for e in near)):
                self.violation("entry-untruthful", "stored outputs are those of the stored inputs", step=step,
                               observed={"position": pos, "inputs": inp, "outputs": out}, expected=fo, alias_ok=al)
            if jac:
                fjs = [closed_jacobian(self.f, self.dc, e) for e in near]
                fj = fjs[0]
                for o, row in jac.items():
                    for i, b in row.items():
                        self.rep.count(f"stored_jac_blocks_checked_{block_format(self.dc, o, i)}")
                        if not any(same(b, fj_[o][i]) for fj_ in fjs):
                            self.violation("entry-untruthful", "stored Jacobian is that of the stored inputs",
                                           step=step, observed={"position": pos, "block": [o, i], "value": b},
                                           expected=fj[o][i], alias_ok=al)
            if self.kind in FULL and not self.tol_positive_in_epoch and pos < len(seen_keys) and k != seen_keys[pos]:
                self.rep.observe("entries-not-listed-in-order-of-first-request", {"policy": self.pol, "position": pos})
        return snap

    # ------------------------------------------------------------------ operations
    def run(self):
        rep = self.rep
        with Collide(self.case["policy"].get("collide", 0)):
            if self.case["policy"].get("collide", 0):
                self.flags.add("collide")
                rep.count("histories_with_forced_hash_collisions")
            try:
                for step, op in enumerate(self.case["ops"]):
                    self.do(step, op)
                    rep.count("operations")
                if self.C.cache is not None:
                    self.check_entries(len(self.case["ops"]))
            except StopHistory:
                rep.count("histories_stopped_at_first_violation")
        rep.count(f"histories_{self.kind}")
        return self

    def do(self, step, op):
        name = op[0]
        if name == "exec":
            v = self.prepared(op[1])
            self.call(step, name, v, self.call_args(v, op[2]), None)
            if op[2] != "full":
                self.rep.count(f"calls_{op[2]}_inputs")
        elif name in ("lin_all", "lin"):
            if name == "lin" and not (self.diff_in and self.diff_out):
                return
            v = self.prepared(op[1])
            self.call(step, name, v, self.call_args(v, op[2]), "all" if name == "lin_all" else "diff")
        elif name == "lin_noexec":
            # linearize(execute=False) is only meaningful when the discipline does not hold the Jacobian of another
            # input as "current" (state left by a cache hit): then it would be returned as it is, by design of the flag
            if getattr(self.C, "_has_jacobian", False):
                self.rep.count("lin_noexec_skipped_after_a_cache_hit")
                return
            v = self.prepared(op[1])
            self.rep.count("linearizations_without_execution")
            self.call(step, name, v, self.call_args(v, "full"), "all", noexec=True)
        elif name == "add_diff":
            for d in (self.C, self.T):
                d.add_differentiated_inputs(list(op[1]))
                d.add_differentiated_outputs(list(op[2]))
            self.diff_in |= set(op[1])
            self.diff_out |= set(op[2])
            self.rep.count("differentiated_subset_growths")
        elif name in ("own_exec", "own_lin"):
            v = self.prepared(op[2])
            arrays = {n: v[n].copy() for n in self.in_names}  # owned by the caller (the harness), kept alive
            self.slots[op[1]] = {"arrays": arrays, "value": v}
            self.rep.count("calls_with_caller_owned_arrays")
            self.call(step, name, v, dict(arrays), None if name == "own_exec" else "all")
        elif name == "mutate":
            slot = self.slots.get(op[1])
            if slot is None:
                return
            new = self.prepared(op[2])
            self.premutation.append(slot["value"])
            for n in self.in_names:
                slot["arrays"][n][...] = new[n]  # in-place edit of the caller's arrays
            slot["value"] = new
            self.mutated_slots.add(op[1])
            self.flags.add("after-caller-mutation")
            self.rep.count("caller_array_mutations")
            if self.kind in ("memory", "simple") and any(s == op[1] for _, s in self.aliased_entries()):
                self.rep.count("stored_inputs_seen_sharing_memory_with_caller_arrays")
        elif name == "own_again":
            slot = self.slots.get(op[1])
            if slot is None:
                return
            v = {n: slot["value"][n].copy() for n in self.in_names}
            self.rep.count("calls_with_mutated_caller_arrays" if op[1] in self.mutated_slots
                           else "calls_with_caller_owned_arrays")
            self.call(step, name, v, dict(slot["arrays"]), None if op[2] == "exec" else "all")
        elif name == "entries":
            self.check_entries(step)
        elif name == "reopen":
            self.reopen(step)
        elif name == "set_cache":
            self.pol = dict(op[1])
            apply_policy(self.C, self.pol, self.scratch)
            if self.pol["type"] == "hdf5":
                self.hdf_nodes.append((self.pol["file"], self.pol["node"]))
            self._new_epoch()
            self.flags.add("after-set_cache")
            self.rep.count("set_cache_changes")
        elif name == "clear":
            if self.C.cache is None or len(self.C.cache) == 0:
                return
            try:
                self.C.cache.clear()
            except Exception as e:
                self.violation(f"exception:{type(e).__name__}:clear", "clear() of a non-empty cache returns", step=step,
                               observed=f"{type(e).__name__}: {e}"[:300])
            self._new_epoch()
            self.flags.add("after-clear")
            self.rep.count("cache_clears")
            if len(self.C.cache) != 0:
                self.violation("clear-leaves-entries", "a cleared cache is empty", step=step,
                               observed=len(self.C.cache), expected=0)
        elif name == "set_tol":
            if self.C.cache is None:
                return
            # entries filed under the previous tolerance stay: the oracle accepts answers within the largest
            # tolerance used in the epoch (a tolerance change in mid-history is an extension of the quantifier)
            self.C.cache.tolerance = float(op[1])
            self.pol["tol"] = float(op[1])
            self.tol_max_in_epoch = max(self.tol_max_in_epoch, self.tol)
            self.tol_positive_in_epoch = self.tol_positive_in_epoch or self.tol > 0
            self.flags.add("after-tolerance-change")
            self.rep.count("tolerance_changes")
        else:  # pragma: no cover
            raise HarnessError(f"unknown op {name}")

    def reopen(self, step):
        if self.kind != "hdf5":
            return
        from gemseo.caches.hdf5_cache import HDF5Cache

        old = self.C.cache
        before = self.check_entries(step)
        try:
            new = HDF5Cache(tolerance=self.tol, hdf_file_path=os.path.join(self.scratch, self.pol["file"]),
                            hdf_node_path=self.pol["node"])
            after = self.snapshot(new)
            n_new = len(new)
        except Exception as e:
            self.violation(f"exception:{type(e).__name__}:reopen", "a cache file can be reopened", step=step,
                           observed=f"{type(e).__name__}: {e}"[:300])
        self.rep.count("reopens_in_process")
        self.flags.add("after-reopen")
        if n_new != len(old) or not entries_equal(before, after):
            self.violation("reopened-cache-differs", "a reopened cache serves the same entries", step=step,
                           observed={"len": n_new, "entries": after}, expected={"len": len(old), "entries": before})
        self.check_invariant(new, step, where="reopened-invariant")
        # the reopened cache must answer every stored input with the stored outputs (lookup path, not listing)
        saved_tol = new.tolerance
        new.tolerance = 0.0  # exact lookups: which entry answers must not depend on the tolerance here
        for inp, out, _ in before:
            if not out:
                continue
            got = new[inp].outputs
            self.rep.count("reopened_lookups")
            if set(got) != set(out) or any(not same(got[n], out[n]) for n in out):
                self.violation("reopened-cache-lookup-differs", "a reopened cache serves the same entries",
                               step=step, observed={"inputs": inp, "outputs": dict(got)}, expected=out)
        new.tolerance = saved_tol
        self.C.cache = new
        self.census(step)


def entries_equal(a, b):
    if len(a) != len(b):
        return False
    for (ia, oa, ja), (ib, ob, jb) in zip(a, b):
        if set(ia) != set(ib) or set(oa) != set(ob) or set(ja) != set(jb):
            return False
        if any(not same(ia[n], ib[n]) for n in ia) or any(not same(oa[n], ob[n]) for n in oa):
            return False
        for o in ja:
            if set(ja[o]) != set(jb[o]) or any(not same(ja[o][i], jb[o][i]) for i in ja[o]):
                return False
    return True


# =========================================================================== generation
def gen_disc(rng):
    n_in, n_out = int(rng.integers(1, 4)), int(rng.integers(1, 4))
    ins = [[f"x{i}", int(rng.integers(1, 4))] for i in range(n_in)]
    outs = [[f"y{i}", int(rng.integers(1, 4))] for i in range(n_out)]
    selfc = bool(rng.random() < 0.25)
    if selfc:
        s = int(rng.integers(1, 3))
        ins.append(["s", s])
        outs.append(["s", s])
    n, m = sum(s for _, s in ins), sum(s for _, s in outs)
    f = gf.random_function(rng, n, m)
    defaults = {}
    for name, s in ins:
        if rng.random() < 0.45:
            defaults[name] = np.round(rng.uniform(-1.5, 1.5, s), 3).tolist()
    dc = {"func": f.describe(), "ins": ins, "outs": outs, "self_coupled": selfc,
          "sparse": bool(rng.random() < 0.4), "jac_requested_only": bool(rng.random() < 0.5),
          "defaults": defaults}
    if dc["sparse"]:
        # one container for every block, or a container per block (dense blocks allowed among the sparse ones)
        if rng.random() < 0.5:
            one = SPARSE_FORMATS[int(rng.integers(len(SPARSE_FORMATS)))]
            dc["block_formats"] = {f"{o}|{i}": one for o, _ in outs for i, _ in ins}
        else:
            choices = SPARSE_FORMATS + ("dense", "dense")
            dc["block_formats"] = {f"{o}|{i}": choices[int(rng.integers(len(choices)))] for o, _ in outs for i, _ in ins}
    return dc


def gen_policy(rng, hid, epoch=0, allow_none=True):
    r = rng.random()
    kind = ("none" if r < 0.04 and allow_none else "simple" if r < 0.2 else "memory" if r < 0.48
            else "memory_shared" if r < 0.68 else "hdf5")
    r = rng.random()
    tol = 0.0 if r < 0.5 else 1e-9 if r < 0.62 else 1e-2
    pol = {"type": kind, "tol": tol}
    if kind in FULL and rng.random() < 0.18:
        pol["collide"] = int(rng.integers(1, 3))
    if kind == "hdf5":
        pol["file"] = f"c05_{hid // 3}.h5"
        pol["node"] = (f"n{hid}e{epoch}" if rng.random() < 0.5 else f"g{hid}/sub{epoch}/node")
    return pol


def gen_pool(rng, dc, tol):
    ins = dc["ins"]
    pool, meta, parents = [], [], {}
    for _ in range(int(rng.integers(5, 9))):
        p = {}
        for name, s in ins:
            if name in dc["defaults"] and rng.random() < 0.5:
                p[name] = list(dc["defaults"][name])
            else:
                p[name] = np.round(rng.uniform(-1.5, 1.5, s), 3).tolist()
        pool.append(p)
        meta.append(None)
    t_eff = tol if tol > 0 else 1e-9
    for _ in range(int(rng.integers(2, 6))):
        parent = int(rng.integers(len(pool)))
        if meta[parent] is not None and rng.random() < 0.6:
            name, u = meta[parent]  # chain: keep walking in the same direction
        else:
            name, s = ins[int(rng.integers(len(ins)))]
            u = rng.normal(size=s)
            u = (u / np.linalg.norm(u)).tolist()
        fac = float(rng.uniform(0.15, 0.7)) if rng.random() < 0.6 else float(rng.uniform(2.5, 10.0))
        base = np.array(pool[parent][name], dtype=float)
        child = dict(pool[parent])
        child[name] = (base + np.array(u) * fac * t_eff * (1 + np.linalg.norm(base))).tolist()
        pool.append(child)
        meta.append((name, u))
        parents[len(pool) - 1] = parent
    return pool, parents


def gen_case(rng, hid):
    dc = gen_disc(rng)
    pol = gen_policy(rng, hid)
    pool, parents = gen_pool(rng, dc, pol["tol"])
    chains = [(parents[parents[c]], parents[c], c) for c in parents if parents[c] in parents]
    in_names, out_names = _names(dc)
    n_ops = int(rng.integers(10, 41))
    ops, recent, slots, epoch = [], [], {}, 0
    have_diff = False
    kind = pol["type"]

    used = set()  # pool indices already requested in the current cache epoch (as far as the generator knows)

    def pick():
        if recent and rng.random() < 0.55:
            i = recent[int(rng.integers(len(recent)))]
        else:
            i = int(rng.integers(len(pool)))
        recent.append(i)
        del recent[:-6]
        used.add(i)
        return i

    def fresh(n):
        """``n`` distinct pool inputs, not requested yet in this epoch and far from each other when possible."""
        base = [i for i in range(len(pool)) if i not in parents]
        unused = [i for i in base if i not in used]
        unused = [unused[j] for j in rng.permutation(len(unused))]
        cand = unused + [i for i in base if i in used] + list(parents)
        out = cand[:n]
        used.update(out)
        return out

    def completion_motif():
        """An entry that first holds a Jacobian only (outputs only) is completed after 1-3 other entries were made."""
        others_n = int(rng.integers(1, 4))
        if rng.random() < 0.5:
            f0, x, *others = fresh(2 + others_n)
            # the first execution is a miss (new input): the discipline holds no "current" Jacobian afterwards
            m = [["exec", f0, "full"], ["lin_noexec", x]]
            m += [["exec", o, mode()] if rng.random() < 0.6 else ["lin_all", o, mode()] for o in others]
            m += [["exec", x, mode()]]
            m += [["exec", o, "full"] for o in others] + [["exec", x, "full"]]
            if rng.random() < 0.5:
                m += [["lin_all", x, "full"]] + [["lin_all", o, "full"] for o in others[:1]]
        else:
            x, *others = fresh(1 + others_n)
            m = [["exec", x, mode()]]
            m += [["exec", o, mode()] if rng.random() < 0.6 else ["lin_all", o, mode()] for o in others]
            m += [["lin_all", x, mode()]]
            m += [["lin_all", o, "full"] if rng.random() < 0.5 else ["exec", o, "full"] for o in others]
            m += [["lin_all", x, "full"], ["exec", x, "full"]]
        recent.extend([x, *others])
        return m

    def mode():
        r = rng.random()
        return "partial" if r < 0.3 else "extra" if r < 0.36 else "full"

    while len(ops) < n_ops:
        r = rng.random()
        if rng.random() < 0.06:
            ops.extend(completion_motif())
        elif chains and rng.random() < 0.04:
            # near-duplicate chain a - a' - a'': Jacobian asked at the middle one, then the far end twice
            a0, a1, a2 = chains[int(rng.integers(len(chains)))]
            ops.extend([["exec", a0, "full"], ["lin_all", a1, "full"], ["exec", a2, "full"], ["exec", a2, mode()]])
            recent.extend([a0, a1, a2])
        elif r < 0.40:
            ops.append(["exec", pick(), mode()])
        elif r < 0.52:
            ops.append(["lin_all", pick(), mode()])
        elif r < 0.64:
            if not have_diff or rng.random() < 0.25:
                si = sorted(rng.choice(in_names, size=int(rng.integers(1, len(in_names) + 1)), replace=False).tolist())
                so = sorted(rng.choice(out_names, size=int(rng.integers(1, len(out_names) + 1)), replace=False).tolist())
                ops.append(["add_diff", si, so])
                have_diff = True
            ops.append(["lin", pick(), mode()])
        elif r < 0.72:
            s = int(rng.integers(2))
            i = pick()
            slots[s] = i
            ops.append(["own_exec" if rng.random() < 0.7 else "own_lin", s, i])
        elif r < 0.80:
            if slots:
                s = list(slots)[int(rng.integers(len(slots)))]
                old, new = slots[s], int(rng.integers(len(pool)))
                ops.append(["mutate", s, new])
                slots[s] = new
                # the old value with fresh arrays, then the new value through the edited arrays (both orders)
                tail = [["exec", old, "full"], ["own_again", s, "exec" if rng.random() < 0.7 else "lin_all"]]
                if rng.random() < 0.3:
                    tail.reverse()
                ops.extend(tail)
                recent.extend([old, new])
        elif r < 0.84:
            ops.append(["entries"])
        elif r < 0.90:
            if kind == "hdf5":
                ops.append(["reopen"])
        elif r < 0.925:
            epoch += 1
            pol2 = gen_policy(rng, hid, epoch, allow_none=False)
            pol2.pop("collide", None)
            if "collide" in pol:
                pol2["collide"] = pol["collide"]  # the hash mode is fixed for a whole history
            if pol2["type"] not in FULL:
                pol2.pop("collide", None)
            ops.append(["set_cache", pol2])
            kind = pol2["type"]
            slots.clear()
            used.clear()
        elif r < 0.94:
            ops.append(["clear"])
            slots.clear()
            used.clear()
        elif r < 0.96:
            ops.append(["set_tol", float(rng.choice([0.0, 1e-9, 1e-2]))])
    return {"disc": dc, "policy": pol, "pool": pool, "ops": ops}


def case_signature(case):
    dc, pol = case["disc"], case["policy"]
    t = pol["tol"]
    return (pol["type"], "0" if t == 0 else "small" if t < 1e-6 else "large", pol.get("collide", 0),
            len(dc["ins"]), len(dc["outs"]), dc["self_coupled"], dc["sparse"],
            tuple(sorted(set(dc.get("block_formats", {}).values()))), bool(dc["defaults"]),
            "/" in pol.get("node", ""), tuple(sorted({op[0] for op in case["ops"]})))


def nontrivial(case):
    seen, slots = set(), {}
    for op in case["ops"]:
        i = None
        if op[0] in ("exec", "lin_all", "lin", "lin_noexec"):
            i = op[1]
        elif op[0] in ("own_exec", "own_lin"):
            i = op[2]
            slots[op[1]] = i
        elif op[0] == "mutate":
            slots[op[1]] = op[2]
        elif op[0] == "own_again":
            i = slots.get(op[1])
        if i is not None:
            if i in seen:
                return True
            seen.add(i)
    return False


# =========================================================================== directed cases
def directed_cases():
    """Fixed histories for the corners named in DESIGN.md (spread over the shards of every run)."""
    poly = {"kind": "poly", "coeffs": [[1.0, 2.0, 0.5], [0.0, 1.0, -1.0], [2.0, 0.0, 1.0]],
            "exps": [[2, 0, 0], [1, 1, 0], [0, 1, 1]]}
    dc = {"func": poly, "ins": [["x0", 2], ["x1", 1]], "outs": [["y0", 1], ["y1", 2]], "self_coupled": False,
          "sparse": False, "jac_requested_only": False, "defaults": {"x1": [0.5]}}
    dcs = {"func": poly, "ins": [["x0", 2], ["s", 1]], "outs": [["y0", 2], ["s", 1]], "self_coupled": True,
           "sparse": True, "jac_requested_only": True, "defaults": {}}
    a = {"x0": [1.0, 2.0], "x1": [0.5]}
    b = {"x0": [10.0, 2.0], "x1": [0.5]}
    c = {"x0": [1.0, 2.0], "x1": [-0.25]}
    # chain for the tolerance 1e-2: a, a1 within t of a, a2 within t of a1 but not of a
    a1 = {"x0": [1.0 + 0.6e-2 * (1 + 5 ** 0.5), 2.0], "x1": [0.5]}
    a2 = {"x0": [1.0 + 1.25e-2 * (1 + 5 ** 0.5), 2.0], "x1": [0.5]}
    pool = [a, b, c, a1, a2]
    pool_s = [{"x0": p["x0"], "s": p["x1"]} for p in pool]
    out = []
    k = 0
    for kind in POLICIES:
        for tol in (0.0, 1e-2):
            for collide in ((0, 1) if kind in FULL else (0,)):
                def pol():
                    nonlocal k
                    k += 1
                    p = {"type": kind, "tol": tol}
                    if collide:
                        p["collide"] = collide
                    if kind == "hdf5":
                        p["file"] = f"c05_directed_{k % 2}.h5"
                        p["node"] = f"d{k}" if k % 2 else f"grp{k}/sub/node"
                    return p
                # D1: the aliasing scenario of the design-phase probe (p9): call, edit in place, old value, new value
                out.append({"disc": dc, "policy": pol(), "pool": pool,
                            "ops": [["own_exec", 0, 0], ["mutate", 0, 1], ["exec", 0, "full"], ["own_again", 0, "exec"],
                                    ["exec", 0, "partial"], ["exec", 1, "full"], ["entries"]]})
                # D2: Jacobian before outputs, outputs before Jacobian, growing differentiated subsets
                out.append({"disc": dc, "policy": pol(), "pool": pool,
                            "ops": [["lin_all", 0, "full"], ["exec", 0, "full"], ["exec", 1, "full"], ["lin_all", 1, "full"],
                                    ["add_diff", ["x0"], ["y0"]], ["lin", 2, "full"], ["lin", 2, "partial"],
                                    ["add_diff", ["x1"], ["y1"]], ["lin", 2, "full"], ["lin", 0, "full"], ["lin", 2, "full"],
                                    ["exec", 2, "full"], ["reopen"], ["lin_all", 2, "full"], ["exec", 0, "partial"],
                                    ["entries"]]})
                # D3: near-duplicate chain; Jacobian requested at a near-duplicate, then the chain end twice
                out.append({"disc": dc, "policy": pol(), "pool": pool,
                            "ops": [["exec", 0, "full"], ["lin_all", 3, "full"], ["exec", 4, "full"], ["exec", 4, "full"],
                                    ["lin_all", 4, "full"], ["exec", 3, "full"], ["exec", 0, "full"], ["reopen"],
                                    ["exec", 4, "full"], ["entries"]]})
                # D4: self-coupled variable, sparse Jacobian, requested blocks only
                out.append({"disc": dcs, "policy": pol(), "pool": pool_s,
                            "ops": [["exec", 0, "full"], ["lin_all", 0, "full"], ["own_lin", 1, 1], ["mutate", 1, 2],
                                    ["exec", 1, "full"], ["own_again", 1, "lin_all"], ["add_diff", ["s"], ["s"]],
                                    ["lin", 0, "full"], ["add_diff", ["x0"], ["y0"]], ["lin", 0, "full"], ["reopen"],
                                    ["lin", 1, "full"], ["clear"], ["exec", 0, "full"], ["exec", 0, "full"], ["entries"]]})
    # D7: an entry that holds a Jacobian only (linearize(execute=False) at a new input) or outputs only is completed
    #     after other entries were created; the completed and the newer entries are then read back
    for kind in FULL:
        for tol in (0.0, 1e-2):
            for collide in (0, 1):
                def pol7():
                    nonlocal k
                    k += 1
                    p = {"type": kind, "tol": tol}
                    if collide:
                        p["collide"] = collide
                    if kind == "hdf5":
                        p["file"] = f"c05_directed_{k % 2}.h5"
                        p["node"] = f"d{k}" if k % 2 else f"grp{k}/sub/node"
                    return p
                jac_first = [["lin_noexec", 0], ["exec", 1, "full"], ["lin_all", 2, "full"], ["exec", 0, "full"],
                             ["exec", 1, "full"], ["exec", 2, "full"], ["exec", 0, "partial"], ["lin_all", 0, "full"],
                             ["reopen"], ["exec", 1, "full"], ["exec", 0, "full"], ["lin_all", 2, "full"], ["entries"]]
                out_first = [["exec", 0, "full"], ["exec", 1, "full"], ["lin_all", 2, "full"], ["lin_all", 0, "full"],
                             ["exec", 1, "full"], ["lin_all", 0, "full"], ["lin_all", 2, "full"], ["reopen"],
                             ["lin_all", 0, "full"], ["lin_all", 1, "full"], ["entries"]]
                out.append({"disc": dc, "policy": pol7(), "pool": pool, "ops": jac_first})
                out.append({"disc": dc, "policy": pol7(), "pool": pool, "ops": out_first})
                out.append({"disc": dcs, "policy": pol7(), "pool": pool_s, "ops": jac_first[:6] + jac_first[7:]})
    # D5: every sparse container, square non-symmetric (y0|x0: 2x2, y1|x1: 3x3) and rectangular blocks, every policy;
    #     Jacobian served by the cache, by the re-opened cache and (end of shard) by a fresh interpreter
    ins5, outs5 = [["x0", 2], ["x1", 3]], [["y0", 2], ["y1", 3]]
    poly5 = {"kind": "poly",
             "coeffs": [[1.0, 2.0, 0.0, 0.5, 0.0, 1.0], [0.0, 1.0, -1.0, 0.0, 2.0, 0.0], [2.0, 0.0, 1.0, 0.0, 0.0, -1.0],
                        [0.0, 0.5, 0.0, 1.0, 1.0, 0.0], [1.0, 0.0, 0.0, -2.0, 0.0, 3.0]],
             "exps": [[2, 0, 0, 0, 0], [1, 1, 0, 0, 0], [0, 1, 1, 0, 0], [0, 0, 1, 2, 0], [0, 0, 0, 1, 1], [1, 0, 0, 0, 2]]}
    pool5 = [{"x0": [1.0, 2.0], "x1": [0.5, -1.0, 3.0]}, {"x0": [-1.5, 0.25], "x1": [2.0, 1.0, -0.5]}]
    for fmt in SPARSE_FORMATS:
        for kind in ("simple", "memory", "memory_shared", "hdf5"):
            k += 1
            p = {"type": kind, "tol": 0.0}
            if kind == "hdf5":
                p["file"] = f"c05_directed_{k % 2}.h5"
                p["node"] = f"d{k}" if k % 2 else f"grp{k}/sub/node"
            dc5 = {"func": poly5, "ins": ins5, "outs": outs5, "self_coupled": False, "sparse": True,
                   "jac_requested_only": False, "defaults": {},
                   "block_formats": {f"{o}|{i}": fmt for o, _ in outs5 for i, _ in ins5}}
            out.append({"disc": dc5, "policy": p, "pool": pool5,
                        "ops": [["lin_all", 0, "full"], ["lin_all", 0, "full"], ["exec", 1, "full"], ["lin_all", 1, "full"],
                                ["add_diff", ["x0"], ["y0"]], ["lin", 0, "full"], ["reopen"], ["lin_all", 0, "full"],
                                ["lin_all", 1, "full"], ["add_diff", ["x1"], ["y1"]], ["lin", 1, "full"], ["entries"]]})
    # D6: square non-symmetric blocks only (a container that mixes up rows and columns cannot fail on a shape here)
    for size in (2, 3):
        ins6, outs6 = [["x0", size]], [["y0", size], ["y1", size]]
        poly6 = {"kind": "poly", "coeffs": [[1.0, 2.0, 0.0, 0.5], [0.0, 1.0, -1.0, 0.0], [2.0, 0.0, 1.0, 3.0],
                                            [0.0, 0.5, 2.0, 1.0], [1.0, 0.0, -2.0, 0.0], [0.0, 3.0, 0.0, 1.0]][:2 * size],
                 "exps": [e[:size] for e in ([2, 0, 0], [1, 1, 0], [0, 2, 1], [1, 0, 1])]}
        pool6 = [{"x0": [1.0, 2.0, -0.5][:size]}, {"x0": [-1.5, 0.25, 2.0][:size]}]
        for fmt in SPARSE_FORMATS:
            for kind in ("simple", "memory", "memory_shared", "hdf5"):
                k += 1
                p = {"type": kind, "tol": 0.0}
                if kind == "hdf5":
                    p["file"] = f"c05_directed_{k % 2}.h5"
                    p["node"] = f"d{k}" if k % 2 else f"grp{k}/sub/node"
                dc6 = {"func": poly6, "ins": ins6, "outs": outs6, "self_coupled": False, "sparse": True,
                       "jac_requested_only": bool(k % 3 == 0), "defaults": {},
                       "block_formats": {f"{o}|{i}": fmt for o, _ in outs6 for i, _ in ins6}}
                out.append({"disc": dc6, "policy": p, "pool": pool6,
                            "ops": [["lin_all", 0, "full"], ["lin_all", 0, "full"], ["lin_all", 1, "full"], ["reopen"],
                                    ["lin_all", 1, "full"], ["add_diff", ["x0"], ["y1"]], ["lin", 0, "full"], ["entries"]]})
    return out


def outside_statement_probes(rep, scratch):
    """Behaviours next to the statement that a reader of the evidence should know about (never a verdict)."""
    poly = {"kind": "poly", "coeffs": [[1.0, 2.0]], "exps": [[1, 0], [0, 2]]}
    dc = {"func": poly, "ins": [["x0", 2]], "outs": [["y0", 1]], "self_coupled": False, "sparse": False,
          "jac_requested_only": False, "defaults": {}}
    for kind in ("simple", "memory", "memory_shared", "hdf5"):
        pol = {"type": kind, "tol": 0.0, "file": "c05_probe.h5", "node": f"probe_{kind}"}
        # negative zero: equal by value, different bytes
        d, _ = make_discipline(dc)
        apply_policy(d, pol, scratch)
        d.execute({"x0": np.array([0.0, 1.0])})
        d.execute({"x0": np.array([-0.0, 1.0])})
        if len(d.run_log) == 2:
            rep.observe(f"negative-zero-input-is-a-different-entry:{TAG[kind]}", {"runs": 2})
        # the caller edits a *returned* output array
        d.cache.clear()
        r1 = d.execute({"x0": np.array([2.0, 3.0])})
        expected = np.array(r1["y0"], copy=True)
        r1["y0"][...] = 777.0
        r2 = d.execute({"x0": np.array([2.0, 3.0])})
        if not np.array_equal(r2["y0"], expected):
            rep.observe(f"editing-a-returned-output-array-changes-the-cached-outputs:{TAG[kind]}",
                        {"served": r2["y0"], "expected": expected})
    # a listing abandoned half-way
    from gemseo.caches.hdf5_cache import HDF5Cache

    c = HDF5Cache(hdf_file_path=os.path.join(scratch, "c05_probe.h5"), hdf_node_path="probe_iter")
    c.cache_outputs({"x": np.array([1.0])}, {"y": np.array([1.0])})
    c.cache_outputs({"x": np.array([2.0])}, {"y": np.array([2.0])})
    it = c.get_all_entries()
    next(it)
    it.close()
    n_obj, n_fd = hdf5_census()
    if n_obj or n_fd:
        rep.observe("hdf5-file-left-open-after-abandoned-get_all_entries", {"h5f_file_objects": n_obj, "proc_fd": n_fd})
        list(c.get_all_entries())  # a complete listing closes it again
    try:
        list(HDF5Cache(hdf_file_path=os.path.join(scratch, "c05_probe.h5"), hdf_node_path="probe_empty").get_all_entries())
    except Exception as e:
        rep.observe("listing-an-empty-HDF5Cache-raises", f"{type(e).__name__}: {e}"[:200])
    try:
        HDF5Cache(hdf_file_path=os.path.join(scratch, "c05_probe.h5"), hdf_node_path="probe_empty").clear()
    except Exception as e:
        rep.observe("clear-of-an-empty-HDF5Cache-raises", f"{type(e).__name__}: {e}"[:200])
        n_obj, n_fd = hdf5_census()
        if n_obj or n_fd:
            rep.observe("hdf5-file-left-open-after-failed-clear", {"h5f_file_objects": n_obj, "proc_fd": n_fd})
            import gc
            import h5py

            for oid in h5py.h5f.get_obj_ids(h5py.h5f.OBJ_ALL, h5py.h5f.OBJ_FILE):
                try:
                    h5py.File(oid).close()
                except Exception:
                    pass
            gc.collect()


# =========================================================================== re-opening in a fresh interpreter
CHILD = r"""
import json, sys, logging, warnings
logging.disable(logging.CRITICAL); warnings.filterwarnings("ignore")
import numpy as np
from gemseo.caches.hdf5_cache import HDF5Cache
jobs = json.load(open(sys.argv[1]))
res = []
def dense(a):
    return np.asarray(a.toarray() if hasattr(a, "toarray") else a)
for job in jobs:
    try:
        c = HDF5Cache(hdf_file_path=job["file"], hdf_node_path=job["node"])
        ent = []
        for e in c.get_all_entries():
            ent.append([{k: np.asarray(v).tolist() for k, v in dict(e.inputs).items()},
                        {k: np.asarray(v).tolist() for k, v in dict(e.outputs).items()},
                        {o: {i: dense(b).tolist() for i, b in row.items()} for o, row in dict(e.jacobian).items()}])
        looked = []
        if job["lookup"]:
            for e in list(c.get_all_entries()):
                got = c[dict(e.inputs)]
                looked.append({k: np.asarray(v).tolist() for k, v in dict(got.outputs).items()})
        res.append({"len": len(c), "entries": ent, "lookups": looked})
    except Exception as exc:
        res.append({"error": f"{type(exc).__name__}: {exc}"})
json.dump(res, open(sys.argv[2], "w"))
"""


def reopen_in_child(jobs, rep, scratch):
    """``jobs``: [{"file", "node", "lookup", "expected": snapshot, "case"}]."""
    if not jobs:
        return
    jp, rp = os.path.join(scratch, "c05_child_jobs.json"), os.path.join(scratch, "c05_child_out.json")
    with open(jp, "w") as fh:
        json.dump([{k: j[k] for k in ("file", "node", "lookup")} for j in jobs], fh)
    try:
        res = subprocess.run([sys.executable, "-c", CHILD, jp, rp], timeout=300, capture_output=True, text=True)
    except subprocess.TimeoutExpired:
        rep.inconclusive("C05: the re-opening child interpreter hit its watchdog")
        return
    if not os.path.exists(rp):
        rep.inconclusive("C05: the re-opening child interpreter died: " + res.stderr[-400:])
        return
    with open(rp) as fh:
        out = json.load(fh)
    for job, got in zip(jobs, out):
        rep.count("reopens_in_fresh_interpreter")
        sig = "C05:HDF5Cache:reopened-in-fresh-interpreter"
        if "error" in got:
            rep.violation(f"{sig}:exception", "a cache reopened from its file serves the same entries", job["case"],
                          observed=got["error"], expected="the entries")
            continue
        exp = [[{k: v.tolist() for k, v in i.items()}, {k: v.tolist() for k, v in o.items()},
                {o_: {i_: b.tolist() for i_, b in row.items()} for o_, row in j.items()}] for i, o, j in job["expected"]]
        if got["len"] != len(exp) or got["entries"] != exp:
            rep.violation(f"{sig}:entries-differ", "a cache reopened from its file serves the same entries", job["case"],
                          observed={"len": got["len"], "entries": got["entries"]}, expected={"len": len(exp), "entries": exp})
            continue
        if job["lookup"]:
            want = [e[1] for e in exp]
            if got["lookups"] != want:
                rep.violation(f"{sig}:lookup-differs", "a cache reopened from its file serves the same entries",
                              job["case"], observed=got["lookups"], expected=want)


# =========================================================================== entry points
def run_history(case, rep, scratch, jobs=None):
    rep.case(case_signature(case), nontrivial(case))
    r = Runner(case, rep, scratch).run()
    if jobs is not None and r.kind == "hdf5" and not r.violated:
        if len(r.C.cache) == 0:
            return  # nothing was stored under this node (listing an empty HDF5Cache raises, see the probes)
        try:
            snap = r.snapshot(r.C.cache)
        except Exception:
            return  # already judged by the final check_entries() of the history
        jobs.append({"file": os.path.join(scratch, r.pol["file"]), "node": r.pol["node"],
                     "lookup": not case["policy"].get("collide", 0), "expected": snap, "case": case})


def run_shard(spec, rep):
    rng = np.random.default_rng(spec["seed"])
    scratch = spec["scratch"]
    jobs = []
    shard = int(spec.get("shard", 0))
    for j, case in enumerate(directed_cases()):
        if j % N_SHARDS == shard:  # spread over the shards; every run executes all of them
            run_history(case, rep, scratch, jobs)
            rep.count("directed_cases")
    if shard == 0:
        outside_statement_probes(rep, scratch)
    for h in range(spec["n_hist"]):
        if rep.time_left() < 0:
            rep.count("stopped_on_time_budget")
            break
        case = gen_case(rng, 1000 * shard + h)
        run_history(case, rep, scratch, jobs)
        if h < 1:
            rep.sample({"case": {"policy": case["policy"], "disc": {k: case["disc"][k] for k in ("ins", "outs", "defaults", "sparse", "block_formats") if k in case["disc"]},
                                 "ops": case["ops"][:12]},
                        "note": "history judged call by call against an uncached twin; run log, invariant, entries, census"})
    cap = 40 if spec.get("tier") == "quick" else 400
    reopen_in_child(jobs[:cap], rep, scratch)


def replay(case, rep):
    case = {k: v for k, v in case.items() if k != "failing_step"}
    jobs = []
    run_history(case, rep, rep.spec["scratch"], jobs)
    reopen_in_child(jobs, rep, rep.spec["scratch"])
