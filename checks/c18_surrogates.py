"""C18 — surrogate models are consistent with their own predictions and data.

Monitors: (M4) Richardson-extrapolated central differences of the model's *own* ``predict`` as
reference for ``predict_jacobian``; the learning set as reference for interpolating models; finite
differences of ``transform`` / ``inverse_transform`` for the transformer Jacobians; bitwise twin
(``model.predict`` / ``predict_jacobian``) for ``SurrogateDiscipline``; (M7) numeric traps recorded
as observations; (M8) anchors.  See DESIGN.md section 3, C18.

Clauses of the statement and what decides them here

1. ``jacobian``     : predict_jacobian(x) == d predict / dx   (three call forms: 1-D array, dict, 2-D batch)
2. ``interpolation``: interpolating models reproduce their learning outputs
3. ``transformer``  : inverse_transform(transform(X)) == X, compute_jacobian == d transform / dx,
                      compute_jacobian_inverse == d inverse_transform / dy == inverse matrix
4. ``surrogate``    : SurrogateDiscipline.execute / linearize == model.predict / predict_jacobian (bitwise)
"""

from __future__ import annotations

import numpy as np

from vlib.harness import subseed

PID = "C18"
LEVEL = "exploration"
RULE = (
    "seeded generator over (regressor class and settings: linear/ridge/lasso/elastic-net, polynomial degree 1-4, "
    "RBF with the 7 kernels x epsilon {default, 0.5, 1, 2, random} x smooth, TPS, PCE, mixture of experts, "
    "regressor chains, OpenTURNS and scikit-learn Gaussian processes, regressors without derivatives) x "
    "(input transformer) x (output transformer) with transformers in {none, default, MinMaxScaler, StandardScaler, "
    "Scaler(offset, coefficient), Power, BoxCox, YeoJohnson, PCA full-rank or reduced, Pipeline} given per group "
    "or per variable x (learning set: 1-3 inputs and 1-3 outputs split over 1-2 variables, 8-40 points, "
    "box placement/scale, constant output component, learning subset) plus stand-alone transformer cases and a "
    "systematic sweep (every RBF kernel x epsilon x transformer); a case is distinct by that tuple (function "
    "coefficients, sample values and query points excluded) and non-trivial when at least one clause of the "
    "statement was actually judged on it (Jacobian available and finite-difference reference reliable, or "
    "interpolating model, or lossless transformer)"
)
ASSUMPTIONS = [
    "the reference derivative is a Richardson-extrapolated central difference (steps h and h/2, h = 5e-4 of the "
    "input range) of the model's own predict; a point is judged only when the references obtained with (h, h/2) "
    "and (2h, h) agree within the relative tolerance, and 10 times their disagreement is added to the tolerance "
    "rtol*(1+|J|_row), rtol = 1e-6 + 1e-11*cond(kernel or covariance matrix) (2e-5 for PCERegressor: OpenTURNS' "
    "iso-probabilistic gradient carries a 2.5e-6 relative error); Jacobian values of kernel models with rtol > 1e-2 "
    "are not judged (prediction noise eps*cond is coherent and invisible to step comparison), only availability and shape",
    "query points are kept at a normalised distance >= 0.02 from the learning points (kernels not smooth at nodes) and, "
    "for the hard mixture of experts, all stencil points must be classified like the query point",
    "interpolation is demanded (1e-8*scale; scikit-learn GP 1e-6) only from models that interpolate by construction "
    "(RBF/TPS with smooth=0, square polynomial/linear systems without penalty, Gaussian processes, chains whose last "
    "or first stage is an RBF interpolant) with lossless transformers and a kernel/design matrix of condition number "
    "<= 1e6 (OpenTURNS GP 1e8, scikit-learn GP 1e4); the scale includes the measured amplification of the inverse "
    "output transformer",
    "round trips through scikit-learn power transforms are judged only when the raw transformed sample keeps a "
    "relative spread >= 1e-6 (extreme fitted exponents lose the digits in the forward map)",
    "training failures are outside the statement and recorded as observations",
    "numpy, scipy, scikit-learn and OpenTURNS are trusted",
]
ANCHORS = [
    "gemseo.mlearning.core.algos.supervised:BaseMLSupervisedAlgo.predict",
    "gemseo.mlearning.regression.algos.base_regressor:BaseRegressor.predict_jacobian",
    "gemseo.mlearning.regression.algos.rbf:RBFRegressor._predict_jacobian",
    "gemseo.mlearning.regression.algos.rbf:RBFRegressor.RBFDerivatives.der_multiquadric",
    "gemseo.mlearning.regression.algos.rbf:RBFRegressor.RBFDerivatives.der_inverse_multiquadric",
    "gemseo.mlearning.regression.algos.rbf:RBFRegressor.RBFDerivatives.der_gaussian",
    "gemseo.mlearning.regression.algos.rbf:RBFRegressor.RBFDerivatives.der_linear",
    "gemseo.mlearning.regression.algos.rbf:RBFRegressor.RBFDerivatives.der_cubic",
    "gemseo.mlearning.regression.algos.rbf:RBFRegressor.RBFDerivatives.der_quintic",
    "gemseo.mlearning.regression.algos.rbf:RBFRegressor.RBFDerivatives.der_thin_plate",
    "gemseo.mlearning.regression.algos.linreg:LinearRegressor._predict_jacobian",
    "gemseo.mlearning.regression.algos.polyreg:PolynomialRegressor._predict_jacobian",
    "gemseo.mlearning.regression.algos.pce:PCERegressor._predict_jacobian",
    "gemseo.mlearning.regression.algos.moe:MOERegressor._predict_jacobian_hard",
    "gemseo.mlearning.regression.algos.regressor_chain:RegressorChain._predict_jacobian",
    "gemseo.mlearning.regression.algos.ot_gpr:OTGaussianProcessRegressor._predict_jacobian",
    "gemseo.mlearning.transformers.scaler.scaler:Scaler.compute_jacobian",
    "gemseo.mlearning.transformers.scaler.scaler:Scaler.compute_jacobian_inverse",
    "gemseo.mlearning.transformers.dimension_reduction.pca:PCA.compute_jacobian",
    "gemseo.mlearning.transformers.dimension_reduction.pca:PCA.compute_jacobian_inverse",
    "gemseo.mlearning.transformers.pipeline:Pipeline.compute_jacobian",
    "gemseo.mlearning.transformers.pipeline:Pipeline.compute_jacobian_inverse",
    "gemseo.mlearning.transformers.power.power:Power.inverse_transform",
    "gemseo.disciplines.surrogate:SurrogateDiscipline._run",
    "gemseo.disciplines.surrogate:SurrogateDiscipline._compute_jacobian",
]
_NOJAC_MIN = {f"jacobian_not_implemented:regressor:{n}": 1 for n in (
    "GaussianProcessRegressor", "GradientBoostingRegressor", "MLPRegressor", "RandomForestRegressor", "SVMRegressor")}
_NOJAC_MIN.update({"jacobian_not_implemented:moe-soft": 1, "jacobian_not_implemented:per-variable-transformers": 1,
                   "jacobian_not_implemented:rbf-non-euclidean-norm": 1,
                   "jacobian_not_implemented:rbf-callable-without-derivative": 1,
                   "jacobian_not_implemented:power-transformer-has-no-jacobian": 10})
# quick: about half of what seed 0 observes.  thorough: the transformer counters (run first, never capped) are half of
# what seed 0 observes; the model counters are about 0.6 of what a run capped by budget_s on a machine loaded 20 times
# over observed (jacobian_oracle_evaluations: 40 469 capped, 120 726 complete), so that a capped run stays conclusive.
MIN_COUNTERS = {
    "quick": dict({
        "jacobian_oracle_evaluations": 2200, "jacobian_dict_form_checked": 1800, "jacobian_batch_form_checked": 1700,
        "interpolation_checked": 190, "surrogate_execute_checked": 1600, "surrogate_linearize_checked": 1400,
        "transformer_roundtrip_checked": 240, "transformer_jacobian_checked": 500,
        "transformer_jacobian_inverse_checked": 500, "transformer_inverse_matrix_checked": 500,
        "jacobian_not_implemented": 60, "transformer_jacobian_not_implemented": 50,
        "jacobian_checked:kernel=multiquadric": 70, "jacobian_checked:kernel=inverse_multiquadric": 70,
        "jacobian_checked:kernel=gaussian": 70, "jacobian_checked:kernel=linear": 70, "jacobian_checked:kernel=cubic": 70,
        "jacobian_checked:kernel=quintic": 70, "jacobian_checked:kernel=thin_plate": 70,
        "jacobian_checked:LinearRegressor": 180, "jacobian_checked:PolynomialRegressor": 350,
        "jacobian_checked:RBFRegressor": 800, "jacobian_checked:TPSRegressor": 80, "jacobian_checked:PCERegressor": 220,
        "jacobian_checked:MOERegressor": 150, "jacobian_checked:RegressorChain": 200,
        "jacobian_checked:OTGaussianProcessRegressor": 35,
        "interpolation_checked:RBFRegressor": 120, "interpolation_checked:TPSRegressor": 10,
        "interpolation_checked:RegressorChain": 15, "interpolation_checked:PolynomialRegressor": 10,
        "interpolation_checked:OTGaussianProcessRegressor": 7, "interpolation_checked:LinearRegressor": 2,
        "interpolation_checked:GaussianProcessRegressor": 2,
        "composite_cases_with_sub_model_transformers": 85,
        "composite_cases_with_sub_model_transformers:MOERegressor": 32,
        "composite_cases_with_sub_model_transformers:RegressorChain": 50,
        "jacobian_checked:composite_with_sub_model_transformers:MOERegressor": 140,
        "jacobian_checked:composite_with_sub_model_transformers:RegressorChain": 200,
        "surrogate_linearize_checked:composite_with_sub_model_transformers": 230,
        "lifecycle_cases": 110, "models_retrained_on_another_learning_set": 300,
        "clauses_judged_after_retraining": 6500, "surrogate_built_before_retraining_checked": 1800,
        "accessor_closed_form_checked": 210, "models_retrained_on_another_learning_set:LinearRegressor": 40,
        "retrained_equals_fresh_instance_checked": 300,
    }, **_NOJAC_MIN),
    "thorough": dict({
        "jacobian_oracle_evaluations": 25000, "jacobian_dict_form_checked": 19000, "jacobian_batch_form_checked": 19000,
        "interpolation_checked": 1700, "surrogate_execute_checked": 19000, "surrogate_linearize_checked": 17000,
        "transformer_roundtrip_checked": 4700, "transformer_jacobian_checked": 10000,
        "transformer_jacobian_inverse_checked": 10000, "transformer_inverse_matrix_checked": 10000,
        "jacobian_not_implemented": 700, "transformer_jacobian_not_implemented": 1100,
        "jacobian_checked:kernel=multiquadric": 900, "jacobian_checked:kernel=inverse_multiquadric": 900,
        "jacobian_checked:kernel=gaussian": 900, "jacobian_checked:kernel=linear": 900, "jacobian_checked:kernel=cubic": 900,
        "jacobian_checked:kernel=quintic": 900, "jacobian_checked:kernel=thin_plate": 900,
        "jacobian_checked:LinearRegressor": 2500, "jacobian_checked:PolynomialRegressor": 4000,
        "jacobian_checked:RBFRegressor": 7500, "jacobian_checked:TPSRegressor": 1700, "jacobian_checked:PCERegressor": 3500,
        "jacobian_checked:MOERegressor": 2300, "jacobian_checked:RegressorChain": 3000,
        "jacobian_checked:OTGaussianProcessRegressor": 500,
        "interpolation_checked:RBFRegressor": 950, "interpolation_checked:TPSRegressor": 220,
        "interpolation_checked:RegressorChain": 200, "interpolation_checked:PolynomialRegressor": 150,
        "interpolation_checked:OTGaussianProcessRegressor": 100, "interpolation_checked:LinearRegressor": 40,
        "interpolation_checked:GaussianProcessRegressor": 50,
        "composite_cases_with_sub_model_transformers": 1000,
        "composite_cases_with_sub_model_transformers:MOERegressor": 300,
        "composite_cases_with_sub_model_transformers:RegressorChain": 650,
        "jacobian_checked:composite_with_sub_model_transformers:MOERegressor": 1300,
        "jacobian_checked:composite_with_sub_model_transformers:RegressorChain": 2600,
        "surrogate_linearize_checked:composite_with_sub_model_transformers": 2600,
        "lifecycle_cases": 1100, "models_retrained_on_another_learning_set": 3200,
        "clauses_judged_after_retraining": 66000, "surrogate_built_before_retraining_checked": 18000,
        "accessor_closed_form_checked": 2000, "models_retrained_on_another_learning_set:LinearRegressor": 400,
        "retrained_equals_fresh_instance_checked": 3200,
    }, **_NOJAC_MIN),
}
SHARD_TIMEOUT = {"quick": 700, "thorough": 1500}

N_SHARDS = 16
KERNELS = ["multiquadric", "inverse_multiquadric", "gaussian", "linear", "cubic", "quintic", "thin_plate"]
UNSCALED = {"linear": 1, "cubic": 3, "quintic": 5, "thin_plate": None}  # kernels SciPy evaluates at r, not r/epsilon
NO_JACOBIAN = ["GaussianProcessRegressor", "GradientBoostingRegressor", "MLPRegressor", "RandomForestRegressor",
               "SVMRegressor"]
POWER = ("Power", "BoxCox", "YeoJohnson")
H_REL = 5e-4
MIN_DIST = 0.02


def shards(tier, seed):
    per_model = {"quick": 130, "thorough": 2000}[tier]
    per_transf = {"quick": 60, "thorough": 600}[tier]
    # budget_s is only a cap for an overloaded machine (about 10x the CPU time a shard needs); counts size the tiers
    return [{"seed": subseed(seed, PID, i), "n_model": per_model, "n_transf": per_transf, "n_shards": N_SHARDS,
             "budget_s": {"quick": 400, "thorough": 800}[tier]} for i in range(N_SHARDS)]


# =========================================================================== generation
def _r(v, d=3):
    return np.round(np.asarray(v, dtype=float), d).tolist()


def _split(rng, total, prefix):
    if total == 1 or rng.random() < 0.4:
        return {f"{prefix}1": int(total)}
    k = int(rng.integers(1, total))
    return {f"{prefix}1": k, f"{prefix}2": int(total - k)}


def gen_data(rng, *, positive=False, n_in=None, n_out=None, n=None, allow_constant=True, mild_box=False):
    n_in = int(rng.integers(1, 4)) if n_in is None else n_in
    n_out = int(rng.integers(1, 4)) if n_out is None else n_out
    if n is None:
        n = int(rng.integers(8, 15)) if n_in == 1 else int(rng.integers(10, 41))
    lb, ub = [], []
    for _ in range(n_in):
        kind = ["unit", "sym", "shift", "wide", "small"][int(rng.integers(3 if mild_box else 5))]
        if kind == "unit":
            a, b = 0.0, 1.0
        elif kind == "sym":
            a, b = -2.0, 2.0
        elif kind == "shift":
            a = float(np.round(rng.uniform(5, 20), 1))
            b = a + float(np.round(rng.uniform(0.5, 3), 1))
        elif kind == "wide":
            a, b = 0.0, float(np.round(rng.uniform(100, 1000)))
        else:
            a, b = 0.0, 0.01
        lb.append(a)
        ub.append(b)
    func = {
        "c": _r(rng.uniform(-1, 1, n_out)),
        "lin": _r(rng.uniform(-1, 1, (n_out, n_in))),
        "amp": _r(rng.uniform(0.2, 1, (n_out, 2))),
        "w": _r(rng.uniform(-3, 3, (n_out, 2, n_in))),
        "ph": _r(rng.uniform(0, 3, (n_out, 2))),
        "q": _r(rng.uniform(-1, 1, n_out)),
        "u": _r(rng.uniform(-1, 1, (n_out, n_in))),
        "scale": [float(rng.choice([1.0, 1.0, 100.0, 0.01])) for _ in range(n_out)],
        "off": _r(rng.uniform(-5, 5, n_out), 1),
        "constant": [],
        "positive": bool(positive),
    }
    if allow_constant and not positive and n_out > 1 and rng.random() < 0.1:
        func["constant"] = [int(rng.integers(n_out))]
    return {"n": int(n), "in_sizes": _split(rng, n_in, "x"), "out_sizes": _split(rng, n_out, "y"),
            "lb": lb, "ub": ub, "func": func, "seed": int(rng.integers(2 ** 31))}


def f_eval(func, z):
    """Closed-form smooth test function of the normalised inputs ``z`` (N, n_in) -> (N, n_out)."""
    z = np.atleast_2d(z)
    c, lin, amp = np.array(func["c"]), np.array(func["lin"]), np.array(func["amp"])
    w, ph, q, u = np.array(func["w"]), np.array(func["ph"]), np.array(func["q"]), np.array(func["u"])
    g = c[None, :] + z @ lin.T
    for t in range(2):
        g = g + amp[None, :, t] * np.sin(z @ w[:, t, :].T + ph[None, :, t])
    g = g + q[None, :] * (z @ u.T) ** 2
    s = np.array(func["scale"])[None, :]
    if func["positive"]:
        y = s * np.exp(0.5 * g)
    else:
        y = s * g + np.array(func["off"])[None, :]
    for k in func["constant"]:
        y[:, k] = 3.0
    return y


def make_xy(data):
    rng = np.random.default_rng(data["seed"])
    lb, ub = np.array(data["lb"]), np.array(data["ub"])
    z = rng.uniform(0, 1, (data["n"], len(lb)))
    return lb + (ub - lb) * z, f_eval(data["func"], z), z


def make_dataset(data):
    from gemseo.datasets.io_dataset import IODataset

    x, y, z = make_xy(data)
    ds = IODataset(dataset_name="c18")
    ds.add_input_group(x.copy(), list(data["in_sizes"]), dict(data["in_sizes"]))
    ds.add_output_group(y.copy(), list(data["out_sizes"]), dict(data["out_sizes"]))
    return ds, x, y, z


def gen_transformer(rng, dim, *, positive=False, allow_power=True, allow_lossy=False, depth=0):
    """A transformer spec for a group of dimension ``dim``."""
    kinds = ["MinMaxScaler", "StandardScaler", "Scaler", "ScalerVec", "PCA", "PCAscaled"]
    if allow_power:
        kinds += ["Power", "YeoJohnson"] + (["BoxCox"] if positive else [])
    if depth == 0:
        kinds += ["Pipeline", "Pipeline"]
    if allow_lossy and dim > 1:
        kinds += ["PCAlossy"]
    k = kinds[int(rng.integers(len(kinds)))]
    if k in ("MinMaxScaler", "StandardScaler"):
        return {"kind": k}
    if k == "Scaler":
        return {"kind": "Scaler", "offset": float(np.round(rng.uniform(-5, 5), 2)),
                "coefficient": float(np.round(rng.choice([-1, 1]) * 10 ** rng.uniform(-1, 1), 3))}
    if k == "ScalerVec":
        return {"kind": "Scaler", "offset": _r(rng.uniform(-5, 5, dim), 2),
                "coefficient": _r(rng.choice([-1, 1], dim) * 10 ** rng.uniform(-1, 1, dim), 3)}
    if k == "PCA":
        return {"kind": "PCA", "scale": False}
    if k == "PCAscaled":
        return {"kind": "PCA", "scale": True}
    if k == "PCAlossy":
        return {"kind": "PCA", "scale": bool(rng.random() < 0.5), "n_components": int(rng.integers(1, dim))}
    if k in POWER:
        return {"kind": k, "standardize": bool(rng.random() < 0.7)}
    # pipeline of 0-3 stages; a power transform may only come first (its input must stay in its domain)
    n = int(rng.integers(0, 4)) if rng.random() < 0.9 else 0
    stages = []
    for i in range(n):
        stages.append(gen_transformer(rng, dim, positive=positive and i == 0, allow_power=allow_power and i == 0,
                                      depth=1))
    return {"kind": "Pipeline", "stages": stages}


def t_kind(spec):
    if spec is None:
        return "none"
    if spec == "default":
        return "default"
    k = spec["kind"]
    if k == "Pipeline":
        return "Pipeline[" + ",".join(t_kind(s) for s in spec["stages"]) + "]"
    if k == "PCA":
        return "PCA" + ("s" if spec.get("scale") else "") + ("lossy" if spec.get("n_components") else "")
    if k == "Scaler":
        return "Scaler" + ("vec" if isinstance(spec["offset"], list) else "")
    return k


def t_has(spec, names):
    if spec in (None, "default"):
        return False
    if spec["kind"] == "Pipeline":
        return any(t_has(s, names) for s in spec["stages"])
    return spec["kind"] in names


def t_lossless(spec):
    if spec in (None, "default"):
        return True
    if spec["kind"] == "Pipeline":
        return all(t_lossless(s) for s in spec["stages"])
    return not (spec["kind"] == "PCA" and spec.get("n_components"))


def build_transformer(spec):
    from gemseo.mlearning.transformers.dimension_reduction.pca import PCA
    from gemseo.mlearning.transformers.pipeline import Pipeline
    from gemseo.mlearning.transformers.power.boxcox import BoxCox
    from gemseo.mlearning.transformers.power.power import Power
    from gemseo.mlearning.transformers.power.yeo_johnson import YeoJohnson
    from gemseo.mlearning.transformers.scaler.min_max_scaler import MinMaxScaler
    from gemseo.mlearning.transformers.scaler.scaler import Scaler
    from gemseo.mlearning.transformers.scaler.standard_scaler import StandardScaler

    k = spec["kind"]
    if k == "MinMaxScaler":
        return MinMaxScaler()
    if k == "StandardScaler":
        return StandardScaler()
    if k == "Scaler":
        off, coef = spec["offset"], spec["coefficient"]
        return Scaler(offset=np.array(off) if isinstance(off, list) else off,
                      coefficient=np.array(coef) if isinstance(coef, list) else coef)
    if k == "PCA":
        return PCA(n_components=spec.get("n_components"), scale=bool(spec.get("scale")))
    if k == "Pipeline":
        return Pipeline(transformers=[build_transformer(s) for s in spec["stages"]])
    cls = {"Power": Power, "BoxCox": BoxCox, "YeoJohnson": YeoJohnson}[k]
    return cls(standardize=bool(spec.get("standardize", True)))


# --------------------------------------------------------------------------- regressors
def gen_rbf_settings(rng, scaled_only=False):
    fn = KERNELS[int(rng.integers(3 if scaled_only else 7))]
    eps = [None, 0.5, 1.0, 2.0, float(np.round(10 ** rng.uniform(-0.7, 0.7), 3))][int(rng.integers(5))]
    s = {"function": fn}
    if eps is not None:
        s["epsilon"] = eps
    if rng.random() < 0.2:
        s["smooth"] = float(rng.choice([0.01, 0.1]))
    return s


def gen_lin_settings(rng):
    s = {}
    if rng.random() < 0.3:
        s["fit_intercept"] = False
    r = rng.random()
    if r < 0.45:
        s["penalty_level"] = float(rng.choice([0.001, 0.05]))
        s["l2_penalty_ratio"] = float(rng.choice([0.0, 0.5, 1.0]))
    return s


def gen_sub_regressor(rng):
    r = rng.random()
    if r < 0.3:
        return {"name": "LinearRegressor", "settings": gen_lin_settings(rng)}
    if r < 0.55:
        return {"name": "PolynomialRegressor", "settings": dict(gen_lin_settings(rng), degree=int(rng.integers(2, 4)))}
    s = gen_rbf_settings(rng)
    if s["function"] in UNSCALED:
        s["epsilon"] = 1.0  # the epsilon defect of these kernels is judged on RBFRegressor itself (own signature)
    return {"name": "RBFRegressor", "settings": s}


def gen_model_case(rng):
    fams = ["LinearRegressor"] * 3 + ["PolynomialRegressor"] * 5 + ["RBFRegressor"] * 10 + ["TPSRegressor"] * 2 + \
           ["PCERegressor"] * 4 + ["MOERegressor"] * 3 + ["RegressorChain"] * 4 + ["OTGaussianProcessRegressor"] * 2 + \
           ["GaussianProcessRegressor"] + ["NOJAC"]
    name = fams[int(rng.integers(len(fams)))]
    reg = {"name": name, "settings": {}}
    dkw = {}
    if name == "NOJAC":
        name = reg["name"] = NO_JACOBIAN[1 + int(rng.integers(len(NO_JACOBIAN) - 1))]
        dkw = {"n": int(rng.integers(10, 21))}
    elif name == "LinearRegressor":
        reg["settings"] = gen_lin_settings(rng)
        if rng.random() < 0.15 and "penalty_level" not in reg["settings"]:
            reg["square"] = True
    elif name == "PolynomialRegressor":
        reg["settings"] = dict(gen_lin_settings(rng), degree=int(rng.integers(1, 5)))
        if rng.random() < 0.2:
            reg["settings"] = {"degree": int(rng.integers(1, 4))}
            reg["square"] = True
    elif name == "RBFRegressor":
        reg["settings"] = gen_rbf_settings(rng)
    elif name == "TPSRegressor":
        s = gen_rbf_settings(rng)
        s.pop("function")
        reg["settings"] = s
    elif name == "PCERegressor":
        reg["settings"] = {"degree": int(rng.integers(1, 4))}
        if rng.random() < 0.3:
            reg["settings"]["use_lars"] = True
        elif rng.random() < 0.2:
            reg["settings"]["use_cleaning"] = True
        reg["dist"] = ["uniform", "normal"][int(rng.integers(2))]
        dkw = {"n": int(rng.integers(25, 41))}
    elif name == "MOERegressor":
        reg["n_clusters"] = int(rng.integers(2, 4))
        reg["n_neighbors"] = int(rng.choice([1, 3, 5]))
        reg["sub"] = gen_sub_regressor(rng)
        dkw = {"n": int(rng.integers(30, 41)), "n_in": int(rng.integers(1, 3))}
    elif name == "RegressorChain":
        reg["chain"] = [gen_sub_regressor(rng) for _ in range(int(rng.integers(1, 4)))]
    elif name == "OTGaussianProcessRegressor":
        reg["settings"] = {"trend": ["constant", "linear", "quadratic"][int(rng.integers(3))],
                           "covariance_model": ["Matern52", "Matern32", "SquaredExponential"][int(rng.integers(3))]}
        dkw = {"n": int(rng.integers(10, 21))}
    elif name == "GaussianProcessRegressor":
        dkw = {"n": int(rng.integers(10, 21))}

    # transformers
    r = rng.random()
    want_power_out = False
    if r < 0.12:
        tmode = "default"
    elif r < 0.24:
        tmode = "none"
    else:
        tmode = "groups"
        want_power_out = rng.random() < 0.2
    mild = bool(reg.get("square")) or name in ("PolynomialRegressor", "PCERegressor")
    data = gen_data(rng, positive=want_power_out and rng.random() < 0.7, mild_box=mild, **dkw)
    n_in, n_out = len(data["lb"]), sum(data["out_sizes"].values())
    if reg.get("square"):
        # as many points as coefficients (intercept included): the least-squares problem has a unique, interpolating solution
        from math import comb

        reg["settings"].pop("fit_intercept", None)

        deg = reg["settings"].get("degree", 1)
        if n_in == 3 and deg > 2:
            deg = reg["settings"]["degree"] = 2
        data["n"] = comb(n_in + deg, deg)
    case = {"kind": "model", "reg": reg, "data": data, "tin": None, "tout": None, "by_name": False,
            "qseed": int(rng.integers(2 ** 31)), "via_discipline": bool(rng.random() < 0.25)}
    if tmode == "default":
        case["tin"] = case["tout"] = "default"
    elif tmode == "groups":
        lossy_ok = not reg.get("square")
        if name != "PCERegressor" and rng.random() < 0.7:
            case["tin"] = gen_transformer(rng, n_in, allow_power=rng.random() < 0.15, allow_lossy=lossy_ok)
        if rng.random() < 0.75 or case["tin"] is None:
            case["tout"] = gen_transformer(rng, n_out, positive=data["func"]["positive"],
                                           allow_power=want_power_out, allow_lossy=lossy_ok)
        # per-variable transformers (the Jacobian is documented as not implemented there)
        if rng.random() < 0.06 and not t_has(case["tin"], ("PCA",)) and not t_has(case["tout"], ("PCA",)):
            case["by_name"] = True
    if t_has(case["tin"], POWER) or t_has(case["tout"], POWER):
        data["func"]["constant"] = []
    # learning subset and variable subset
    if rng.random() < 0.1 and not case["by_name"] and name not in ("MOERegressor", "PCERegressor") and not reg.get("square"):
        k = int(rng.integers(max(6, data["n"] // 2), data["n"]))
        rs = np.random.default_rng(case["qseed"])
        case["samples"] = sorted(int(i) for i in rs.choice(data["n"], size=k, replace=False))
    if rng.random() < 0.12 and len(data["out_sizes"]) == 2 and case["tout"] in (None, "default") \
            and name != "OTGaussianProcessRegressor":
        case["output_names"] = [list(data["out_sizes"])[int(rng.integers(2))]]
    # composite regressors: every sub-model may carry its own transformers (same families as at top level), drawn
    # independently of the transformers of the composite; they act on what the composite hands to its sub-models
    subs = reg.get("chain", []) + ([reg["sub"]] if "sub" in reg else [])
    if subs:
        raw_out = n_out
        if "output_names" in case:
            raw_out = data["out_sizes"][case["output_names"][0]]
        if isinstance(case["tout"], dict) and case["tout"].get("n_components"):
            raw_out = case["tout"]["n_components"]
        raw_in = n_in
        if isinstance(case["tin"], dict) and case["tin"].get("n_components"):
            raw_in = case["tin"]["n_components"]
        for sub in subs:
            gen_sub_transformers(rng, sub, raw_in, raw_out)
            # single raw output + lasso/elastic-net is judged on LinearRegressor/PolynomialRegressor themselves (own
            # signature: scikit-learn's 1-D coef_); composite models use ridge there: judged on their own logic
            sub_out = raw_out
            if isinstance(sub.get("tout"), dict) and sub["tout"].get("n_components"):
                sub_out = sub["tout"]["n_components"]
            if sub_out == 1 and sub["settings"].get("penalty_level") and sub["settings"].get("l2_penalty_ratio") != 1.0:
                sub["settings"]["l2_penalty_ratio"] = 1.0
    # model life cycle: the same instance trained on a subset, another subset, all samples, an enriched dataset
    if rng.random() < 0.2 and not reg.get("square") and "samples" not in case:
        case["lifecycle"] = True
        case["via_discipline"] = False
    return case


def reg_features(reg):
    f = _reg_features(reg)
    if "tin" in reg or "tout" in reg or reg.get("explicit_none"):
        f = (*f, "own-transformers", t_kind(reg.get("tin")), t_kind(reg.get("tout")), bool(reg.get("explicit_none")))
    return f


def _reg_features(reg):
    name = reg["name"]
    s = reg.get("settings", {})
    if name in ("RBFRegressor", "TPSRegressor"):
        fn = reg.get("callable") or s.get("function", "thin_plate" if name == "TPSRegressor" else "multiquadric")
        eps = s.get("epsilon")
        return (name, fn, "default" if eps is None else ("1" if eps == 1.0 else "!=1"), s.get("smooth", 0) > 0,
                s.get("norm", "euclidean"))
    if name in ("LinearRegressor", "PolynomialRegressor"):
        pen = "none"
        if s.get("penalty_level"):
            pen = {0.0: "lasso", 1.0: "ridge"}.get(s.get("l2_penalty_ratio", 1.0), "elasticnet")
        return (name, s.get("degree", 1), pen, s.get("fit_intercept", True), bool(reg.get("square")))
    if name == "PCERegressor":
        return (name, s.get("degree"), bool(s.get("use_lars")), bool(s.get("use_cleaning")), reg.get("dist"))
    if name == "MOERegressor":
        return (name, reg.get("hard", True), reg.get("n_clusters"), reg_features(reg["sub"]))
    if name == "RegressorChain":
        return (name, tuple(reg_features(r) for r in reg["chain"]))
    if name == "OTGaussianProcessRegressor":
        return (name, s.get("trend"), s.get("covariance_model"))
    return (name,)


def case_signature(case):
    if case["kind"] == "transformer":
        return ("transformer", t_kind(case["spec"]), case["dim"], case["n"] > 0)
    d = case["data"]
    return ("model", reg_features(case["reg"]), t_kind(case["tin"]), t_kind(case["tout"]), case["by_name"],
            tuple(d["in_sizes"].values()), tuple(d["out_sizes"].values()), bool(d["func"]["constant"]),
            "samples" in case, "output_names" in case, case.get("via_discipline", False), bool(case.get("lifecycle")))


# =========================================================================== model construction
def _custom_mq(self, r):
    return np.sqrt((r / self.epsilon) ** 2 + 1)


def _custom_mq_der(x, nx, eps):
    return x / eps ** 2 / np.sqrt((nx / eps) ** 2 + 1)


def _custom_r3(self, r):
    return r ** 3


def _custom_r3_der(x, nx, eps):
    # derivative of the kernel SciPy evaluates, r**3 (SciPy hands the unscaled r to a callable)
    return 3 * nx * x


CALLABLES = {"custom_multiquadric": (_custom_mq, _custom_mq_der), "custom_r3": (_custom_r3, _custom_r3_der)}


def transformer_dict(case, data):
    tin, tout = case["tin"], case["tout"]
    if tin == "default" and tout == "default":
        # BaseRegressor.DEFAULT_TRANSFORMER (what create_regression_model and SurrogateDiscipline use when nothing is
        # given; a regressor built directly has *no* transformer by default): given explicitly
        mm = {"kind": "MinMaxScaler"}
        t = {"outputs": build_transformer(mm)}
        if case["reg"]["name"] != "PCERegressor":
            t["inputs"] = build_transformer(mm)
        return t
    t = {}
    if case["by_name"]:
        # one transformer per variable, generated for a group: rebuild a per-variable variant
        for spec, sizes in ((tin, data["in_sizes"]), (tout, data["out_sizes"])):
            if spec is None:
                continue
            for name, size in sizes.items():
                t[name] = build_transformer(_resize(spec, size))
        return t
    if tin is not None:
        t["inputs"] = build_transformer(tin)
    if tout is not None:
        t["outputs"] = build_transformer(tout)
    return t


def _resize(spec, size):
    """Adapt vector-valued Scaler parameters to a variable of another size."""
    if spec["kind"] == "Pipeline":
        return {"kind": "Pipeline", "stages": [_resize(s, size) for s in spec["stages"]]}
    if spec["kind"] == "Scaler" and isinstance(spec["offset"], list):
        return {"kind": "Scaler", "offset": (spec["offset"] * size)[:size], "coefficient": (spec["coefficient"] * size)[:size]}
    return spec


def sub_has_transformers(sub):
    return sub.get("tin") is not None or sub.get("tout") is not None


def sub_transformer_dict(sub):
    """The sub-model's own transformers (None: argument not given, the library default applies)."""
    if not sub_has_transformers(sub) and not sub.get("explicit_none"):
        return None
    t = {}
    for key, spec in (("inputs", sub.get("tin")), ("outputs", sub.get("tout"))):
        if spec == "default":
            spec = {"kind": "MinMaxScaler"}
        if spec is not None:
            t[key] = build_transformer(spec)
    return t


def sub_kwargs(sub):
    kw = dict(sub["settings"])
    t = sub_transformer_dict(sub)
    if t is not None:
        kw["transformer"] = t
    return kw


def gen_sub_transformers(rng, sub, dim_in, dim_out):
    """Give a sub-model of a composite regressor its own transformers, independently of those of the composite."""
    r = rng.random()
    if r < 0.3:
        return
    if r < 0.4:
        sub["explicit_none"] = True
        return
    if r < 0.55:
        sub["tin"] = sub["tout"] = "default"
        return
    if rng.random() < 0.7:
        sub["tin"] = gen_transformer(rng, dim_in, allow_power=rng.random() < 0.1, allow_lossy=True)
    if rng.random() < 0.7 or sub.get("tin") is None:
        sub["tout"] = gen_transformer(rng, dim_out, positive=False, allow_power=rng.random() < 0.1, allow_lossy=True)


def build_model(case, ds, train=True):
    """Build (and train unless ``train`` is False) the model of a case; returns (model, discipline or None)."""
    from gemseo.mlearning.regression.algos.factory import RegressorFactory

    reg, data = case["reg"], case["data"]
    name = reg["name"]
    kw = dict(reg.get("settings", {}))
    t = transformer_dict(case, data)
    if t is not None:
        kw["transformer"] = t
    if "output_names" in case:
        kw["output_names"] = list(case["output_names"])
    if reg.get("callable"):
        kw["function"], kw["der_function"] = CALLABLES[reg["callable"]]
        if reg.get("no_der"):
            kw.pop("der_function")
    if name == "PCERegressor":
        from gemseo.algos.parameter_space import ParameterSpace

        sp = ParameterSpace()
        o = 0
        for vn, size in data["in_sizes"].items():
            lb, ub = np.array(data["lb"][o:o + size]), np.array(data["ub"][o:o + size])
            if reg.get("dist") == "normal":
                sp.add_random_vector(vn, "OTNormalDistribution", size=size, mu=((lb + ub) / 2).tolist(),
                                     sigma=((ub - lb) / 4).tolist())
            else:
                sp.add_random_vector(vn, "OTUniformDistribution", size=size, minimum=lb.tolist(), maximum=ub.tolist())
            o += size
        kw["probability_space"] = sp
    if name == "MOERegressor" and "hard" in reg:
        kw["hard"] = reg["hard"]
    simple = name not in ("MOERegressor", "RegressorChain")
    disc = None
    if train and case.get("via_discipline") and simple and "samples" not in case:
        from gemseo.disciplines.surrogate import SurrogateDiscipline

        try:
            disc = SurrogateDiscipline(name, data=ds, **kw)
            return disc.regression_model, disc
        except Exception:
            # judged below on a directly built model; SurrogateDiscipline(model) is then tried by clause 4
            disc = None
            if t is not None:
                kw["transformer"] = transformer_dict(case, data)
    model = RegressorFactory().create(name, ds, **kw)
    if name == "MOERegressor":
        model.set_clusterer("KMeans", n_clusters=reg["n_clusters"], random_state=1)
        model.set_classifier("KNNClassifier", n_neighbors=reg["n_neighbors"])
        model.set_regressor(reg["sub"]["name"], **sub_kwargs(reg["sub"]))
    if name == "RegressorChain":
        for sub in reg["chain"]:
            model.add_algo(sub["name"], **sub_kwargs(sub))
    if not train:
        return model, None
    if "samples" in case:
        model.learn(samples=list(case["samples"]))
    else:
        model.learn()
    return model, disc


# =========================================================================== oracles
def pick_queries(case, z_learn, n_query=5, salt=0):
    """Query points (normalised coordinates) away from the learning points; returns (points, min distances)."""
    rng = np.random.default_rng(case["qseed"] + 7919 * salt)
    n_in = z_learn.shape[1]
    cand = rng.uniform(0.03, 0.97, (60, n_in))
    d = np.sqrt(((cand[:, None, :] - z_learn[None, :, :]) ** 2).sum(-1)).min(1)
    order = [i for i in range(len(cand)) if d[i] >= MIN_DIST]
    return cand[order[:n_query]], len(order)


def to_dict(x, sizes):
    out, o = {}, 0
    for k, s in sizes.items():
        out[k] = np.array(x[..., o:o + s])
        o += s
    return out


OFFSETS = (0.5, -0.5, 1.0, -1.0, 2.0, -2.0, 0.25, -0.25, 0.75, -0.75, 1.5, -1.5)


def richardson(fun, x, h):
    """Richardson-extrapolated central differences of ``fun`` (batched: (N, n_in) -> (N, n_out)) at ``x``.

    Returns (R(h, h/2), R(2h, h), noise bound of R(h, h/2), values at x, all stencil points).  The noise bound comes
    from the residual of a degree-4 least-squares fit through the 13 samples of each axis (offsets 0, +-h/4 ... +-2h):
    a smooth model leaves ~0, a model whose predictions are only known to some absolute accuracy delta (cancellation
    in badly scaled features, quantisation) leaves ~delta, which the difference quotient amplifies to 3*delta/h.
    """
    n = len(x)
    pts = [x]
    for j in range(n):
        for f in OFFSETS:
            p = x.copy()
            p[j] += f * h[j]
            pts.append(p)
    pts = np.array(pts)
    vals = fun(pts)
    m = vals.shape[1]
    r1, r2, noise = np.zeros((m, n)), np.zeros((m, n)), np.zeros((m, n))
    k = len(OFFSETS)
    s_ = np.array((0.0, *OFFSETS))
    vander = np.vander(s_, 5)
    proj = np.eye(len(s_)) - vander @ np.linalg.pinv(vander)
    for j in range(n):
        b = 1 + k * j
        d_half = (vals[b] - vals[b + 1]) / (h[j])
        d_one = (vals[b + 2] - vals[b + 3]) / (2 * h[j])
        d_two = (vals[b + 4] - vals[b + 5]) / (4 * h[j])
        r1[:, j] = (4 * d_half - d_one) / 3
        r2[:, j] = (4 * d_one - d_two) / 3
        samples = np.vstack([vals[0:1], vals[b:b + k]])
        resid = np.abs(proj @ samples).max(axis=0)
        noise[:, j] = 6.0 * resid / h[j]
    return r1, r2, noise, vals[0], pts


def jac_tolerance(r1, r2, rtol=1e-6, noise=0.0):
    """Tolerance of the comparison with the reference ``r1`` and whether the reference is reliable.

    The reference is used only when the extrapolations from (h, h/2) and (2h, h) agree, and the measured noise
    of the difference quotient stays, within the level of the tolerance itself (models with noisy predictions are
    not judged at that point, counted).
    """
    scale = 1 + np.abs(r1).max(axis=1, keepdims=True)
    gap = np.abs(r1 - r2)
    reliable = bool(np.all(np.isfinite(r1)) and np.all(np.isfinite(r2)) and np.all(gap <= rtol * scale)
                    and np.all(noise <= rtol * scale))
    return rtol * scale + 10 * gap + noise, reliable


def step_resolvable(model, x0, h):
    """Can the stencil be resolved after the input transformation(s)?  (A reduced or badly scaled input transformer can
    map a step of 5e-4*range onto a few ulps of the transformed coordinates; the difference quotient is then
    quantisation noise or exactly zero, whatever the true derivative.)  For a mixture of experts the experts' own
    input transformers come after the one of the mixture."""
    t_in = model.transformer.get("inputs")
    chains = [[t_in] if t_in is not None else []]
    for local in getattr(model, "regress_models", None) or []:
        t_loc = local.transformer.get("inputs")
        if t_loc is not None:
            chains.append(chains[0] + [t_loc])

    def through(chain, p):
        for t_ in chain:
            p = np.asarray(t_.transform(p.copy()), dtype=float)
        return p

    try:
        with np.errstate(all="ignore"):
            for chain in chains:
                if not chain:
                    continue
                t0 = through(chain, x0)
                for j in range(len(x0)):
                    p = x0.copy()
                    p[j] += 0.25 * h[j]
                    dt = np.abs(through(chain, p) - t0)
                    if not np.all(np.isfinite(dt)) or not np.any(dt >= 1e5 * np.spacing(np.abs(t0).max())):
                        return False
    except Exception:
        return False
    return True


def kernel_condition(case, model):
    """Largest condition number of the kernel / covariance matrices the model's weights were solved from.

    The weights of a kernel model carry a relative error ~ eps*cond and so do its predictions; a difference quotient
    with step h*range turns that into ~ 3*eps*cond/h relative to the derivative (7e-13*cond for h = 5e-4).  This
    rounding "noise" is locally coherent (a smooth function of x), so it cannot be seen by comparing nearby steps:
    it is bounded from the condition number instead, 1e-11*cond being added to the relative tolerance
    (no judgement at all when that exceeds 1e-2).
    """
    name = case["reg"]["name"]
    mats = []
    try:
        if name in ("RBFRegressor", "TPSRegressor"):
            mats.append(model.algo.A)
        elif name == "RegressorChain":
            for st in getattr(model, "_RegressorChain__algos", []):
                if hasattr(st.algo, "xi") and hasattr(st.algo, "nodes"):
                    mats.append(st.algo.A)
        elif name == "MOERegressor":
            for st in model.regress_models:
                if hasattr(st.algo, "xi") and hasattr(st.algo, "nodes"):
                    mats.append(st.algo.A)
        elif name == "OTGaussianProcessRegressor":
            import openturns as ot

            mats.append(np.array(model.algo.getCovarianceModel().discretize(
                ot.Sample(np.asarray(model.algo.getInputSample())))))
        worst = 1.0
        for m_ in mats:
            c_ = np.linalg.cond(m_)
            worst = max(worst, c_ if np.isfinite(c_) else 1e300)
        return worst
    except Exception:
        return 1e300


# OpenTURNS' MarginalTransformationGradient (iso-probabilistic map of the PCE) carries a systematic relative error of
# up to 2.5e-6 (e.g. 2.2222200 instead of 2/0.9 for Uniform(12, 12.9)); OpenTURNS is trusted, hence a wider tolerance.
JAC_RTOL = {"PCERegressor": 2e-5}


def model_tags(case, model):
    """Features of the case that name the mechanism of a Jacobian failure."""
    reg = case["reg"]
    name = reg["name"]
    if name in ("RBFRegressor", "TPSRegressor"):
        fn = str(model.function) if not callable(model.function) else reg.get("callable", "callable")
        try:
            eps = float(model.algo.epsilon)
        except Exception:
            eps = None
        return f"kernel={fn}:epsilon{'=1' if eps == 1.0 else '!=1'}", fn, eps
    if name == "RegressorChain":
        own = "+own-transformers" if any(sub_has_transformers(r) for r in reg["chain"]) else ""
        return "stages=" + "+".join(r["name"] for r in reg["chain"]) + own, None, None
    if name == "MOERegressor":
        sub = reg["sub"]
        own = ":experts-with-own-transformers" if sub_has_transformers(sub) else ""
        return "local=" + sub["name"] + own, None, None
    if name in ("LinearRegressor", "PolynomialRegressor"):
        f = reg_features(reg)
        return f"degree={f[1]}:penalty={f[2]}", None, None
    f = reg_features(reg)
    return ":".join(str(v) for v in f[1:]) or "default", None, None


def one_d_coef(case, model):
    """scikit-learn's Lasso / ElasticNet return a 1-D ``coef_`` for a single target: name that mechanism."""
    reg = case["reg"]
    if reg["name"] not in ("LinearRegressor", "PolynomialRegressor"):
        return None
    try:
        if np.ndim(model.coefficients) == 1:  # public view of coef_ used by the Jacobian code
            return f"C18:{reg['name']}:predict_jacobian:1-D-coef_-for-single-output:{type(model.algo).__name__}"
    except Exception:
        pass
    return None


def transf_tag(case):
    return f"tin={t_kind(case['tin'])}:tout={t_kind(case['tout'])}"


def judge_model(case, rep):
    """Run one model case through clauses 1, 2 and 4 (once, or after every training of a life-cycle case)."""
    reg, data = case["reg"], case["data"]
    name = reg["name"]
    rep.count("model_cases")
    rep.count(f"regressor:{name}")
    try:
        ds, x_all, y_all, z_all = make_dataset(data)
    except Exception as e:  # harness trouble
        raise RuntimeError(f"dataset construction failed: {e!r}") from e
    if case.get("lifecycle"):
        judge_lifecycle(case, rep, ds, x_all, y_all, z_all)
        return
    try:
        with np.errstate(all="ignore"):
            model, disc = build_model(case, ds)
    except Exception as e:
        learn_failed(case, rep, e)
        rep.case(case_signature(case), False)
        return
    idx = np.array(case["samples"]) if "samples" in case else np.arange(data["n"])
    judged, _ = judge_trained(case, rep, model, disc, x_all, y_all, z_all, idx)
    rep.case(case_signature(case), judged)


def learn_failed(case, rep, e, phase=""):
    """Training is outside the statement (it speaks about trained models); recorded, never a verdict."""
    name, data = case["reg"]["name"], case["data"]
    rep.count("learn_failed")
    hint = ""
    if name == "OTGaussianProcessRegressor" and len(data["in_sizes"]) > 1:
        hint = ":several-input-variables"
    elif t_has(case["tin"], ("PCA",)) or t_has(case["tout"], ("PCA",)):
        hint = ":with-PCA-transformer"
    rep.observe(f"learn-failed:{name}:{type(e).__name__}{hint}{phase}",
                {"case": case, "error": f"{type(e).__name__}: {str(e)[:300]}"})


def enrich_dataset(case, ds, x_all, y_all, z_all, rs):
    """Append new samples of the same function to the learning dataset, in place."""
    data = case["data"]
    lb, ub = np.array(data["lb"]), np.array(data["ub"])
    m = max(3, len(x_all) // 4)
    z_new = rs.uniform(0, 1, (m, len(lb)))
    x_new, y_new = lb + (ub - lb) * z_new, f_eval(data["func"], z_new)
    off_in, off_out, o = {}, {}, 0
    for k, sz in data["in_sizes"].items():
        off_in[k] = o
        o += sz
    o = 0
    for k, sz in data["out_sizes"].items():
        off_out[k] = o
        o += sz
    n0 = len(ds)
    for i in range(m):
        row = []
        for group, var, comp in ds.columns:
            row.append(x_new[i, off_in[var] + comp] if group == ds.INPUT_GROUP else y_new[i, off_out[var] + comp])
        ds.loc[n0 + i] = row
    return np.vstack([x_all, x_new]), np.vstack([y_all, y_new]), np.vstack([z_all, z_new])


JUDGED_COUNTERS = ("jacobian_oracle_evaluations", "interpolation_checked", "surrogate_execute_checked",
                   "surrogate_linearize_checked", "accessor_closed_form_checked",
                   "retrained_equals_fresh_instance_checked")


def judge_twin(case, rep, model, ds, samples, xs, phase):
    """A re-trained instance predicts like a fresh instance trained on the same learning set (differential twin).

    A model is a function of its settings and of its *current* learning set; whatever survives from an earlier
    training (cached coefficients, estimators appended to a list, ...) makes its predictions inconsistent with its own
    data.  Training must be deterministic for the comparison to mean anything: on a mismatch a second fresh instance
    is trained and the case is dropped (counted) when the two fresh instances disagree with each other.
    """
    name = case["reg"]["name"]
    wcase = dict(case, phase=phase)

    def fresh():
        with np.errstate(all="ignore"):
            m_, _ = build_model(case, ds, train=False)
            if samples is None:
                m_.learn()
            else:
                m_.learn(samples=list(samples))
        return m_

    def pred(m_):
        with np.errstate(all="ignore"):
            return np.asarray(m_.predict(np.array(xs, dtype=float)))

    def close(a, b):
        return a.shape == b.shape and bool(np.all(np.abs(a - b) <= 1e-8 * (1 + np.abs(a).max(axis=0))))

    try:
        twin = fresh()
        pa = pred(twin)
    except Exception:
        rep.count("twin_skipped_fresh_instance_fails")
        return False
    if not np.all(np.isfinite(pa)):
        rep.count("twin_skipped_non_finite")
        return False
    rep.count("retrained_equals_fresh_instance_checked")
    sig = f"C18:{name}:re-trained-instance-differs-from-fresh-instance"
    kept = False
    try:
        # mechanism: one estimator per output appended to ``algo`` at every training, never reset
        kept = isinstance(model.algo, list) and isinstance(twin.algo, list) and len(model.algo) > len(twin.algo)
    except Exception:
        pass
    if kept:
        sig = f"C18:{name}:re-trained-instance-keeps-the-estimators-of-the-previous-training"
    try:
        pr = pred(model)
    except Exception as e:
        rep.violation(sig if kept else f"{sig}:predict-raises:{type(e).__name__}", "retraining", wcase,
                      observed=f"{type(e).__name__}: {str(e)[:300]}", expected=pa,
                      msg="predict raises on an instance trained a second time; a fresh instance trained on the same "
                          "learning set predicts")
        return True
    if pr.shape != pa.shape:
        rep.violation(sig if kept else f"{sig}:prediction-shape", "retraining", wcase, observed=list(pr.shape),
                      expected=list(pa.shape),
                      msg="the prediction of an instance trained a second time has another shape than the one of a "
                          "fresh instance trained on the same learning set")
        return True
    if not close(pa, pr):
        try:
            pb = pred(fresh())
        except Exception:
            pb = None
        if pb is None or not close(pa, pb):
            rep.count("twin_skipped_training_not_deterministic")
            return False
        rep.violation(sig if kept else f"{sig}:prediction-values", "retraining", wcase, observed=pr, expected=pa,
                      msg="an instance trained a second time does not predict like a fresh instance trained on the "
                          "same learning set")
    return True


def judge_lifecycle(case, rep, ds, x_all, y_all, z_all):
    """One model instance through its life cycle: train on a subset, judge every clause (which reads predictions,
    Jacobians, coefficient accessors and builds a SurrogateDiscipline, i.e. fills whatever lazy state there is),
    re-train the same instance on another subset, then on all samples, then once more after the dataset was enriched,
    judging every clause again after each training - including the disciplines built before the re-training."""
    name = case["reg"]["name"]
    rep.count("lifecycle_cases")
    rep.count(f"lifecycle_cases:{name}")
    try:
        with np.errstate(all="ignore"):
            model, _ = build_model(case, ds, train=False)
    except Exception as e:
        learn_failed(case, rep, e, ":construction")
        rep.case(case_signature(case), False)
        return
    n = len(x_all)
    rs = np.random.default_rng(case["qseed"] + 17)
    perm = rs.permutation(n)
    k = min(n, max(int(np.ceil(0.6 * n)), 6))
    phases = [("subset-1", sorted(int(i) for i in perm[:k])), ("subset-2", sorted(int(i) for i in perm[n - k:])),
              ("all", None), ("enriched", None)]
    judged = False
    discs = []
    for ip, (pname, samples) in enumerate(phases):
        if pname == "enriched":
            try:
                x_all, y_all, z_all = enrich_dataset(case, ds, x_all, y_all, z_all, rs)
            except Exception as e:  # harness trouble with the dataset API: stop the life cycle here
                rep.observe("dataset-could-not-be-enriched", f"{type(e).__name__}: {e}")
                break
        try:
            with np.errstate(all="ignore"):
                if samples is None:
                    model.learn()
                else:
                    model.learn(samples=list(samples))
        except Exception as e:
            learn_failed(case, rep, e, ":re-training" if ip else "")
            break
        idx = np.arange(len(x_all)) if samples is None else np.array(samples)
        before = sum(rep.counters.get(c_, 0) for c_ in JUDGED_COUNTERS)
        j_, disc = judge_trained(case, rep, model, None, x_all, y_all, z_all, idx, phase=(ip, pname), old_discs=discs)
        judged |= j_
        if ip:
            zq, _ = pick_queries(case, z_all[idx], salt=ip)
            lb_, ub_ = np.array(case["data"]["lb"]), np.array(case["data"]["ub"])
            xs = lb_ + (ub_ - lb_) * (zq if len(zq) else np.full((1, len(lb_)), 0.4))
            judged |= judge_twin(case, rep, model, ds, samples, xs, pname)
        if disc is not None:
            discs.append(disc)
        if ip:
            rep.count("models_retrained_on_another_learning_set")
            rep.count(f"models_retrained_on_another_learning_set:{name}")
            rep.count("clauses_judged_after_retraining", sum(rep.counters.get(c_, 0) for c_ in JUDGED_COUNTERS) - before)
    rep.case(case_signature(case), judged)


def judge_trained(case, rep, model, disc, x_all, y_all, z_all, idx, phase=None, old_discs=()):
    """Clauses 1, 2, 4 (and the accessor clause) on a model as it is trained now; returns (judged, discipline)."""
    reg, data = case["reg"], case["data"]
    name = reg["name"]
    judged = False
    retrained = phase is not None and phase[0] > 0
    wcase = case if phase is None else dict(case, phase=phase[1])
    in_sizes = dict(data["in_sizes"])
    out_names = list(case.get("output_names") or data["out_sizes"])
    out_sizes = {k: data["out_sizes"][k] for k in out_names}
    cols = []
    o = 0
    for k, s in data["out_sizes"].items():
        if k in out_sizes:
            cols.extend(range(o, o + s))
        o += s
    x_l, y_l, z_l = x_all[idx], y_all[idx][:, cols], z_all[idx]
    n_in, n_out = x_l.shape[1], y_l.shape[1]
    lb, ub = np.array(data["lb"]), np.array(data["ub"])
    h = H_REL * (ub - lb)
    tag, kernel, eps = model_tags(case, model)
    if retrained:
        tag += ":same-instance-re-trained"
    ttag = transf_tag(case)
    subs = reg.get("chain", []) + ([reg["sub"]] if "sub" in reg else [])
    sub_tr = any(sub_has_transformers(s_) for s_ in subs)
    if subs and not retrained:
        rep.count("composite_cases")
    if sub_tr and not retrained:
        rep.count("composite_cases_with_sub_model_transformers")
        rep.count(f"composite_cases_with_sub_model_transformers:{name}")
    if name == "RegressorChain" and sub_tr:
        # outside the statement (prediction and Jacobian both ignore them, consistently): observed
        stages = getattr(model, "_RegressorChain__algos", [])
        fitted = [t_.is_fitted for st in stages for t_ in st.transformer.values()]
        if fitted and not any(fitted):
            rep.observe("RegressorChain-never-fits-nor-applies-the-transformers-given-to-add_algo",
                        {"chain": reg["chain"]})
    rtol_jac = JAC_RTOL.get(name, 1e-6) + 1e-11 * kernel_condition(case, model)

    def predict(p):
        with np.errstate(all="ignore"):
            return np.asarray(model.predict(np.array(p, dtype=float)))

    # ---------------------------------------------------------------- clause 2: interpolation
    judged |= judge_interpolation(wcase, rep, model, x_l, y_l, tag, ttag)

    # ---------------------------------------------------------------- clause 1: Jacobian
    zq, n_ok = pick_queries(case, z_l, salt=0 if phase is None else phase[0])
    if len(zq) == 0:
        rep.count("no_query_point_far_enough_from_nodes")
    xq = lb + (ub - lb) * zq
    jac_available = True
    jac_broken = False
    jac_batch = None
    sig_1d = one_d_coef(case, model)
    for iq, x0 in enumerate(xq):
        # predicted Jacobian, 1-D call form
        try:
            with np.errstate(all="ignore"):
                j_arr = model.predict_jacobian(x0.copy())
        except NotImplementedError as e:
            jac_available = False
            rep.count("jacobian_not_implemented")
            rep.count(f"jacobian_not_implemented:{_nie_reason(case, e)}")
            break
        except Exception as e:
            rep.violation(sig_1d or f"C18:{name}:predict_jacobian:exception:{type(e).__name__}:{tag}:{ttag}", "jacobian",
                          dict(wcase, query=x0.tolist()),
                          observed=f"{type(e).__name__}: {str(e)[:300]}", expected="a Jacobian of shape (n_out, n_in)",
                          msg="predict_jacobian raised on a trained model and a valid input")
            jac_available = False
            jac_broken = True
            break
        j_arr = np.asarray(j_arr)
        if j_arr.shape != (n_out, n_in):
            rep.violation(sig_1d or f"C18:{name}:predict_jacobian:shape:1d-input:{tag}:{ttag}", "jacobian",
                          dict(wcase, query=x0.tolist()), observed=list(j_arr.shape), expected=[n_out, n_in])
            jac_available = False
            jac_broken = True
            break
        if rtol_jac > 1e-2:
            # shape and availability were judged; the values cannot be (prediction noise, see kernel_condition)
            rep.count("jacobian_values_not_judged_ill_conditioned_kernel_matrix")
            break
        if not step_resolvable(model, x0, h):
            rep.count("query_skipped_step_not_resolvable_after_input_transformation")
            continue
        r1, r2, noise, v0, pts = richardson(predict, x0, h)
        if not np.all(np.isfinite(v0)) or not np.all(np.isfinite(r1)):
            rep.count("query_skipped_non_finite_prediction")
            continue
        if name == "MOERegressor":
            with np.errstate(all="ignore"):
                cls = np.asarray(model.predict_class(pts)).ravel()
            if len(set(cls.tolist())) > 1:
                rep.count("query_skipped_class_boundary")
                continue
        tol, reliable = jac_tolerance(r1, r2, rtol_jac, noise)
        if not reliable:
            rep.count("query_skipped_fd_unreliable")
            continue
        # single-sample prediction must agree with the batched one the reference is built from
        with np.errstate(all="ignore"):
            v_single = np.asarray(model.predict(x0.copy()))
        if v_single.shape != (n_out,) or not np.allclose(v_single, v0, rtol=1e-9, atol=1e-12 * (1 + np.abs(v0).max())):
            rep.observe("batched-and-single-predictions-differ", {"case": case, "x": x0, "single": v_single, "batched": v0})
            rep.count("query_skipped_batch_single_mismatch")
            continue
        judged = True
        rep.count("jacobian_oracle_evaluations")
        rep.count(f"jacobian_checked:{name}")
        if sub_tr:
            rep.count("jacobian_checked:composite_with_sub_model_transformers")
            rep.count(f"jacobian_checked:composite_with_sub_model_transformers:{name}")
        if kernel is not None:
            rep.count(f"jacobian_checked:kernel={kernel}")
        bad = np.abs(j_arr - r1) > tol
        if np.any(bad):
            sig = f"C18:{name}:jacobian-vs-prediction:{tag}"
            if kernel in UNSCALED and eps not in (None, 1.0):
                p = UNSCALED[kernel]
                if p is not None and not np.any(np.abs(j_arr * eps ** p - r1) > tol * max(1.0, eps ** p)):
                    sig = f"C18:{name}:jacobian-vs-prediction:kernel={kernel}:off-by-epsilon^-{p}"
            elif kernel is None:
                sig += ":" + ttag
            rep.violation(sig, "jacobian", dict(wcase, query=x0.tolist()),
                          observed={"predict_jacobian": j_arr, "epsilon": eps},
                          expected={"richardson_fd_of_predict": r1, "tolerance": tol},
                          msg="predict_jacobian differs from the derivative of the model's own predict")
            continue
        # dict call form
        try:
            with np.errstate(all="ignore"):
                j_dict = model.predict_jacobian(to_dict(x0, in_sizes))
            blocks = np.block([[np.asarray(j_dict[ko][ki]).reshape(out_sizes[ko], in_sizes[ki]) for ki in in_sizes]
                               for ko in out_names])
            rep.count("jacobian_dict_form_checked")
            if np.any(np.abs(blocks - r1) > tol):
                rep.violation(f"C18:{name}:jacobian-vs-prediction:dict-form:{tag}:{ttag}", "jacobian",
                              dict(wcase, query=x0.tolist()), observed=blocks, expected=r1)
        except Exception as e:
            rep.violation(f"C18:{name}:predict_jacobian:dict-form:exception:{type(e).__name__}:{tag}:{ttag}", "jacobian",
                          dict(wcase, query=x0.tolist()), observed=f"{type(e).__name__}: {str(e)[:300]}",
                          expected="dict of dict of blocks")
        # batch call form (computed once)
        if jac_batch is None:
            try:
                with np.errstate(all="ignore"):
                    jac_batch = np.asarray(model.predict_jacobian(xq.copy()))
            except Exception as e:
                jac_batch = False
                rep.violation(sig_1d or f"C18:{name}:predict_jacobian:batch-form:exception:{type(e).__name__}:{tag}:{ttag}",
                              "jacobian", wcase, observed=f"{type(e).__name__}: {str(e)[:300]}",
                              expected="(n_samples, n_out, n_in)",
                              msg="predict_jacobian raised for a 2-D array of samples (it works for one sample)")
            else:
                if jac_batch.shape != (len(xq), n_out, n_in):
                    rep.violation(sig_1d or f"C18:{name}:predict_jacobian:shape:2d-input:{tag}:{ttag}", "jacobian", wcase,
                                  observed=list(jac_batch.shape), expected=[len(xq), n_out, n_in])
                    jac_batch = False
        if jac_batch is not None and jac_batch is not False:
            rep.count("jacobian_batch_form_checked")
            if np.any(np.abs(jac_batch[iq] - r1) > tol):
                rep.violation(f"C18:{name}:jacobian-vs-prediction:batch-form:{tag}:{ttag}", "jacobian",
                              dict(wcase, query=x0.tolist()), observed=jac_batch[iq], expected=r1)
        # numeric trap (observation only)
        if iq == 0:
            try:
                with np.errstate(divide="raise", invalid="raise", over="raise"):
                    model.predict_jacobian(x0.copy())
            except FloatingPointError as e:
                rep.observe(f"numeric-trap-in-predict_jacobian:{name}:{tag}", str(e))
            except Exception:
                pass

    # ---------------------------------------------------------------- clause 4: surrogate discipline
    xs = xq if len(xq) else lb + (ub - lb) * np.full((1, n_in), 0.4)
    # ---------------------------------------------------------------- accessors (models exposing coefficients)
    judged |= judge_accessors(wcase, rep, model, xs, tag, ttag)
    # ---------------------------------------------------------------- clause 4: surrogate discipline
    done, disc = judge_surrogate(wcase, rep, model, disc, xs, in_sizes, out_names, out_sizes, jac_available, tag, ttag,
                                 jac_broken)
    judged |= done
    for old in old_discs:
        # a discipline built before the re-training wraps the same instance: it must follow the model
        done, _ = judge_surrogate(wcase, rep, model, old, xs, in_sizes, out_names, out_sizes, jac_available, tag, ttag,
                                  jac_broken, when=":discipline-built-before-re-training")
        judged |= done
    return judged, disc


def judge_accessors(case, rep, model, xs, tag, ttag):
    """``predict`` equals the closed form rebuilt from the public coefficient / intercept accessors."""
    name = case["reg"]["name"]
    if name not in ("LinearRegressor", "PolynomialRegressor") or case["by_name"]:
        return False
    try:
        with np.errstate(all="ignore"):
            coef = np.asarray(model.get_coefficients(as_dict=False), dtype=float)
            inter = np.asarray(model.get_intercept(as_dict=False), dtype=float)
            coef2 = np.asarray(model.coefficients, dtype=float)
            xt = np.asarray(xs, dtype=float)
            if "inputs" in model.transformer:
                xt = np.asarray(model.transformer["inputs"].transform(xt.copy()))
            feats = xt
            if name == "PolynomialRegressor":
                from sklearn.preprocessing import PolynomialFeatures

                feats = PolynomialFeatures(degree=case["reg"]["settings"].get("degree", 1),
                                           include_bias=False).fit_transform(xt)
            if coef.ndim != 2 or coef.shape[1] != feats.shape[1] or coef.shape != coef2.shape:
                rep.violation(f"C18:{name}:coefficients-shape:{tag}", "accessors", case,
                              observed=[list(coef.shape), list(coef2.shape)], expected=["n_outputs", feats.shape[1]])
                return True
            raw = feats @ coef.T + inter.reshape(1, -1)
            expected = raw
            if "outputs" in model.transformer:
                expected = np.asarray(model.transformer["outputs"].inverse_transform(raw.copy()))
            pred = np.asarray(model.predict(np.asarray(xs, dtype=float).copy()))
    except Exception as e:
        rep.observe(f"accessor-closed-form-not-evaluable:{name}:{type(e).__name__}", str(e)[:200])
        return False
    if not (np.all(np.isfinite(pred)) and np.all(np.isfinite(expected))) or pred.shape != expected.shape:
        rep.count("accessor_closed_form_skipped_non_finite")
        return False
    rep.count("accessor_closed_form_checked")
    scale = 1 + np.abs(pred).max(axis=0) + np.abs(raw).max(axis=0) if raw.shape == pred.shape else 1 + np.abs(pred).max()
    if not np.array_equal(coef, coef2) or np.any(np.abs(pred - expected) > 1e-8 * scale):
        rep.violation(f"C18:{name}:prediction-differs-from-closed-form-of-coefficients-and-intercept:{tag}", "accessors",
                      case, observed={"predict": pred, "coefficients": coef, "intercept": inter},
                      expected={"inverse_transform(features @ coefficients.T + intercept)": expected},
                      msg="coefficients / intercept accessors do not describe the model that predict evaluates")
    return True


def _nie_reason(case, e):
    name = case["reg"]["name"]
    msg = str(e)
    if "Derivatives are not available" in msg:
        return f"regressor:{name}"
    if "transformed quantities are variables" in msg:
        return "per-variable-transformers"
    if "Euclidean" in msg:
        return "rbf-non-euclidean-norm"
    if "der_function" in msg:
        return "rbf-callable-without-derivative"
    if name == "MOERegressor" and not case["reg"].get("hard", True):
        return "moe-soft"
    if t_has(case["tin"], POWER) or t_has(case["tout"], POWER):
        return "power-transformer-has-no-jacobian"
    return f"other:{name}"


def _cond_ok(mat, limit=1e6):
    try:
        c = np.linalg.cond(mat)
    except Exception:
        return False
    return bool(np.isfinite(c) and c <= limit)


def interpolating(case, model, x_l):
    """Is the model an interpolant of its learning set by construction?  Returns (bool, tolerance factor, reason)."""
    reg = case["reg"]
    name = reg["name"]
    s = reg.get("settings", {})
    if not (t_lossless(case["tin"]) and t_lossless(case["tout"])):
        return False, 0, "lossy-transformer"

    def rbf_like(r):
        return r["name"] in ("RBFRegressor", "TPSRegressor") and not r.get("settings", {}).get("smooth")

    if name in ("RBFRegressor", "TPSRegressor"):
        if s.get("smooth"):
            return False, 0, "smoothed"
        if s.get("norm", "euclidean") != "euclidean":
            return False, 0, "norm"
        return (_cond_ok(model.algo.A), 1e-8, "ill-conditioned-kernel-matrix")
    if name in ("LinearRegressor", "PolynomialRegressor"):
        if not reg.get("square"):
            return False, 0, "overdetermined"
        # design matrix of the transformed inputs, recomputed here
        xt = x_l
        if "inputs" in model.transformer:
            xt = model.transformer["inputs"].transform(x_l)
        from sklearn.preprocessing import PolynomialFeatures

        phi = PolynomialFeatures(degree=s.get("degree", 1), include_bias=True).fit_transform(xt)
        if phi.shape[0] != phi.shape[1]:
            return False, 0, "not-square"
        return (_cond_ok(phi), 1e-8, "ill-conditioned-design-matrix")
    if name == "OTGaussianProcessRegressor":
        # kriging with OpenTURNS' default nugget 1e-12: exact up to rounding when the covariance matrix is well conditioned
        import openturns as ot

        k = np.array(model.algo.getCovarianceModel().discretize(ot.Sample(np.asarray(model.algo.getInputSample()))))
        return (_cond_ok(k, 1e8), 1e-8, "ill-conditioned-covariance-matrix")
    if name == "GaussianProcessRegressor":
        # scikit-learn adds alpha=1e-10 to the diagonal: the error at the nodes is alpha*|weights| <= alpha*cond*|y|
        k = model.algo.kernel_(model.algo.X_train_)
        return (_cond_ok(k, 1e4), 1e-6, "ill-conditioned-covariance-matrix")
    if name == "RegressorChain":
        chain = reg["chain"]
        # the residual left to the last stage is reproduced exactly by an interpolating last stage;
        # an interpolating first stage leaves a zero residual that every later stage reproduces
        stages = getattr(model, "_RegressorChain__algos", None)
        if stages is None or len(stages) != len(chain):
            return False, 0, "stages-not-visible"
        if rbf_like(chain[-1]):
            return (_cond_ok(stages[-1].algo.A), 1e-8, "ill-conditioned-kernel-matrix")
        if rbf_like(chain[0]) and all(not c["settings"].get("penalty_level") and not rbf_like(c) for c in chain[1:]):
            return (_cond_ok(stages[0].algo.A), 1e-8, "ill-conditioned-kernel-matrix")
        return False, 0, "no-interpolating-stage"
    return False, 0, "not-interpolating"


def judge_interpolation(case, rep, model, x_l, y_l, tag, ttag):
    name = case["reg"]["name"]
    try:
        ok, rtol, reason = interpolating(case, model, x_l)
    except Exception as e:
        rep.observe("interpolation-precondition-error", f"{type(e).__name__}: {e}")
        return False
    if not ok:
        if reason.startswith("ill-conditioned"):
            rep.count("interpolation_skipped_ill_conditioned")
        return False
    with np.errstate(all="ignore"):
        try:
            pred = np.asarray(model.predict(x_l.copy()))
        except Exception as e:
            rep.violation(f"C18:{name}:predict:exception:{type(e).__name__}:{tag}:{ttag}", "interpolation", case,
                          observed=f"{type(e).__name__}: {str(e)[:300]}", expected="predictions at the learning inputs")
            return False
    if pred.shape != y_l.shape:
        rep.violation(f"C18:{name}:predict:shape:{tag}:{ttag}", "interpolation", case, observed=list(pred.shape),
                      expected=list(y_l.shape))
        return False
    if t_has(case["tout"], POWER):
        if not np.all(np.isfinite(pred)):
            rep.count("interpolation_skipped_non_finite_power_inverse")
            return False
        t_out = model.transformer.get("outputs")
        spread = power_spread(case["tout"], t_out, y_l) if t_out is not None and isinstance(case["tout"], dict) else None
        if spread is None or np.any(spread < 1e-4):
            # extreme exponent fitted by scikit-learn: the digits are lost in the forward power transform
            rep.count("interpolation_skipped_power_precision_loss")
            return False
    scale = np.abs(y_l).max(axis=0) + (y_l.max(axis=0) - y_l.min(axis=0))
    # The regressor reproduces the *transformed* outputs to rtol of their magnitude; mapped back through the inverse
    # output transformer this is rtol * S (see roundoff_sensitivity), which exceeds rtol*|y| when the image of the
    # transformer is badly scaled (offset >> variation, e.g. a pipeline stage fitted on untransformed data).
    t_out = model.transformer.get("outputs")
    floor = 0.0
    if t_out is not None and isinstance(case["tout"], dict):
        sens = roundoff_sensitivity(case["tout"], t_out, y_l)
        if not np.all(np.isfinite(sens)) or np.any(sens > 1e4 * scale):
            rep.count("interpolation_skipped_ill_scaled_output_transformer")
            return False
        scale = scale + sens
        # this clause judges the model: what the output transformer itself loses on the learning outputs (judged by
        # clause 3) is not charged to it
        try:
            with np.errstate(all="ignore"):
                back = np.asarray(t_out.inverse_transform(np.asarray(t_out.transform(y_l.copy()))))
            if back.shape == y_l.shape and np.all(np.isfinite(back)):
                floor = 2.0 * np.abs(back - y_l).max(axis=0)
        except Exception:
            pass
    rep.count("interpolation_checked")
    rep.count(f"interpolation_checked:{name}")
    err = np.abs(pred - y_l).max(axis=0)
    if not np.all(err <= rtol * scale + floor):
        sig = f"C18:{name}:interpolation:{tag}"
        if name == "RegressorChain":
            sig = "C18:RegressorChain:interpolation:" + chain_mechanism(case)
        elif name in ("RBFRegressor", "TPSRegressor", "LinearRegressor", "PolynomialRegressor"):
            sig += ":" + ttag
        rep.violation(sig, "interpolation", case, observed={"max_abs_error_per_output": err},
                      expected={"tolerance": rtol * scale + floor},
                      msg="an interpolating model does not reproduce its learning outputs")
    return True


def chain_mechanism(case):
    """Name the stage after which the chain loses its learning data (mechanism, not values)."""
    chain = case["reg"]["chain"]
    names = [c["name"] for c in chain]
    feats = []
    # a linear/polynomial stage with an intercept, followed by another stage
    # (PolynomialRegressor hands a fresh feature matrix to scikit-learn: only LinearRegressor centres its argument)
    if any(n == "LinearRegressor" and chain[i]["settings"].get("fit_intercept", True) for i, n in enumerate(names[:-1])):
        feats.append("stage-after-LinearRegressor")
    if any(n in ("RBFRegressor", "TPSRegressor") for n in names[:-1]):
        feats.append("stage-after-RBFRegressor")
    return "+".join(feats) or "single-stage"


def judge_surrogate(case, rep, model, disc, xq, in_sizes, out_names, out_sizes, jac_available, tag, ttag,
                    jac_broken=False, when=""):
    from gemseo.disciplines.surrogate import SurrogateDiscipline

    name = case["reg"]["name"]
    try:
        with np.errstate(all="ignore"):
            if disc is None:
                disc = SurrogateDiscipline(model)
    except Exception as e:
        if jac_broken:
            # the constructor calls predict_jacobian, which already failed above for this model: same root cause
            rep.count("surrogate_skipped_model_jacobian_raises")
            return False, None
        rep.violation(f"C18:SurrogateDiscipline:init:exception:{type(e).__name__}:{name}:{ttag}", "surrogate", case,
                      observed=f"{type(e).__name__}: {str(e)[:300]}", expected="a discipline wrapping the trained model")
        return False, None
    if disc.regression_model is not model:
        rep.violation("C18:SurrogateDiscipline:wraps-another-model", "surrogate", case)
        return False, None
    expected_mode = "auto" if jac_available else "finite_differences"
    if str(disc.linearization_mode) != expected_mode and not jac_broken:
        rep.observe(f"surrogate-linearization-mode:{disc.linearization_mode}-while-jacobian-available={jac_available}",
                    {"case": case})
    done = False
    for x0 in xq[:3]:
        inp = to_dict(x0, in_sizes)
        with np.errstate(all="ignore"):
            try:
                ref = model.predict({k: v.copy() for k, v in inp.items()})
            except Exception:
                rep.count("surrogate_skipped_model_predict_raises")
                continue
            try:
                out = disc.execute({k: v.copy() for k, v in inp.items()})
            except Exception as e:
                rep.violation(f"C18:SurrogateDiscipline:execute:exception:{type(e).__name__}:{name}:{ttag}", "surrogate",
                              dict(case, query=x0.tolist()), observed=f"{type(e).__name__}: {str(e)[:300]}",
                              expected="the model's prediction")
                return done, disc
        rep.count("surrogate_execute_checked")
        if when:
            rep.count("surrogate_built_before_retraining_checked")
        done = True
        for k in out_names:
            a, b = np.asarray(out[k]), np.asarray(ref[k]).flatten()
            if a.shape != b.shape or not np.array_equal(a, b, equal_nan=True):
                rep.violation(f"C18:SurrogateDiscipline:execute-differs-from-predict:{name}:{ttag}{when}", "surrogate",
                              dict(case, query=x0.tolist()), observed={k: a}, expected={k: b},
                              msg="SurrogateDiscipline.execute is not bitwise the model's prediction")
                break
        if set(out_names) - set(out):
            rep.violation(f"C18:SurrogateDiscipline:missing-output:{name}", "surrogate", case, observed=sorted(out),
                          expected=out_names)
        if not jac_available:
            continue
        with np.errstate(all="ignore"):
            try:
                jref = model.predict_jacobian({k: v.copy() for k, v in inp.items()})
            except Exception:
                continue
            try:
                jac = disc.linearize({k: v.copy() for k, v in inp.items()}, compute_all_jacobians=True)
            except Exception as e:
                rep.violation(f"C18:SurrogateDiscipline:linearize:exception:{type(e).__name__}:{name}:{ttag}", "surrogate",
                              dict(case, query=x0.tolist()), observed=f"{type(e).__name__}: {str(e)[:300]}",
                              expected="the model's Jacobian")
                return done, disc
        rep.count("surrogate_linearize_checked")
        if any(sub_has_transformers(s_) for s_ in case["reg"].get("chain", []) + ([case["reg"]["sub"]] if "sub" in case["reg"] else [])):
            rep.count("surrogate_linearize_checked:composite_with_sub_model_transformers")
        for ko in out_names:
            stop = False
            for ki in in_sizes:
                a = np.asarray(jac[ko][ki])
                b = np.asarray(jref[ko][ki])
                if a.shape != (out_sizes[ko], in_sizes[ki]) or not np.array_equal(a, b.reshape(a.shape) if a.size == b.size else b, equal_nan=True):
                    rep.violation(f"C18:SurrogateDiscipline:linearize-differs-from-predict_jacobian:{name}:{ttag}{when}",
                                  "surrogate", dict(case, query=x0.tolist()), observed={f"{ko}/{ki}": a},
                                  expected={f"{ko}/{ki}": b},
                                  msg="SurrogateDiscipline.linearize is not bitwise the model's Jacobian")
                    stop = True
                    break
            if stop:
                break
    return done, disc


# =========================================================================== transformer cases (clause 3)
def gen_transformer_case(rng):
    dim = int(rng.integers(1, 5))
    positive = rng.random() < 0.4
    spec = gen_transformer(rng, dim, positive=positive, allow_power=True)
    n = int(rng.integers(8, 41))
    cols = []
    for _ in range(dim):
        kind = ["unit", "sym", "shift", "wide", "small"][int(rng.integers(5))]
        cols.append({"unit": [0.0, 1.0], "sym": [-2.0, 2.0], "shift": [float(np.round(rng.uniform(5, 20), 1)), 2.0],
                     "wide": [0.0, float(np.round(rng.uniform(100, 1000)))], "small": [0.0, 0.01]}[kind])
    if positive:
        cols = [[abs(a) + 0.1 * w, w] for a, w in cols]
    if t_has(spec, POWER):
        # the power transforms are fitted by a bounded scalar optimiser; keep the data in a tame range
        cols = [[min(a, 20.0), min(w, 50.0)] for a, w in cols]
    return {"kind": "transformer", "spec": spec, "dim": dim, "n": n, "cols": cols, "mix": _r(rng.uniform(-0.5, 0.5, (dim, dim))),
            "seed": int(rng.integers(2 ** 31)), "positive": bool(positive)}


def transformer_data(case):
    rng = np.random.default_rng(case["seed"])
    dim, n = case["dim"], case["n"]
    u = rng.uniform(0, 1, (n, dim))
    if not case["positive"]:
        # correlated columns so that PCA has something to rotate
        mix = np.eye(dim) + np.array(case["mix"])
        u = u @ mix.T
        u = (u - u.min(0)) / (u.max(0) - u.min(0))
    a = np.array([c[0] for c in case["cols"]])
    w = np.array([c[1] for c in case["cols"]])
    return a + w * u


def fd_map(fun, x, h):
    """Richardson central differences of a vector map at one point; returns (R1, R2)."""
    n = len(x)
    pts = []
    for j in range(n):
        for f in (0.5, 1.0, 2.0):
            for sgn in (+1, -1):
                p = x.copy()
                p[j] += sgn * f * h[j]
                pts.append(p)
    vals = np.asarray(fun(np.array(pts)))
    m = vals.shape[1]
    r1, r2 = np.zeros((m, n)), np.zeros((m, n))
    for j in range(n):
        b = 6 * j
        d_half = (vals[b] - vals[b + 1]) / h[j]
        d_one = (vals[b + 2] - vals[b + 3]) / (2 * h[j])
        d_two = (vals[b + 4] - vals[b + 5]) / (4 * h[j])
        r1[:, j] = (4 * d_half - d_one) / 3
        r2[:, j] = (4 * d_one - d_two) / 3
    return r1, r2


def roundoff_sensitivity(spec, t, x_rows):
    """First-order forward-error model of ``inverse_transform(transform(x))`` in floating point.

    Every stage output ``v_s`` (the whole transformer is one stage unless it is a Pipeline) is known to a relative
    accuracy eps only; mapped back through the inverse of stages s..1 this moves ``x_j`` by
    ``eps * S_jk``, ``S_jk = |d x_j / d log|v_s,k||``.  Returns ``sum_s sum_k S_jk`` per column of x (max over the rows
    given), measured by central differences of the inverse maps with a relative step 1e-6; ``inf`` where it cannot be
    measured.  It only scales tolerances: a well-scaled transformer has S ~ |x| + range(x); an image made of huge
    offsets with tiny variations (pipeline stages fitted on untransformed data, extreme power exponents) has S >> |x|
    and cannot be inverted to 1e-10 by any implementation.
    """
    stages = [t]
    if isinstance(spec, dict) and spec["kind"] == "Pipeline":
        stages = list(t.transformers)
    x_rows = np.atleast_2d(np.asarray(x_rows, dtype=float))[:3]
    total = np.zeros(x_rows.shape[1])
    try:
        with np.errstate(all="ignore"):
            for row in x_rows:
                vals = []
                v = row.copy()
                for st in stages:
                    v = np.asarray(st.transform(v.copy()), dtype=float)
                    vals.append(v)
                acc = np.zeros(len(row))
                for s_idx, v in enumerate(vals):
                    def back(u, s_idx=s_idx):
                        for st in stages[s_idx::-1]:
                            u = np.asarray(st.inverse_transform(u.copy()), dtype=float)
                        return u
                    for k in range(len(v)):
                        d = 1e-6 * max(abs(v[k]), 1e-300)
                        p_, m_ = v.copy(), v.copy()
                        p_[k] += d
                        m_[k] -= d
                        acc = acc + np.abs(back(p_) - back(m_)) / 2e-6
                acc = np.where(np.isfinite(acc), acc, np.inf)
                total = np.maximum(total, acc)
    except Exception:
        return np.full(x_rows.shape[1], np.inf)
    return total


def power_spread(spec, t, x):
    """Relative spread of the raw (not standardised) power-transformed sample, per column (None if unknown)."""
    from scipy.stats import boxcox, yeojohnson

    if spec["kind"] == "Pipeline":
        if not spec["stages"] or spec["stages"][0]["kind"] not in POWER or any(t_has(s_, POWER) for s_ in spec["stages"][1:]):
            return None
        spec, t = spec["stages"][0], t.transformers[0]
    try:
        lambdas = np.asarray(t.lambdas_)
        fun = boxcox if spec["kind"] == "BoxCox" else yeojohnson
        out = []
        for j in range(x.shape[1]):
            y = np.asarray(fun(x[:, j], lambdas[j]))
            spread = (y.max() - y.min()) / max(np.abs(y).max(), 1e-300)
            if spec["kind"] != "BoxCox":
                # scikit-learn inverts Yeo-Johnson with (lambda*y + 1)**(1/lambda) unless |lambda| < 2.2e-16 (and with
                # 2 - lambda on the negative branch): a tiny non-zero exponent costs 1/|lambda| digits in the same way
                lam = float(lambdas[j])
                for v_ in (abs(lam), abs(2.0 - lam)):
                    if v_ >= np.spacing(1.0):
                        spread = min(spread, v_)
            out.append(spread)
        return np.array(out)
    except Exception:
        return None


def judge_transformer(case, rep):
    spec = case["spec"]
    kind = t_kind(spec)
    rep.count("transformer_cases")
    x = transformer_data(case)
    n, dim = x.shape
    t = build_transformer(spec)
    has_power = t_has(spec, POWER)
    try:
        with np.errstate(all="ignore"):
            t.fit(x.copy())
    except Exception as e:
        rep.count("transformer_fit_failed")
        rep.observe(f"transformer-fit-failed:{kind}:{type(e).__name__}", {"case": case, "error": str(e)[:300]})
        rep.case(case_signature(case), False)
        return
    top = spec["kind"]
    rep.count(f"transformer:{top}")
    # --- round trip (batched and single sample)
    try:
        with np.errstate(all="ignore"):
            xt = np.asarray(t.transform(x.copy()))
            xb = np.asarray(t.inverse_transform(xt.copy()))
            xt1 = np.asarray(t.transform(x[0].copy()))
            xb1 = np.asarray(t.inverse_transform(xt1.copy()))
    except Exception as e:
        rep.violation(f"C18:transformer:{kind}:transform:exception:{type(e).__name__}", "transformer", case,
                      observed=f"{type(e).__name__}: {str(e)[:300]}", expected="transformed data")
        rep.case(case_signature(case), True)
        return
    scale = 1e-10 * (np.abs(x).max(axis=0) + 1e-3 * (x.max(0) - x.min(0)))
    if has_power:
        # With an extreme exponent, scikit-learn's power transform maps the whole sample onto a few ulps
        # ((x+1)**lambda underflows against the constant 1): the digits are lost in the forward map already.
        # The loss factor is 1/spread of the raw transformed sample, recomputed here with scipy.
        spread = power_spread(spec, t, x)
        if spread is None or np.any(spread < 1e-6):
            rep.count("transformer_roundtrip_skipped_power_precision_loss")
            rep.case(case_signature(case), False)
            return
        scale = 1e-9 * np.abs(x).max(axis=0)
    sens = roundoff_sensitivity(spec, t, x)
    xmax = np.abs(x).max(axis=0)
    if not np.all(np.isfinite(sens)) or np.any(1e3 * np.finfo(float).eps * sens > 1e-6 * xmax):
        # the image is so badly scaled that no implementation can invert it to 1e-6: nothing to judge
        rep.count("transformer_roundtrip_skipped_ill_scaled_image")
        rep.case(case_signature(case), False)
        return
    scale = scale + 1e3 * np.finfo(float).eps * sens
    rep.count("transformer_roundtrip_checked")
    if xt.shape != x.shape or xb.shape != x.shape:
        rep.violation(f"C18:transformer:{kind}:shape", "transformer", case, observed=[list(xt.shape), list(xb.shape)],
                      expected=list(x.shape))
    elif not np.all(np.abs(xb - x) <= scale):
        rep.violation(f"C18:transformer:{kind}:roundtrip", "transformer", case,
                      observed={"max_abs_error": np.abs(xb - x).max(axis=0)}, expected={"tolerance": scale},
                      msg="inverse_transform(transform(X)) != X")
    if xt1.shape != (dim,) or xb1.shape != (dim,):
        rep.violation(f"C18:transformer:{kind}:shape:1d-input", "transformer", case,
                      observed=[list(xt1.shape), list(xb1.shape)], expected=[dim])
    elif not np.all(np.abs(xb1 - x[0]) <= scale) or not np.allclose(xt1, xt[0], rtol=1e-9, atol=1e-12):
        rep.violation(f"C18:transformer:{kind}:roundtrip:1d-input", "transformer", case,
                      observed={"back": xb1, "transformed": xt1}, expected={"back": x[0], "transformed": xt[0]})
    # fitting order of pipelines: outside the statement, observed
    if top == "Pipeline" and len(spec["stages"]) >= 2 and spec["stages"][-1]["kind"] in ("MinMaxScaler", "StandardScaler") \
            and not has_power:
        last = spec["stages"][-1]["kind"]
        okfit = (np.allclose(xt.min(0), 0, atol=1e-9) and np.allclose(xt.max(0), 1, atol=1e-9)) if last == "MinMaxScaler" \
            else (np.allclose(xt.mean(0), 0, atol=1e-9) and np.allclose(xt.std(0), 1, atol=1e-9))
        rep.count("pipeline_fit_order_observed")
        if not okfit:
            rep.observe("Pipeline-stages-are-fitted-on-the-untransformed-data",
                        {"spec": spec, "transformed_min": xt.min(0), "transformed_max": xt.max(0)})
    # --- Jacobians
    k = min(3, n)
    pts = x[:k]
    try:
        with np.errstate(all="ignore"):
            jac = np.asarray(t.compute_jacobian(pts.copy()))
            jinv = np.asarray(t.compute_jacobian_inverse(xt[:k].copy()))
            jac1 = np.asarray(t.compute_jacobian(pts[0].copy()))
            jinv1 = np.asarray(t.compute_jacobian_inverse(xt[0].copy()))
    except NotImplementedError:
        rep.count("transformer_jacobian_not_implemented")
        rep.count(f"transformer_jacobian_not_implemented:{'power' if has_power else kind}")
        rep.case(case_signature(case), True)
        return
    except Exception as e:
        rep.violation(f"C18:transformer:{kind}:compute_jacobian:exception:{type(e).__name__}", "transformer", case,
                      observed=f"{type(e).__name__}: {str(e)[:300]}", expected="Jacobians")
        rep.case(case_signature(case), True)
        return
    try:
        jac = np.broadcast_to(jac, (k, dim, dim))
        jinv = np.broadcast_to(jinv, (k, dim, dim))
        jac1 = np.broadcast_to(jac1, (dim, dim))
        jinv1 = np.broadcast_to(jinv1, (dim, dim))
    except ValueError:
        rep.violation(f"C18:transformer:{kind}:jacobian-shape", "transformer", case,
                      observed=[list(np.shape(jac)), list(np.shape(jinv)), list(np.shape(jac1)), list(np.shape(jinv1))],
                      expected=[[k, dim, dim], [k, dim, dim], [dim, dim], [dim, dim]])
        rep.case(case_signature(case), True)
        return
    hx = 1e-4 * np.maximum(x.max(0) - x.min(0), 1e-12)
    ht = 1e-4 * np.maximum(xt.max(0) - xt.min(0), 1e-12)
    for i in range(k):
        with np.errstate(all="ignore"):
            r1, r2 = fd_map(t.transform, pts[i], hx)
            s1, s2 = fd_map(t.inverse_transform, xt[i], ht)
        tol, rel = jac_tolerance(r1, r2)
        tol_i, rel_i = jac_tolerance(s1, s2)
        if rel:
            rep.count("transformer_jacobian_checked")
            if np.any(np.abs(jac[i] - r1) > tol):
                rep.violation(f"C18:transformer:{kind}:compute_jacobian-vs-transform", "transformer", case,
                              observed=jac[i], expected=r1)
            if i == 0 and np.any(np.abs(jac1 - r1) > tol):
                rep.violation(f"C18:transformer:{kind}:compute_jacobian-vs-transform:1d-input", "transformer", case,
                              observed=jac1, expected=r1)
        if rel_i:
            rep.count("transformer_jacobian_inverse_checked")
            if np.any(np.abs(jinv[i] - s1) > tol_i):
                rep.violation(f"C18:transformer:{kind}:compute_jacobian_inverse-vs-inverse_transform", "transformer", case,
                              observed=jinv[i], expected=s1)
            if i == 0 and np.any(np.abs(jinv1 - s1) > tol_i):
                rep.violation(f"C18:transformer:{kind}:compute_jacobian_inverse-vs-inverse_transform:1d-input",
                              "transformer", case, observed=jinv1, expected=s1)
        prod = jinv[i] @ jac[i]
        rep.count("transformer_inverse_matrix_checked")
        if not np.allclose(prod, np.eye(dim), rtol=0, atol=1e-9 * max(1.0, np.abs(jinv[i]).max() * np.abs(jac[i]).max())):
            rep.violation(f"C18:transformer:{kind}:jacobian_inverse-is-not-the-inverse-matrix", "transformer", case,
                          observed=prod, expected="identity")
    rep.case(case_signature(case), True)


# =========================================================================== directed cases
def _fixed_data(n_in=2, n_out=2, n=15, positive=False, seed=11, in_split=False, out_split=False, box=None):
    rng = np.random.default_rng(1000 + seed)
    d = gen_data(rng, positive=positive, n_in=n_in, n_out=n_out, n=n, allow_constant=False)
    box = box or [(0.0, 2.0)] * n_in
    d["lb"], d["ub"] = [b[0] for b in box], [b[1] for b in box]
    d["func"]["scale"] = [1.0] * n_out
    d["in_sizes"] = {"x1": 1, "x2": n_in - 1} if in_split and n_in > 1 else {"x1": n_in}
    d["out_sizes"] = {"y1": 1, "y2": n_out - 1} if out_split and n_out > 1 else {"y1": n_out}
    d["seed"] = seed
    return d


def directed_cases():
    """Systematic sweep and fixed corners (distributed over the shards by index)."""
    out = []

    def model(reg, tin=None, tout=None, data=None, **extra):
        c = {"kind": "model", "reg": reg, "data": data or _fixed_data(), "tin": tin, "tout": tout, "by_name": False,
             "qseed": 5, "via_discipline": False}
        c.update(extra)
        out.append(c)

    mm = {"kind": "MinMaxScaler"}
    # every RBF kernel x epsilon x transformer
    for fn in KERNELS:
        for eps in (None, 0.5, 1.0, 2.0):
            for tr in ("none", "default", "scaler-in"):
                s = {"function": fn}
                if eps is not None:
                    s["epsilon"] = eps
                tin, tout = {"none": (None, None), "default": ("default", "default"),
                             "scaler-in": ({"kind": "Scaler", "offset": 1.0, "coefficient": 3.0}, None)}[tr]
                model({"name": "RBFRegressor", "settings": s}, tin, tout)
    for eps in (None, 0.5, 2.0):
        model({"name": "TPSRegressor", "settings": {} if eps is None else {"epsilon": eps}}, None, None)
    model({"name": "RBFRegressor", "settings": {"epsilon": 0.7}, "callable": "custom_multiquadric"})
    model({"name": "RBFRegressor", "settings": {"epsilon": 0.7}, "callable": "custom_r3"})
    model({"name": "RBFRegressor", "settings": {}, "callable": "custom_r3", "no_der": True})
    model({"name": "RBFRegressor", "settings": {"norm": "cityblock"}})
    # regressors without derivatives: counted, surrogate execution still judged
    for n in NO_JACOBIAN:
        model({"name": n, "settings": {}}, "default", "default")
    model({"name": "MOERegressor", "settings": {}, "hard": False, "n_clusters": 2, "n_neighbors": 3,
           "sub": {"name": "LinearRegressor", "settings": {}}}, mm, mm, data=_fixed_data(n=30))
    model({"name": "MOERegressor", "settings": {}, "n_clusters": 2, "n_neighbors": 3,
           "sub": {"name": "PolynomialRegressor", "settings": {"degree": 2}}}, mm, mm, data=_fixed_data(n=30))
    # per-variable transformers
    model({"name": "LinearRegressor", "settings": {}}, mm, mm, by_name=True, data=_fixed_data(in_split=True, out_split=True))
    # chains
    rbf = {"name": "RBFRegressor", "settings": {}}
    lin = {"name": "LinearRegressor", "settings": {}}
    lin0 = {"name": "LinearRegressor", "settings": {"fit_intercept": False}}
    pol = {"name": "PolynomialRegressor", "settings": {"degree": 2}}
    for chain in ([rbf], [lin, rbf], [rbf, lin], [pol, rbf], [lin0, rbf], [lin, pol, rbf], [rbf, rbf]):
        for tr in ((None, None), ("default", "default")):
            model({"name": "RegressorChain", "settings": {}, "chain": chain}, *tr)
    # composite regressors whose sub-models carry their own transformers, with and without transformers on the composite
    std = {"kind": "StandardScaler"}
    sc = {"kind": "Scaler", "offset": 1.0, "coefficient": 3.0}
    pca = {"kind": "PCA", "scale": True}
    for sub in ({"name": "PolynomialRegressor", "settings": {"degree": 2}, "tin": mm, "tout": mm},
                {"name": "PolynomialRegressor", "settings": {"degree": 2}, "tin": "default", "tout": "default"},
                {"name": "LinearRegressor", "settings": {}, "tin": sc, "tout": pca},
                {"name": "LinearRegressor", "settings": {}, "tin": None, "tout": std},
                {"name": "RBFRegressor", "settings": {"function": "gaussian"}, "tin": std, "tout": None},
                {"name": "RBFRegressor", "settings": {"function": "multiquadric"}, "tin": pca, "tout": sc},
                {"name": "PolynomialRegressor", "settings": {"degree": 2}, "tin": {"kind": "PCA", "scale": False, "n_components": 1},
                 "tout": {"kind": "Pipeline", "stages": [std, mm]}},
                {"name": "LinearRegressor", "settings": {}, "explicit_none": True}):
        for tr in ((None, None), (mm, mm), (sc, std)):
            model({"name": "MOERegressor", "settings": {}, "n_clusters": 2, "n_neighbors": 3, "sub": dict(sub)}, *tr,
                  data=_fixed_data(n=30))
    for chain in ([dict(lin, tin=mm, tout=mm), dict(rbf, tin=std, tout=std)], [dict(rbf, tin=sc, tout=pca), dict(lin)],
                  [dict(pol, tin="default", tout="default"), dict(rbf, tin=None, tout=mm)]):
        for tr in ((None, None), (mm, std)):
            model({"name": "RegressorChain", "settings": {}, "chain": chain}, *tr)
    # life cycle of one instance (subset, other subset, all samples, enriched dataset), every regressor family
    for reg_ in ({"name": "LinearRegressor", "settings": {}},
                 {"name": "LinearRegressor", "settings": {"fit_intercept": False}},
                 {"name": "LinearRegressor", "settings": {"penalty_level": 0.01, "l2_penalty_ratio": 0.0}},
                 {"name": "LinearRegressor", "settings": {"penalty_level": 0.01, "l2_penalty_ratio": 1.0}},
                 {"name": "PolynomialRegressor", "settings": {"degree": 2}},
                 {"name": "PolynomialRegressor", "settings": {"degree": 3, "penalty_level": 0.001, "l2_penalty_ratio": 0.5}},
                 {"name": "RBFRegressor", "settings": {}}, {"name": "RBFRegressor", "settings": {"function": "gaussian", "epsilon": 0.5}},
                 {"name": "TPSRegressor", "settings": {"epsilon": 1.0}},
                 {"name": "PCERegressor", "settings": {"degree": 2}, "dist": "uniform"},
                 {"name": "MOERegressor", "settings": {}, "n_clusters": 2, "n_neighbors": 3,
                  "sub": {"name": "LinearRegressor", "settings": {}, "tin": mm, "tout": mm}},
                 {"name": "RegressorChain", "settings": {}, "chain": [dict(lin), dict(rbf)]},
                 {"name": "RegressorChain", "settings": {}, "chain": [dict(pol), dict(lin)]},
                 {"name": "OTGaussianProcessRegressor", "settings": {}},
                 {"name": "GaussianProcessRegressor", "settings": {}}, {"name": "RandomForestRegressor", "settings": {}},
                 {"name": "SVMRegressor", "settings": {}}, {"name": "GradientBoostingRegressor", "settings": {}},
                 {"name": "MLPRegressor", "settings": {}}):
        for tr in ((None, None), ("default", "default"), (pca, sc)):
            if reg_["name"] == "PCERegressor" and tr[0] not in (None, "default"):
                tr = (None, sc)
            model(dict(reg_), *tr, data=_fixed_data(n=30 if reg_["name"] in ("MOERegressor", "PCERegressor") else 16),
                  lifecycle=True)
    # Gaussian processes, one and two input variables
    for split in (False, True):
        for n_out in (1, 2):
            model({"name": "OTGaussianProcessRegressor", "settings": {}}, "default", "default",
                  data=_fixed_data(n_out=n_out, in_split=split, n=12))
    # square polynomial / linear systems
    model({"name": "PolynomialRegressor", "settings": {"degree": 2}, "square": True}, None, None, data=_fixed_data(n=6))
    model({"name": "PolynomialRegressor", "settings": {"degree": 3}, "square": True}, mm, mm,
          data=_fixed_data(n_in=1, n=4, box=[(0.0, 2.0)]))
    model({"name": "LinearRegressor", "settings": {}, "square": True}, None, {"kind": "StandardScaler"}, data=_fixed_data(n=3))
    # penalised linear models with one output (coef_ is 1-D in scikit-learn)
    for ratio in (0.0, 0.5, 1.0):
        for n_out in (1, 2):
            model({"name": "LinearRegressor", "settings": {"penalty_level": 0.01, "l2_penalty_ratio": ratio}}, mm, mm,
                  data=_fixed_data(n_out=n_out))
    # output transformers of each family on one model
    for tout in (mm, {"kind": "StandardScaler"}, {"kind": "Scaler", "offset": -3.0, "coefficient": 0.1},
                 {"kind": "Scaler", "offset": [1.0, -2.0], "coefficient": [-8.0, 0.5]}, {"kind": "PCA", "scale": False},
                 {"kind": "PCA", "scale": True}, {"kind": "PCA", "scale": False, "n_components": 1},
                 {"kind": "Pipeline", "stages": [{"kind": "PCA", "scale": True}, mm]},
                 {"kind": "Pipeline", "stages": []}, {"kind": "Power", "standardize": True},
                 {"kind": "BoxCox", "standardize": True}, {"kind": "YeoJohnson", "standardize": False}):
        pos = tout["kind"] in POWER
        for tin in (None, {"kind": "PCA", "scale": True}, {"kind": "Pipeline", "stages": [{"kind": "StandardScaler"},
                                                                                           {"kind": "PCA", "scale": False}]}):
            model({"name": "PolynomialRegressor", "settings": {"degree": 2}}, tin, tout, data=_fixed_data(positive=pos, n=20))
            model({"name": "RBFRegressor", "settings": {"function": "gaussian"}}, tin, tout,
                  data=_fixed_data(positive=pos, n=15), via_discipline=True)
    # PCE
    for dist in ("uniform", "normal"):
        for tout in (None, mm, {"kind": "PCA", "scale": False}):
            model({"name": "PCERegressor", "settings": {"degree": 2}, "dist": dist}, None, tout,
                  data=_fixed_data(n=30, in_split=True))
    # stand-alone transformers
    for spec in ({"kind": "MinMaxScaler"}, {"kind": "StandardScaler"}, {"kind": "Scaler", "offset": 5.0, "coefficient": 3.0},
                 {"kind": "Scaler", "offset": [0.0, 10.0, 100.0], "coefficient": [5.0, 1.0, -2.0]},
                 {"kind": "PCA", "scale": False}, {"kind": "PCA", "scale": True},
                 {"kind": "Power", "standardize": True}, {"kind": "BoxCox", "standardize": True},
                 {"kind": "BoxCox", "standardize": False}, {"kind": "YeoJohnson", "standardize": True},
                 {"kind": "Pipeline", "stages": []},
                 {"kind": "Pipeline", "stages": [{"kind": "Scaler", "offset": 0.0, "coefficient": 10.0}, {"kind": "MinMaxScaler"}]},
                 {"kind": "Pipeline", "stages": [{"kind": "PCA", "scale": True}, {"kind": "StandardScaler"}]},
                 {"kind": "Pipeline", "stages": [{"kind": "BoxCox", "standardize": True}, {"kind": "PCA", "scale": False},
                                                 {"kind": "MinMaxScaler"}]}):
        out.append({"kind": "transformer", "spec": spec, "dim": 3, "n": 20,
                    "cols": [[1.0, 2.0], [0.5, 10.0], [3.0, 0.5]], "mix": [[0, 0.3, 0], [0, 0, 0.2], [0.4, 0, 0]],
                    "seed": 3, "positive": t_has(spec, POWER)})
    return out


# =========================================================================== entry points
def run_case(case, rep):
    if case["kind"] == "transformer":
        judge_transformer(case, rep)
    else:
        judge_model(case, rep)


def run_shard(spec, rep):
    try:
        import openturns as ot

        ot.Log.Show(ot.Log.NONE)
    except Exception:
        pass
    rng = np.random.default_rng(spec["seed"])
    shard, n_shards = spec.get("shard", 0), spec.get("n_shards", N_SHARDS)
    for i, case in enumerate(directed_cases()):
        if i % n_shards != shard % n_shards:
            continue
        run_case(case, rep)
        rep.count("directed_cases")
    rng_t = np.random.default_rng(subseed(spec["seed"], "transformers"))
    for i in range(spec["n_transf"]):
        if rep.time_left() < 0:
            rep.count("stopped_on_time_budget")
            break
        case = gen_transformer_case(rng_t)
        run_case(case, rep)
        if i < 1:
            rep.sample({"case": case, "note": "transformer case: round trip, Jacobians vs FD, inverse matrix"})
    for i in range(spec["n_model"]):
        if rep.time_left() < 0:
            rep.count("stopped_on_time_budget")
            break
        case = gen_model_case(rng)
        run_case(case, rep)
        if i < 2:
            rep.sample({"case": case, "note": "model case: predict_jacobian vs Richardson FD of predict, interpolation, "
                                              "SurrogateDiscipline vs model"})


def replay(case, rep):
    try:
        import openturns as ot

        ot.Log.Show(ot.Log.NONE)
    except Exception:
        pass
    case = dict(case)
    case.pop("query", None)
    case.pop("phase", None)
    run_case(case, rep)
