"""C08 — execution sequences respect data dependencies and composition is exact.

Monitors: (M4) independent graph model ``vlib.ref.c08_graph`` (own Tarjan + Warshall closure, no
networkx) judging ``CouplingStructure(...).sequence`` / the coupling sets; (M4) monolithic evaluation
of the generated system (``numpy.linalg.solve`` or own topological evaluation) judging what
``MDOChain`` / ``MDAChain`` / ``MDOInitializationChain`` return; (M1) execution counters of the harness
disciplines; (M8) anchors.  See DESIGN.md section 3, C08.

A case is a list of discipline descriptions ``{"name", "ins", "outs"}`` *in listing order*: this is
all that gemseo sees of the graph, and all that the reference model is given.
"""

from __future__ import annotations

import itertools
import logging
import math

import numpy as np

from vlib.harness import subseed
from vlib.ref import c08_graph as G

PID = "C08"
LEVEL = "exploration"
RULE = (
    "exhaustive enumeration of the labelled digraphs on 1-3 nodes x every self-loop subset x every listing order "
    "(both tiers) and on 4 nodes (thorough: every self-loop subset and listing order; quick: the 4096 loop-free "
    "digraphs in identity order + one sampled self-loop subset/order each), plus seeded random digraphs on 5-9 "
    "nodes with planted strongly connected components, isolated and input-less disciplines, self-loops, "
    "duplicated discipline names, multi-variable edges and unconsumed outputs, in random listing orders, plus "
    "directed cases; a sub-sample is executed (MDOChain of the flattened sequence, MDAChain with Jacobi / "
    "Gauss-Seidel inner MDAs, sequential or threaded stages, MDOInitializationChain) and compared with the "
    "monolithic evaluation; a case is distinct by (listing of (name-duplication flag, inputs, outputs), kind of "
    "check, execution variant) and non-trivial when the graph has at least one edge or self-loop"
)
ASSUMPTIONS = [
    "the data-dependency graph is the one defined by input/output names: u->v iff an output of u is an input of v",
    "every variable is produced by at most one discipline (gemseo only warns otherwise; semantics undefined)",
    "weak couplings: only what the documented definition (outputs of the disciplines outside every cycle) and the "
    "strict graph reading (variables on acyclic edges) agree on is demanded; all couplings: variables read only by "
    "their own producer are not judged; order of the disciplines inside a group is observed, not judged",
    "executed systems are affine with an infinity-norm contraction constant <= 0.5 on the coupling variables "
    "(tanh-nonlinear only on acyclic graphs); inner MDAs run with tolerance 1e-12 and max_mda_iter=300 and the "
    "result is compared with numpy.linalg.solve within 1e-8*(1+|y|) (acyclic: 1e-10*(1+|y|))",
]
ANCHORS = [
    "gemseo.core.dependency_graph:DependencyGraph.get_execution_sequence",
    "gemseo.core.dependency_graph:DependencyGraph.__get_ordered_scc",
    "gemseo.core.dependency_graph:DependencyGraph.__create_graph",
    "gemseo.core.dependency_graph:DependencyGraph.__create_condensed_graph",
    "gemseo.core.dependency_graph:DependencyGraph.__get_leaves",
    "gemseo.core.coupling_structure:CouplingStructure.is_self_coupled",
    "gemseo.core.coupling_structure:CouplingStructure.get_strongly_coupled_disciplines",
    "gemseo.core.coupling_structure:CouplingStructure._compute_weakly_coupled",
    "gemseo.core.coupling_structure:CouplingStructure._compute_strong_couplings",
    "gemseo.core.coupling_structure:CouplingStructure._compute_weak_couplings",
    "gemseo.core.coupling_structure:CouplingStructure._compute_all_couplings",
    "gemseo.core.chains.chain:MDOChain._execute",
    "gemseo.core.chains.parallel_chain:MDOParallelChain._execute",
    "gemseo.core.chains.initialization_chain:order_disciplines_from_default_inputs",
    "gemseo.mda.mda_chain:MDAChain._create_mdo_chain",
    "gemseo.mda.mda_chain:MDAChain.__compute_parallel_disciplines",
    "gemseo.mda.mda_chain:MDAChain.__requires_mda",
    "gemseo.mda.mda_chain:MDAChain._execute",
]
# the enumeration counters are exact totals: an incomplete enumeration is inconclusive, never "held"
MIN_COUNTERS = {
    "quick": {"enum_n1": 2, "enum_n2": 32, "enum_n3": 3072, "enum_n4_loopfree_identity": 4096, "enum_n4_sampled": 8192,
              "sequence_oracle_evaluations": 17000, "coupling_oracle_evaluations": 17000,
              "dependency_graph_oracle_evaluations": 1500, "directed_cases": 30, "random_cases": 2000,
              "random_cases_with_scc": 1300, "random_cases_with_duplicated_names": 600,
              "exec_oracle_evaluations": 2300, "exec_mdochain_acyclic": 140, "exec_mdachain_acyclic": 130,
              "exec_mdachain-parallel_acyclic": 140, "exec_initchain_acyclic": 140, "exec_mdachain_cyclic": 430,
              "exec_mdachain-gs_cyclic": 450, "exec_mdachain-parallel_cyclic": 430,
              "exec_mdachain-initdefaults_cyclic": 440, "exec_coupling_guess_passed": 500,
              "history_structures": 9500, "history_queries_judged": 400000,
              "process_coupling_structures_judged": 4000, "inner_mda_coupling_structures_judged": 5500},
    "thorough": {"enum_n1": 2, "enum_n2": 32, "enum_n3": 3072, "enum_n4": 4096 * 16 * 24,
                 "sequence_oracle_evaluations": 1590000, "coupling_oracle_evaluations": 1590000,
                 "dependency_graph_oracle_evaluations": 15000, "directed_cases": 30, "random_cases": 32000,
                 "random_cases_with_scc": 20000, "random_cases_with_duplicated_names": 9000,
                 "exec_oracle_evaluations": 25000, "exec_mdochain_acyclic": 1000, "exec_mdachain_acyclic": 1000,
                 "exec_mdachain-parallel_acyclic": 1000, "exec_initchain_acyclic": 1000, "exec_mdachain_cyclic": 5000,
                 "exec_mdachain-gs_cyclic": 5000, "exec_mdachain-parallel_cyclic": 5000,
                 "exec_mdachain-initdefaults_cyclic": 5000, "exec_coupling_guess_passed": 10000,
                 # estimated from the quick ratios (thorough not re-run after adding these monitors)
                 "history_structures": 100000, "history_queries_judged": 4000000,
                 "process_coupling_structures_judged": 40000, "inner_mda_coupling_structures_judged": 60000},
}
SHARD_TIMEOUT = {"quick": 2400, "thorough": 8000}  # generous: only a cap (16 idle cores: ~25 s / ~3 min)

N_SHARDS = 16
ENUM_TOTAL = {1: 2, 2: 32, 3: 3072, 4: 4096 * 16 * 24}
QUICK_N4_IDENTITY = 4096


# --------------------------------------------------------------------------- shards
def shards(tier, seed):
    out = []
    for i in range(N_SHARDS):
        out.append({
            "seed": subseed(seed, PID, i),
            "n_shards": N_SHARDS,
            "n_random": {"quick": 250, "thorough": 4000}[tier],
            "exec_fraction_enum": {"quick": {3: 0.12, 4: 0.12}, "thorough": {3: 0.5, 4: 0.01}}[tier],
            "exec_fraction_random": {"quick": 0.25, "thorough": 0.3}[tier],
            "budget_s": {"quick": 2000, "thorough": 7000}[tier],
        })
    return out


# --------------------------------------------------------------------------- harness discipline
_DISC_CLS = None


def _disc_class():
    global _DISC_CLS
    if _DISC_CLS is not None:
        return _DISC_CLS
    from gemseo.core.discipline import Discipline

    class Node(Discipline):
        """y_o = act(sum_k M[o][k] @ in_k + c_o) for each output o (harness-owned body)."""

        def __init__(self, name, ins, outs, coefs=None, defaults=None):
            super().__init__(name)
            self.io.input_grammar.update_from_names(list(ins))
            self.io.output_grammar.update_from_names(list(outs))
            if defaults is not None:
                self.io.input_grammar.defaults = defaults
            self.h_ins, self.h_outs, self.coefs = list(ins), list(outs), coefs
            self.n_run = 0

        def _run(self, input_data):
            self.n_run += 1
            return node_eval(self.coefs, self.h_ins, self.h_outs, input_data)

    _DISC_CLS = Node
    return Node


def node_eval(coefs, ins, outs, data):
    """The body of one node (shared by the discipline and by the monolithic reference evaluation)."""
    res = {}
    for o in outs:
        c = coefs[o]
        s = np.array(c["c"], dtype=float)
        for k in ins:
            s = s + c["M"][k] @ np.asarray(data[k], dtype=float)
        res[o] = np.tanh(s) if c["tanh"] else s
    return res


def make_coefs(case):
    """Coefficients of every node, deterministic given the case (sizes, coef_seed, nonlinear)."""
    rng = np.random.default_rng(case["coef_seed"])
    sizes = case["sizes"]
    produced = {o for d in case["discs"] for o in d["outs"]}
    L = 0.5
    coefs = []
    for d in case["discs"]:
        cd = {}
        coupl = [k for k in d["ins"] if k in produced]
        for o in d["outs"]:
            so = sizes[o]
            M = {k: np.round(rng.uniform(-1, 1, (so, sizes[k])), 3) for k in d["ins"]}
            # contraction: row sums of |.| over the coupling inputs <= L
            if coupl:
                rows = sum(np.abs(M[k]).sum(axis=1) for k in coupl)
                scale = L / max(float(rows.max()), 1e-12)
                for k in coupl:
                    M[k] = M[k] * scale
            cd[o] = {"M": M, "c": np.round(rng.uniform(-1, 1, so), 3), "tanh": bool(case.get("nonlinear"))}
        coefs.append(cd)
    ext = sorted({k for d in case["discs"] for k in d["ins"]} - produced)
    x = {k: np.round(rng.uniform(-2, 2, sizes[k]), 3) for k in ext}
    return coefs, x


def monolithic(case, coefs, x, model):
    """The whole system evaluated at once: linear solve, or topological evaluation when acyclic."""
    discs = case["discs"]
    sizes = case["sizes"]
    if not model.has_cycle:
        order = G.topological_order(model.n, model.adj)
        data = {k: v.copy() for k, v in x.items()}
        for u in order:
            data.update(node_eval(coefs[u], discs[u]["ins"], discs[u]["outs"], data))
        return {k: data[k] for d in discs for k in d["outs"]}
    names = [o for d in discs for o in d["outs"]]
    off, tot = {}, 0
    for name in names:
        off[name] = tot
        tot += sizes[name]
    A = np.zeros((tot, tot))
    b = np.zeros(tot)
    for u, d in enumerate(discs):
        for o in d["outs"]:
            c = coefs[u][o]
            r = slice(off[o], off[o] + sizes[o])
            b[r] += c["c"]
            for k in d["ins"]:
                if k in off:
                    A[r, off[k]:off[k] + sizes[k]] += c["M"][k]
                else:
                    b[r] += c["M"][k] @ x[k]
    y = np.linalg.solve(np.eye(tot) - A, b)
    return {name: y[off[name]:off[name] + sizes[name]] for name in names}


def build_disciplines(case, coefs=None, coupling_defaults="all"):
    """Harness disciplines of a case, in listing order.

    coupling_defaults: "all" (every input has a default), "none" (only the external inputs have one) or a
    permutation of the node indices: the coupling input k of node v then has a default only if the producer of k
    does not come before v in the permutation (so that a greedy initialisation in that order is possible).
    """
    Node = _disc_class()
    sizes = case.get("sizes")
    producer = {o: u for u, d in enumerate(case["discs"]) for o in d["outs"]}
    rank = None
    if not isinstance(coupling_defaults, str):
        rank = {u: r for r, u in enumerate(coupling_defaults)}
    out = []
    for u, d in enumerate(case["discs"]):
        defaults = None
        if sizes is not None:
            defaults = {}
            for k in d["ins"]:
                if k in producer and (coupling_defaults == "none" or
                                      (rank is not None and rank[producer[k]] < rank[u])):
                    continue
                defaults[k] = np.zeros(sizes[k])
        out.append(Node(d["name"], d["ins"], d["outs"], None if coefs is None else coefs[u], defaults))
    return out


# --------------------------------------------------------------------------- structure oracle
def features(model, case):
    f = []
    if any(len(g) > 1 for g in model.sccs):
        f.append("scc")
    if model.loops:
        f.append("selfloop-in-scc" if any(len(model.group_of[u]) > 1 for u in model.loops) else "selfloop")
    names = [d["name"] for d in case["discs"]]
    if len(set(names)) < len(names):
        f.append("dupnames")
    if any(len(d["outs"]) > 1 for d in case["discs"]):
        f.append("multiout")
    return "+".join(f) or "plain"


def shape_signature(case, extra=()):
    names = [d["name"] for d in case["discs"]]
    return (tuple((names.count(d["name"]) > 1, tuple(d["ins"]), tuple(d["outs"])) for d in case["discs"]),) + tuple(extra)


def to_indices(sequence, index_of):
    return [[tuple(index_of[id(d)] for d in group) for group in stage] for stage in sequence]


def judge_structure(case, rep, disciplines=None, model=None, hist_rng=None):
    """Build CouplingStructure on the real code and judge sequence + coupling sets. Returns (model, ok)."""
    from gemseo.core.coupling_structure import CouplingStructure

    discs = case["discs"]
    if model is None:
        model = G.Model([d["ins"] for d in discs], [d["outs"] for d in discs])
    if disciplines is None:
        disciplines = build_disciplines(case)
    feat = features(model, case)
    index_of = {id(d): i for i, d in enumerate(disciplines)}
    try:
        cs = CouplingStructure(disciplines)
        seq = cs.sequence
        stages = to_indices(seq, index_of)
    except Exception as e:  # a list of disciplines with unique outputs is a valid input
        rep.violation(f"C08:structure:exception:{type(e).__name__}:{feat}", "sequence is computed", case,
                      observed=f"{type(e).__name__}: {e}", expected="an execution sequence")
        return model, False
    ok = True
    rep.count("sequence_oracle_evaluations")
    for clause, detail in model.check_sequence(stages):
        ok = False
        rep.violation(f"C08:sequence:{clause}:{feat}", clause, case, observed=dict(detail, sequence=stages),
                      expected={"sccs": sorted(sorted(g) for g in model.sccs),
                                "edges": sorted((u, v) for u in range(model.n) for v in model.adj[u])})
    if ok:
        rep.count("group_order_observed")
        if not model.group_order_preserved(stages):
            rep.observe("group-members-not-in-listing-order (documented by DependencyGraph, outside the statement)",
                        {"case": case, "sequence": stages})
            rep.count("group_order_not_preserved")
    # coupled disciplines
    try:
        strongly = [index_of[id(d)] for d in cs.strongly_coupled_disciplines]
        weakly = [index_of[id(d)] for d in cs.weakly_coupled_disciplines]
        strong, weak, allc = list(cs.strong_couplings), list(cs.weak_couplings), list(cs.all_couplings)
    except Exception as e:
        rep.violation(f"C08:couplings:exception:{type(e).__name__}:{feat}", "coupling sets are computed", case,
                      observed=f"{type(e).__name__}: {e}", expected="coupling sets")
        return model, False
    rep.count("coupling_oracle_evaluations")

    def bad(what, clause, observed, expected):
        nonlocal ok
        ok = False
        rep.violation(f"C08:couplings:{what}:{feat}", clause, case, observed=observed, expected=expected)

    if sorted(strongly) != sorted(model.cyclic):
        bad("strongly-coupled-disciplines", "strongly coupled disciplines = disciplines on a cycle",
            sorted(strongly), sorted(model.cyclic))
    if sorted(weakly) != sorted(model.acyclic):
        bad("weakly-coupled-disciplines", "weakly coupled disciplines = disciplines on no cycle",
            sorted(weakly), sorted(model.acyclic))
    if len(set(strong)) != len(strong) or len(set(weak)) != len(weak) or len(set(allc)) != len(allc):
        bad("duplicates", "coupling lists have no duplicate", {"strong": strong, "weak": weak, "all": allc}, None)
    if set(strong) != model.strong:
        kind = "missing" if model.strong - set(strong) else "extra"
        bad(f"strong:{kind}", "strong couplings = variables produced and consumed inside one cycle group",
            sorted(strong), sorted(model.strong))
    w = set(weak)
    if not model.weak_required <= w:
        bad("weak:missing", "weak couplings contain every variable produced outside cycles and read elsewhere",
            sorted(w), {"required": sorted(model.weak_required)})
    elif not w <= model.weak_allowed:
        bad("weak:extra", "weak couplings contain no strong coupling and nothing outside the acyclic part",
            sorted(w), {"allowed": sorted(model.weak_allowed)})
    elif w != model.weak_documented:
        rep.observe("weak_couplings differ from the documented definition (outputs of weakly coupled disciplines)",
                    {"case": case, "weak": sorted(w), "documented": sorted(model.weak_documented)})
    a = set(allc)
    if not model.all_required <= a:
        bad("all:missing", "all couplings contain every variable produced by one discipline and read by another",
            sorted(a), {"required": sorted(model.all_required)})
    elif not a <= model.all_allowed:
        bad("all:extra", "all couplings contain only variables that are both produced and read",
            sorted(a), {"allowed": sorted(model.all_allowed)})
    elif model.self_only & a:
        rep.count("all_couplings_with_self_only_variable")
    # results must not depend on the query history: (1) a new structure queried in random order before its
    # properties are read, (2) the structure above queried again after its properties were read
    if hist_rng is not None and "history" not in case:
        case["history"] = gen_history(hist_rng, case)
    if "history" in case:
        rep.count("history_structures")
        try:
            cs2 = CouplingStructure(disciplines)
        except Exception:
            cs2 = None
        if cs2 is not None:
            ok = judge_history(cs2, case["history"], disciplines, model, case, rep, "query-history") and ok
        ok = judge_history(cs, case["history"], disciplines, model, case, rep, "query-history-after-properties") and ok
    return model, ok


# --------------------------------------------------------------------------- query histories
PROPS = ("strongly", "weakly", "strong", "weak", "all")


def gen_history(rng, case):
    """A random sequence of public queries (method variants with every argument combination, several times,
    in random order) followed by every property in random order."""
    n = len(case["discs"])
    outs = [o for d in case["discs"] for o in d["outs"]]
    ops = []
    for _ in range(int(rng.integers(5, 13))):
        r = int(rng.integers(9))
        if r < 2:
            ops.append(["get_strongly", bool(rng.integers(2)), bool(rng.integers(2))])
        elif r == 2:
            ops.append(["self", int(rng.integers(n))])
        elif r == 3:
            ops.append(["in", int(rng.integers(n)), bool(rng.integers(2))])
        elif r == 4:
            ops.append(["out", int(rng.integers(n)), bool(rng.integers(2))])
        elif r == 5 and outs:
            ops.append(["find", outs[int(rng.integers(len(outs)))]])
        else:
            ops.append([PROPS[int(rng.integers(5))]])
    ops += [[PROPS[int(i)]] for i in rng.permutation(5)]
    return ops


FIXED_HISTORY = ([[p] for p in PROPS] + [["get_strongly", a, b] for a in (True, False) for b in (True, False)]
                 + [[p] for p in reversed(PROPS)])


def _query(cs, op, disciplines):
    k = op[0]
    if k == "strongly":
        return cs.strongly_coupled_disciplines
    if k == "weakly":
        return cs.weakly_coupled_disciplines
    if k == "strong":
        return cs.strong_couplings
    if k == "weak":
        return cs.weak_couplings
    if k == "all":
        return cs.all_couplings
    if k == "get_strongly":
        return cs.get_strongly_coupled_disciplines(add_self_coupled=op[1], by_group=op[2])
    if k == "self":
        return cs.is_self_coupled(disciplines[op[1]])
    if k == "in":
        return cs.get_input_couplings(disciplines[op[1]], strong=op[2])
    if k == "out":
        return cs.get_output_couplings(disciplines[op[1]], strong=op[2])
    if k == "find":
        return cs.find_discipline(op[1])
    raise ValueError(k)


def _judge_query(op, res, model, index_of):
    """None when the result of one query is the one implied by the graph, else (what, clause, observed, expected)."""
    k = op[0]
    if k in ("strongly", "weakly") or (k == "get_strongly" and not op[2]):
        got = sorted(index_of[id(d)] for d in res)
        if k == "weakly":
            exp, what = sorted(model.acyclic), "weakly-coupled-disciplines"
        elif k == "strongly" or op[1]:
            exp, what = sorted(model.cyclic), "strongly-coupled-disciplines"
        else:
            exp, what = sorted(u for u in range(model.n) if len(model.group_of[u]) > 1), "strongly-coupled-disciplines"
        return None if got == exp else (what, f"{k}{op[1:]} = the disciplines implied by the graph", got, exp)
    if k == "get_strongly":
        got = sorted(sorted(index_of[id(d)] for d in g) for g in res)
        exp = [sorted(g) for g in model.sccs if len(g) > 1]
        if op[1]:
            exp += [[u] for u in model.loops if len(model.group_of[u]) == 1]
        exp = sorted(exp)
        return None if got == exp else ("strongly-coupled-groups", f"{k}{op[1:]} = the cycle groups", got, exp)
    if k == "self":
        exp = op[1] in model.loops
        return None if bool(res) == exp else ("is-self-coupled", "is_self_coupled = reads one of its outputs", bool(res), exp)
    if k in ("in", "out"):
        names = model.ins[op[1]] if k == "in" else model.outs[op[1]]
        got = list(res)
        if len(set(got)) != len(got):
            return (f"{k}put-couplings", "no duplicate", got, None)
        if op[2]:
            exp = names & model.strong
            return None if set(got) == exp else (f"{k}put-couplings:strong", f"get_{k}put_couplings(strong=True)",
                                                 sorted(got), sorted(exp))
        lo, hi = names & model.all_required, names & model.all_allowed
        return None if lo <= set(got) <= hi else (f"{k}put-couplings:all", f"get_{k}put_couplings(strong=False)",
                                                  sorted(got), {"required": sorted(lo), "allowed": sorted(hi)})
    if k == "find":
        got = index_of.get(id(res))
        exp = model.producer[op[1]]
        return None if got == exp else ("find-discipline", "find_discipline = the producer", got, exp)
    got = list(res)
    if len(set(got)) != len(got):
        return ("duplicates", "coupling lists have no duplicate", got, None)
    g = set(got)
    if k == "strong":
        if g != model.strong:
            return ("strong:" + ("missing" if model.strong - g else "extra"),
                    "strong couplings = variables produced and consumed inside one cycle group", sorted(g), sorted(model.strong))
    elif k == "weak":
        if not model.weak_required <= g:
            return ("weak:missing", "weak couplings contain every variable produced outside cycles and read elsewhere",
                    sorted(g), {"required": sorted(model.weak_required)})
        if not g <= model.weak_allowed:
            return ("weak:extra", "weak couplings contain no strong coupling and nothing outside the acyclic part",
                    sorted(g), {"allowed": sorted(model.weak_allowed)})
    elif k == "all":
        if not model.all_required <= g:
            return ("all:missing", "all couplings contain every variable produced by one discipline and read by another",
                    sorted(g), {"required": sorted(model.all_required)})
        if not g <= model.all_allowed:
            return ("all:extra", "all couplings contain only variables that are both produced and read",
                    sorted(g), {"allowed": sorted(model.all_allowed)})
    return None


def judge_history(cs, history, disciplines, model, case, rep, where):
    """Run the queries of ``history`` on ``cs`` in order; every result must be the one implied by the graph,
    whatever was asked before (results must not depend on the query history)."""
    feat = features(model, case)
    index_of = {id(d): i for i, d in enumerate(disciplines)}
    ok = True
    for step, op in enumerate(history):
        try:
            res = _query(cs, op, disciplines)
            fail = _judge_query(op, res, model, index_of)
        except Exception as e:
            rep.violation(f"C08:couplings:exception:{type(e).__name__}:{where}:{feat}", "coupling queries return", case,
                          observed={"query": op, "step": step, "error": f"{type(e).__name__}: {e}"[:300]}, expected=None)
            return False
        rep.count("history_queries_judged")
        if fail is not None:
            ok = False
            what, clause, observed, expected = fail
            rep.violation(f"C08:couplings:{what}:{where}:{feat}", clause + f" [{where}]", case,
                          observed={"query": op, "step": step, "earlier_queries": history[:step], "result": observed},
                          expected=expected)
            break
    return ok


def judge_process_structures(proc, disciplines, model, case, rep, when):
    """The coupling structure carried by an MDAChain and by its inner MDAs, judged like a fresh one."""
    cs = getattr(proc, "coupling_structure", None)
    if cs is None:
        return
    rep.count("process_coupling_structures_judged")
    judge_history(cs, FIXED_HISTORY, disciplines, model, case, rep, f"MDAChain-after-{when}")
    pos = {id(d): i for i, d in enumerate(disciplines)}
    for mda in getattr(proc, "inner_mdas", []):
        sub = [d for d in mda.disciplines]
        if not all(id(d) in pos for d in sub):
            continue
        sub_case = dict(case, discs=[case["discs"][pos[id(d)]] for d in sub], sub_structure_of=type(mda).__name__)
        sub_model = G.Model([d["ins"] for d in sub_case["discs"]], [d["outs"] for d in sub_case["discs"]])
        rep.count("inner_mda_coupling_structures_judged")
        judge_history(mda.coupling_structure, FIXED_HISTORY, sub, sub_model, sub_case, rep,
                      f"{type(mda).__name__}-after-{when}")



def judge_dependency_graph(case, rep, disciplines, model):
    """DependencyGraph.get_execution_sequence called directly (twice): each result must be a valid schedule."""
    from gemseo.core.dependency_graph import DependencyGraph

    feat = features(model, case)
    index_of = {id(d): i for i, d in enumerate(disciplines)}
    try:
        dg = DependencyGraph(disciplines)
        seqs = [to_indices(dg.get_execution_sequence(), index_of) for _ in range(2)]
        edges = {(index_of[id(a)], index_of[id(b)]): set(names) for a, b, names in dg.get_disciplines_couplings()}
    except Exception as e:
        rep.violation(f"C08:structure:exception:{type(e).__name__}:{feat}", "sequence is computed", case,
                      observed=f"{type(e).__name__}: {e}", expected="an execution sequence")
        return
    rep.count("dependency_graph_oracle_evaluations")
    for stages in seqs:
        for clause, detail in model.check_sequence(stages):
            rep.violation(f"C08:sequence:{clause}:{feat}", clause, case, observed=dict(detail, sequence=stages),
                          expected={"sccs": sorted(sorted(g) for g in model.sccs)})
    expected = {e: set(n) for e, n in model.labels.items() if e[0] != e[1]}
    if edges != expected:
        rep.violation(f"C08:graph:edges:{feat}", "edge u->v labelled with the outputs of u that are inputs of v", case,
                      observed={str(k): sorted(v) for k, v in sorted(edges.items())},
                      expected={str(k): sorted(v) for k, v in sorted(expected.items())})


# --------------------------------------------------------------------------- execution oracle
VARIANTS_ACYCLIC = ("mdochain", "mdachain", "mdachain-parallel", "initchain")
VARIANTS_CYCLIC = ("mdachain", "mdachain-gs", "mdachain-parallel", "mdachain-initdefaults")


def judge_execution(case, rep, model=None):
    """Execute the composition named by case['variant'] and compare with the monolithic evaluation."""
    discs = case["discs"]
    variant = case["variant"]
    if model is None:
        model = G.Model([d["ins"] for d in discs], [d["outs"] for d in discs])
    feat = features(model, case)
    kind = "cyclic" if model.has_cycle else "acyclic"
    coefs, x = make_coefs(case)
    ref = monolithic(case, coefs, x, model)
    how = {"initchain": "none", "mdachain-initdefaults": case.get("default_perm", "all")}.get(variant, "all")
    disciplines = build_disciplines(case, coefs, coupling_defaults=how)
    produced = [o for d in discs for o in d["outs"]]
    inner_converged = None
    try:
        if variant == "mdochain":
            from gemseo.core.chains.chain import MDOChain
            from gemseo.core.coupling_structure import CouplingStructure

            seq = CouplingStructure(disciplines).sequence
            proc = MDOChain([d for stage in seq for group in stage for d in group])
        elif variant == "initchain":
            from gemseo.core.chains.initialization_chain import MDOInitializationChain

            proc = MDOInitializationChain(disciplines, available_data_names=list(x))
        else:
            from gemseo.mda.mda_chain import MDAChain

            settings = {"tolerance": 1e-12, "max_mda_iter": 300}
            if variant == "mdachain-gs":
                settings["inner_mda_name"] = "MDAGaussSeidel"
            if variant == "mdachain-parallel":
                settings["mdachain_parallelize_tasks"] = True
            if variant == "mdachain-initdefaults":
                settings["initialize_defaults"] = True
            proc = MDAChain(disciplines, **settings)
        judge_process_structures(proc, disciplines, model, case, rep, "construction")
        given = {k: v.copy() for k, v in x.items()}
        if case.get("guess"):
            # initial values for the coupling variables the process accepts as inputs: the result must not change
            grng = np.random.default_rng(case["coef_seed"] + 1)
            for k in sorted(proc.io.input_grammar):
                if k in ref:
                    given[k] = np.round(grng.uniform(-1, 1, ref[k].shape), 3)
                    rep.count("exec_coupling_guess_passed")
        out = proc.execute(given)
        judge_process_structures(proc, disciplines, model, case, rep, "execution")
        if variant.startswith("mdachain"):
            rep.count("inner_mdas_created", len(proc.inner_mdas))
            n_expected = len([g for g in model.sccs if len(g) > 1 or next(iter(g)) in model.loops])
            if len(proc.inner_mdas) != n_expected:  # an implementation detail: observed, the data decide
                rep.observe(f"{variant}: number of inner MDAs differs from the number of cycle groups",
                            {"case": case, "inner_mdas": len(proc.inner_mdas), "cycle_groups": n_expected})
            inner_converged = all(len(m.residual_history) < 300 or m.normed_residual <= 1e-12 for m in proc.inner_mdas)
    except Exception as e:
        rep.violation(f"C08:exec:{variant}:{kind}:exception:{type(e).__name__}:{feat}", "the composition executes", case,
                      observed=f"{type(e).__name__}: {e}"[:600], expected="output data equal to the monolithic evaluation")
        return
    rep.count("exec_oracle_evaluations")
    rep.count(f"exec_{variant}_{kind}")
    missing = [k for k in produced if k not in out]
    if missing:
        rep.violation(f"C08:exec:{variant}:{kind}:missing-output:{feat}", "every produced variable is returned", case,
                      observed=sorted(out), expected=sorted(produced))
        return
    tol = 1e-10 if kind == "acyclic" else 1e-8
    worst, worst_name = 0.0, None
    for k in produced:
        got = np.asarray(out[k], dtype=float)
        if got.shape != ref[k].shape:
            rep.violation(f"C08:exec:{variant}:{kind}:shape:{feat}", "shape of returned data", case,
                          observed={k: list(got.shape)}, expected={k: list(ref[k].shape)})
            return
        err = float(np.max(np.abs(got - ref[k]) / (1 + np.abs(ref[k])))) if got.size else 0.0
        if not err <= worst:  # also catches NaN
            worst, worst_name = err, k
    for k, v in x.items():
        if k not in out or not np.array_equal(np.asarray(out[k]), v):
            rep.violation(f"C08:exec:{variant}:{kind}:input-changed:{feat}", "external inputs are returned unchanged", case,
                          observed={k: out.get(k)}, expected={k: v})
            return
    if not worst <= tol:
        if inner_converged is False:
            # bounded progress of the inner solver is C06's property; recorded, not judged here
            rep.observe("inner MDA stopped on max_mda_iter on a contractive affine system (C06 territory)",
                        {"case": case, "error": worst})
            rep.count("exec_skipped_inner_mda_not_converged")
            return
        rep.violation(f"C08:exec:{variant}:{kind}:mismatch:{feat}", "chain output equals the monolithic evaluation", case,
                      observed={"variable": worst_name, "got": out[worst_name], "relative_error": worst,
                                "n_run": [d.n_run for d in disciplines]},
                      expected={"variable": worst_name, "value": ref[worst_name], "tolerance": tol})
        return
    # acyclic compositions must run each discipline exactly once
    if kind == "acyclic":
        rep.count("exactly_once_checked")
        runs = [d.n_run for d in disciplines]
        if any(r != 1 for r in runs):  # efficiency, not part of the statement
            rep.observe(f"{variant}: a discipline of an acyclic system was not executed exactly once",
                        {"case": case, "n_run": runs})


def run_exec_variants(case, rep, model, rng, how_many=1):
    variants = VARIANTS_CYCLIC if model.has_cycle else VARIANTS_ACYCLIC
    pick = list(variants) if how_many >= len(variants) else [variants[int(i)] for i in
                                                              rng.choice(len(variants), size=how_many, replace=False)]
    for v in pick:
        c = dict(case, kind="exec", variant=v)
        c.setdefault("coef_seed", int(rng.integers(2 ** 31)))
        if "sizes" not in c:
            names = sorted({k for d in c["discs"] for k in d["ins"] + d["outs"]})
            c["sizes"] = {k: int(rng.integers(1, 4)) for k in names}
        if v == "mdachain-initdefaults" and "default_perm" not in c:
            c["default_perm"] = [int(i) for i in rng.permutation(len(c["discs"]))]
        if "guess" not in c:
            c["guess"] = bool(rng.random() < 0.3)
        if "nonlinear" not in c:
            c["nonlinear"] = bool(not model.has_cycle and rng.random() < 0.5)
        nontrivial = bool(model.labels)
        rep.case(shape_signature(c, ("exec", v)), nontrivial)
        judge_execution(c, rep, model)
        if len(c["discs"]) == 3 and rep.counters.get("exec_samples", 0) < 1:
            rep.count("exec_samples")
            rep.sample({"case": c, "note": "execution case: composition executed on the real code and compared with the "
                                           "monolithic evaluation (linear solve / topological evaluation)"})
    return


# --------------------------------------------------------------------------- enumeration
def labelled_spec(n, adj_bits, loop_bits):
    """Discipline descriptions of the labelled digraph (identity order): node k produces y<k>, reads shared x."""
    pairs = [(u, v) for u in range(n) for v in range(n) if u != v]
    preds = [[] for _ in range(n)]
    for b, (u, v) in enumerate(pairs):
        if (adj_bits >> b) & 1:
            preds[v].append(u)
    spec = []
    for k in range(n):
        ins = ["x"] + [f"y{u}" for u in preds[k]] + ([f"y{k}"] if (loop_bits >> k) & 1 else [])
        spec.append({"name": f"D{k}", "ins": ins, "outs": [f"y{k}"]})
    return spec


def enum_items(tier):
    """All (n, adj_bits, loop_bits, orders) work items of the tier, in a fixed global order."""
    items = []
    for n in (1, 2, 3):
        for adj in range(2 ** (n * (n - 1))):
            for loops in range(2 ** n):
                items.append((n, adj, loops, "all"))
    if tier == "thorough":
        for adj in range(4096):
            for loops in range(16):
                items.append((4, adj, loops, "all"))
    else:
        for adj in range(4096):
            items.append((4, adj, 0, "identity+sample"))
    return items


def run_enumeration(spec, rep, rng):
    tier = spec["tier"]
    items = enum_items(tier)
    mine = items[spec["shard"]::spec["n_shards"]]
    frac = spec["exec_fraction_enum"]
    for n, adj, loops, mode in mine:
        if rep.time_left() < 0:
            rep.count("stopped_on_time_budget")
            return
        todo = []
        if mode == "all":
            todo.append((loops, list(itertools.permutations(range(n))), f"enum_n{n}"))
        else:
            todo.append((0, [tuple(range(n))], "enum_n4_loopfree_identity"))
            lp = int(rng.integers(1, 2 ** n))
            perms = [tuple(reversed(range(n))), tuple(int(i) for i in rng.permutation(n))]
            todo.append((lp, perms, "enum_n4_sampled"))
        for lbits, perms, counter in todo:
            base = labelled_spec(n, adj, lbits)
            base_discs = build_disciplines({"discs": base})
            for perm in perms:
                case = {"kind": "structure", "discs": [base[p] for p in perm]}
                disciplines = [base_discs[p] for p in perm]
                hr = HIST["rng"] if (n <= 3 or tier == "quick" or HIST["rng"].random() < 0.1) else None
                model, ok = judge_structure(case, rep, disciplines, hist_rng=hr)
                rep.case(shape_signature(case, ("structure",)), bool(model.labels))
                rep.count(counter)
                # acyclic graphs are rare among all digraphs: execute them 6 times more often
                p_exec = 1.0 if n <= 2 else frac[str(n)] * (1 if model.has_cycle else 6)
                if rng.random() < p_exec:
                    judge_dependency_graph(case, rep, disciplines, model)
                    # n <= 2: every variant; otherwise one variant
                    run_exec_variants({"discs": case["discs"]}, rep, model, rng, how_many=9 if n <= 2 else 1)
                    rep.count("enum_cases_executed")


# --------------------------------------------------------------------------- random digraphs
def gen_random_case(rng):
    n = int(rng.integers(5, 10))
    # planted components: a random partition into blocks, blocks in a random "flow" order
    nodes = list(range(n))
    blocks = []
    i = 0
    dag = rng.random() < 0.3  # no planted component at all
    while i < n:
        r = rng.random()
        size = 1 if dag or r < 0.45 else int(rng.integers(2, 5))
        blocks.append(nodes[i:i + size])
        i += size
    p_fwd = float(rng.choice([0.1, 0.25, 0.5]))
    two_out = {u for u in nodes if rng.random() < 0.25}
    outs = {u: [f"v{u}a", f"v{u}b"] if u in two_out else [f"v{u}a"] for u in nodes}
    ins = {u: [] for u in nodes}

    def connect(u, v):
        # v reads one or several outputs of u (multi-variable edges)
        k = outs[u]
        chosen = [k[int(rng.integers(len(k)))]] if rng.random() < 0.7 else list(k)
        for name in chosen:
            if name not in ins[v]:
                ins[v].append(name)

    for b in blocks:
        if len(b) > 1:
            cyc = [b[int(j)] for j in rng.permutation(len(b))]
            for a, c in zip(cyc, cyc[1:] + cyc[:1]):
                connect(a, c)
            for a in b:
                for c in b:
                    if a != c and rng.random() < 0.2:
                        connect(a, c)
    isolated = {bi for bi in range(len(blocks)) if rng.random() < 0.15}
    for bi, b in enumerate(blocks):
        for bj in range(bi + 1, len(blocks)):
            if bi in isolated or bj in isolated:
                continue
            for a in b:
                for c in blocks[bj]:
                    if rng.random() < p_fwd:
                        connect(a, c)
    for u in nodes:
        if rng.random() < (0.03 if dag else 0.15):  # self-loop
            ins[u].append(outs[u][int(rng.integers(len(outs[u])))])
    # external inputs: shared, own, or none at all
    for u in nodes:
        r = rng.random()
        if r < 0.4:
            ins[u].append("x")
        elif r < 0.7:
            ins[u].append(f"x{u}")
        elif r < 0.8:
            ins[u] += ["x", f"x{u}"]
    names = {u: f"D{u}" for u in nodes}
    if rng.random() < 0.3:  # duplicated discipline names
        a, c = (int(i) for i in rng.choice(n, size=2, replace=False))
        names[c] = names[a]
        if rng.random() < 0.3:
            names[int(rng.integers(n))] = names[a]
    order = [int(i) for i in rng.permutation(n)]
    discs = []
    for u in order:
        i_u = list(ins[u])
        if rng.random() < 0.5:
            i_u = [i_u[int(j)] for j in rng.permutation(len(i_u))]
        discs.append({"name": names[u], "ins": i_u, "outs": list(outs[u])})
    return {"kind": "structure", "discs": discs}


def run_random(spec, rep, rng):
    for i in range(spec["n_random"]):
        if rep.time_left() < 0:
            rep.count("stopped_on_time_budget")
            return
        case = gen_random_case(rng)
        disciplines = build_disciplines(case)
        model, ok = judge_structure(case, rep, disciplines, hist_rng=HIST["rng"])
        rep.case(shape_signature(case, ("structure",)), bool(model.labels))
        rep.count("random_cases")
        if any(len(g) > 1 for g in model.sccs):
            rep.count("random_cases_with_scc")
        if len({d["name"] for d in case["discs"]}) < len(case["discs"]):
            rep.count("random_cases_with_duplicated_names")
        if i < 2:
            rep.sample({"case": case, "sccs": sorted(sorted(g) for g in model.sccs),
                        "note": "random digraph: sequence and coupling sets judged against the reference graph model"})
        if rng.random() < spec["exec_fraction_random"]:
            judge_dependency_graph(case, rep, disciplines, model)
            run_exec_variants({"discs": case["discs"]}, rep, model, rng, how_many=2)
            rep.count("random_cases_executed")


# --------------------------------------------------------------------------- directed cases
def _d(name, ins, outs):
    return {"name": name, "ins": list(ins), "outs": list(outs)}


def directed_cases():
    cases = {
        # C06 probe: feed-forward chain listed against the flow
        "reversed-feed-forward": [_d("D3", ["y2"], ["y3"]), _d("D2", ["y1"], ["y2"]), _d("D1", ["y0"], ["y1"]),
                                  _d("D0", ["x"], ["y0"])],
        # Sellar-like: post-processing listed first, then the two coupled disciplines
        "sellar-like": [_d("F", ["x", "y1", "y2"], ["obj"]), _d("S2", ["x", "y1"], ["y2"]), _d("S1", ["x", "y2"], ["y1"])],
        "two-independent-sccs": [_d("A1", ["b1", "x"], ["a1"]), _d("A2", ["b2", "x"], ["a2"]), _d("B2", ["a2"], ["b2"]),
                                 _d("B1", ["a1"], ["b1"]), _d("T", ["a1", "b2"], ["t"])],
        "self-coupled-isolated": [_d("S", ["s", "x"], ["s"]), _d("I", ["x"], ["i"])],
        "self-coupled-between": [_d("C", ["s"], ["c"]), _d("S", ["s", "p"], ["s"]), _d("P", ["x"], ["p"])],
        "self-coupled-inside-scc": [_d("A", ["a", "b", "x"], ["a"]), _d("B", ["a"], ["b"]), _d("C", ["b"], ["c"])],
        "diamond": [_d("J", ["l", "r"], ["j"]), _d("R", ["t"], ["r"]), _d("L", ["t"], ["l"]), _d("T", ["x"], ["t"])],
        "duplicated-names-in-scc": [_d("D", ["b"], ["a"]), _d("D", ["a", "x"], ["b"]), _d("D", ["a"], ["c"])],
        "no-input-and-unconsumed-output": [_d("K", [], ["k", "unused"]), _d("U", ["k"], ["u"]), _d("Lone", [], ["lone"])],
        "multi-output-strong-and-inter-scc": [_d("A", ["b1", "x"], ["a1", "a2"]), _d("B", ["a1"], ["b1", "b2"]),
                                              _d("C", ["a2", "b2"], ["c"])],
        "single": [_d("Only", ["x"], ["y"])],
        "single-self-coupled": [_d("Only", ["x", "y"], ["y"])],
        # self-looped discipline outside any larger cycle, feeding a 2-cycle and a sink (seeded change C08_4)
        "self-loop-feeding-scc-and-sink": [_d("O", ["a", "b", "s"], ["o"]), _d("B", ["a"], ["b"]), _d("S", ["s", "x"], ["s"]),
                                           _d("A", ["b", "s"], ["a"])],
        "nested-cycles": [_d("A", ["c"], ["a"]), _d("B", ["a", "d"], ["b"]), _d("C", ["b"], ["c"]), _d("D", ["b"], ["d"]),
                          _d("E", ["d", "x"], ["e"])],
        "long-chain-into-scc": [_d("Z", ["q"], ["z"]), _d("Q", ["p", "r"], ["q"]), _d("R", ["q"], ["r"]),
                                _d("P", ["o"], ["p"]), _d("O", ["x"], ["o"])],
    }
    return cases


def run_directed(rep, rng):
    for label, discs in directed_cases().items():
        orders = [list(range(len(discs))), list(reversed(range(len(discs))))]
        for order in orders:
            case = {"kind": "structure", "label": label, "discs": [discs[i] for i in order]}
            disciplines = build_disciplines(case)
            model, ok = judge_structure(case, rep, disciplines, hist_rng=HIST["rng"])
            rep.case(shape_signature(case, ("structure",)), bool(model.labels))
            judge_dependency_graph(case, rep, disciplines, model)
            run_exec_variants({"label": label, "discs": case["discs"]}, rep, model, rng, how_many=9)
            rep.count("directed_cases")
    rep.sample({"case": {"label": "sellar-like", "discs": directed_cases()["sellar-like"]},
                "note": "directed case: structure + every execution variant in listing and reversed order"})


# --------------------------------------------------------------------------- entry points
HIST = {"rng": np.random.default_rng(0)}  # generator of the query histories (separate stream)


def run_shard(spec, rep):
    logging.getLogger("gemseo").setLevel(logging.CRITICAL)
    rng = np.random.default_rng(spec["seed"])
    HIST["rng"] = np.random.default_rng(spec["seed"] + 12345)
    if spec.get("shard", 0) == 0:
        run_directed(rep, rng)
    run_enumeration(spec, rep, rng)
    run_random(spec, rep, rng)


def replay(case, rep):
    logging.getLogger("gemseo").setLevel(logging.CRITICAL)
    if case.get("kind") == "exec":
        judge_execution(case, rep)
    else:
        disciplines = build_disciplines(case)
        model, _ = judge_structure(case, rep, disciplines)
        judge_dependency_graph(case, rep, disciplines, model)


def coverage_extra(tier, counters):
    """Claim exhaustiveness only for the scopes whose enumeration counters reached the full count."""
    done = []
    for n in (1, 2, 3):
        if counters.get(f"enum_n{n}", 0) == ENUM_TOTAL[n]:
            done.append(n)
    scope = []
    if done == [1, 2, 3]:
        scope.append("all labelled digraphs on 1, 2 and 3 nodes x all self-loop subsets x all listing orders "
                     f"({ENUM_TOTAL[1]} + {ENUM_TOTAL[2]} + {ENUM_TOTAL[3]} cases): sequence and coupling sets")
    if tier == "thorough" and counters.get("enum_n4", 0) == ENUM_TOTAL[4]:
        scope.append(f"all 4096 labelled digraphs on 4 nodes x all 16 self-loop subsets x all 24 listing orders "
                     f"({ENUM_TOTAL[4]} cases): sequence and coupling sets")
    if tier == "quick" and counters.get("enum_n4_loopfree_identity", 0) == QUICK_N4_IDENTITY:
        scope.append("all 4096 loop-free labelled digraphs on 4 nodes in identity listing order (every unlabelled "
                     "loop-free shape in every relative listing order; self-loop subsets and other orders of the "
                     "same labelled graph are only sampled): sequence and coupling sets")
    if not scope:
        return {"exhaustive": False}
    return {"exhaustive": True,
            "exhaustive_scope": "; ".join(scope) + ". Executions (chains vs monolithic evaluation) are exhaustive only "
                                "for 1-2 nodes (all variants); beyond that they are a seeded sub-sample."
            if done[:2] == [1, 2] else "; ".join(scope)}
