"""C01 — problem evaluations are faithful, memoized and recorded in physical space.

Monitors: (M1) recorders inside the user's callables (every call with a copy of its argument),
(M3) snapshot of ``problem.database`` before / after every request and after mutating the caller's
array, (M4) reference normalisation ``vlib.ref.c01_normalize`` + closed-form functions with exact
Jacobians, (M8) anchors.  See DESIGN.md section 3, C01.
"""

from __future__ import annotations

import numpy as np

from vlib.gen import functions as gf
from vlib.harness import subseed
from vlib.ref.c01_normalize import Linear
from vlib.ref.c01_normalize import RefSpace
from vlib.ref.c01_normalize import same_point

PID = "C01"
LEVEL = "exploration"
RULE = (
    "seeded generator over (design space of 1-4 variables of size 1-3, float/integer, per-component bounds in "
    "{finite lb<ub, lb=ub, lower only, upper only, none}, optional current value, optional normalisation of "
    "integers, DesignSpace or ParameterSpace with deterministic variables) x (1-4 functions among scalar/vector polynomial, exp-sin, MDOLinearFunction dense/csr, function "
    "with sparse Jacobian; objective/constraints/observable) x (normalised inputs, database, Jacobian storage, "
    "rounding, sparse support, user/finite/centered/complex-step derivatives) x (history of 6-25 requests over "
    "a pool of 3-5 points mixing evaluate(), jac(), evaluate_functions() with both coordinate flags, with "
    "in-place mutation of the caller's array after every request); a case is distinct by (bound layout, "
    "function kinds, configuration, request-kind sequence) and non-trivial when it repeats a point and "
    "requests at least one Jacobian"
)
ASSUMPTIONS = [
    "closed-form functions are evaluated in IEEE double precision; values/Jacobians are compared with rel. 1e-11",
    "approximated Jacobians are compared with the textbook truncation bound of the method plus a rounding term",
    "columns of approximated Jacobians for integer components are not judged when rounding is in effect",
    "keys are compared with rel. 1e-12 (the statement does not fix the floating-point evaluation order)",
    "ties (x.5) of integer components are never generated: the statement does not fix the tie rule",
    "complex step follows the driver protocol (design_space.to_complex() before the evaluations)",
    "memoisation is judged on the bitwise identity of the key (0.0/-0.0 and int64/float64 twins are only observed)",
    "evaluate_functions with a flag different from the functions' coordinates: either Jacobian convention is accepted",
]
ANCHORS = [
    "gemseo.algos.problem_function:ProblemFunction._compute_output_db",
    "gemseo.algos.problem_function:ProblemFunction._compute_output_db_norm",
    "gemseo.algos.problem_function:ProblemFunction._compute_jacobian_db",
    "gemseo.algos.problem_function:ProblemFunction._compute_jacobian_db_norm",
    "gemseo.algos.problem_function:ProblemFunction._compute_output",
    "gemseo.algos.problem_function:ProblemFunction._compute_jacobian",
    "gemseo.algos.evaluation_problem:EvaluationProblem._preprocess_function",
    "gemseo.algos.evaluation_problem:EvaluationProblem.evaluate_functions",
    "gemseo.algos.design_space:DesignSpace.normalize_grad",
    "gemseo.algos.design_space:DesignSpace.unnormalize_grad",
    "gemseo.algos.design_space:DesignSpace.unnormalize_vect",
    "gemseo.algos.design_space:DesignSpace.round_vect",
    "gemseo.core.mdo_functions.mdo_linear_function:MDOLinearFunction.normalize",
    "gemseo.algos.hashable_ndarray:HashableNdarray.__init__",
    "gemseo.algos.hashable_ndarray:HashableNdarray.__eq__",
    "gemseo.algos.database:Database.store",
]
MIN_COUNTERS = {
    "quick": {
        "requests": 50000, "value_oracle_evaluations": 38000, "jacobian_oracle_evaluations": 35000,
        "record_oracle_evaluations": 58000, "recorded_jacobian_checked": 21000, "memo_hits_observed": 24000,
        "memo_hits_with_call_count_checked": 15000, "alias_checks": 40000, "frame_oracle_evaluations": 38000,
        "inert_columns_checked_zero": 8000, "recorded_inert_columns_checked_zero": 6500, "repeat_equals_first_checked": 16000,
        "evaluate_functions_cross_coordinate_requests": 6000, "approximated_jacobians_judged": 10000, "requests_with_nonintegral_integer_component": 3000,
        "user_call_arguments_checked": 24000, "directed_cases": 36,
    },
    "thorough": {
        "requests": 600000, "value_oracle_evaluations": 456000, "jacobian_oracle_evaluations": 420000,
        "record_oracle_evaluations": 696000, "recorded_jacobian_checked": 252000, "memo_hits_observed": 288000,
        "memo_hits_with_call_count_checked": 180000, "alias_checks": 480000, "frame_oracle_evaluations": 456000,
        "inert_columns_checked_zero": 96000, "recorded_inert_columns_checked_zero": 78000, "repeat_equals_first_checked": 192000,
        "evaluate_functions_cross_coordinate_requests": 72000, "approximated_jacobians_judged": 120000, "requests_with_nonintegral_integer_component": 36000,
        "user_call_arguments_checked": 288000, "directed_cases": 36,
    },
}
SHARD_TIMEOUT = {"quick": 400, "thorough": 2400}

EPS = np.finfo(float).eps
RTOL = 1e-11
DIFFS = ("user", "finite_differences", "centered_differences", "complex_step")
STEPS = {"finite_differences": 1e-7, "centered_differences": 1e-6, "complex_step": 1e-30}


def shards(tier, seed):
    n = 16
    per = {"quick": 1500, "thorough": 30000}[tier]
    return [{"seed": subseed(seed, PID, i), "n_cases": per,
             "budget_s": {"quick": 350, "thorough": 2200}[tier]} for i in range(n)]


# --------------------------------------------------------------------------- generation
def _gen_bounds(rng, is_int):
    if is_int:
        kind = rng.choice(["finite", "equal", "lower", "upper", "none"], p=[0.6, 0.1, 0.1, 0.1, 0.1])
        lb = float(rng.integers(-3, 2))
        ub = lb + float(rng.integers(1, 7))
    else:
        kind = rng.choice(["finite", "equal", "lower", "upper", "none"], p=[0.5, 0.14, 0.12, 0.12, 0.12])
        lb = float(np.round(rng.uniform(-2, 0), 2)) + 0.0  # no -0.0: keys are hashed on their bytes
        ub = float(np.round(lb + rng.uniform(0.5, 3), 2))
    kind = str(kind)
    if kind == "equal":
        ub = lb
    elif kind == "lower":
        ub = None
    elif kind == "upper":
        lb = None
    elif kind == "none":
        lb = ub = None
    return kind, lb, ub


def gen_space(rng, force_value=False):
    nv = int(rng.integers(1, 5))
    # a ParameterSpace with deterministic float variables only (so that its own defects do not combine with
    # those of the integer handling in one violation)
    cls = "ParameterSpace" if rng.random() < 0.1 else "DesignSpace"
    variables, total = [], 0
    for i in range(nv):
        size = int(rng.integers(1, 4))
        if total + size > 8:
            size = 1
        total += size
        is_int = bool(rng.random() < 0.3) and cls == "DesignSpace"
        kinds, lbs, ubs = [], [], []
        for _ in range(size):
            k, lb, ub = _gen_bounds(rng, is_int)
            kinds.append(k)
            lbs.append(lb)
            ubs.append(ub)
        variables.append({"name": f"v{i}", "size": size, "type": "integer" if is_int else "float",
                          "kinds": kinds, "lb": lbs, "ub": ubs, "value": None})
    has_value = force_value or bool(rng.random() < 0.5)
    if has_value:
        for v in variables:
            vals = []
            for lb, ub in zip(v["lb"], v["ub"]):
                lo = lb if lb is not None else (ub - 3 if ub is not None else -1.0)
                hi = ub if ub is not None else lo + 3
                if v["type"] == "integer":
                    vals.append(int(rng.integers(int(lo), int(hi) + 1)))
                else:
                    vals.append(float(np.round(lo + (hi - lo) * rng.uniform(0.1, 0.9), 3)))
            v["value"] = vals
    return {"vars": variables, "normalize_integers": bool(rng.random() < 0.12), "cls": cls}


def gen_point(rng, space, ref, norm, allow_nonintegral):
    """A pool point in the coordinates of the (preprocessed) functions."""
    x = np.zeros(ref.n)
    j = 0
    nonintegral = False
    out_of_bounds = False
    for v in space["vars"]:
        for lb, ub, kind in zip(v["lb"], v["ub"], v["kinds"]):
            normalised = bool(norm and ref.norm_mask[j])
            if v["type"] == "integer":
                lo = lb if lb is not None else (ub - 4 if ub is not None else -2.0)
                hi = ub if ub is not None else lo + 4
                k = float(rng.integers(int(lo), int(hi) + 1))
                if allow_nonintegral and rng.random() < 0.35:
                    k += float(rng.choice([-0.3, 0.3, 0.4, -0.2]))
                    nonintegral = True
                    out_of_bounds = out_of_bounds or (lb is not None and k < lb) or (ub is not None and k > ub)
                if normalised:
                    x[j] = (k - lb) / (ub - lb) if ub != lb else float(rng.choice([0.0, 0.5, 1.0]))
                else:
                    x[j] = k
            elif kind == "finite":
                u = float(rng.choice([0.0, 1.0, np.round(rng.uniform(0, 1), 3), np.round(rng.uniform(0, 1), 3)]))
                x[j] = u if normalised else lb + u * (ub - lb)
            elif kind == "equal":
                x[j] = float(rng.choice([0.0, 0.37, 0.5, 1.0])) if normalised else lb
            elif kind == "lower":
                x[j] = lb + float(np.round(abs(rng.normal(0, 1.5)), 3)) * float(rng.random() < 0.8)
            elif kind == "upper":
                x[j] = ub - float(np.round(abs(rng.normal(0, 1.5)), 3)) * float(rng.random() < 0.8)
            else:
                x[j] = float(np.round(rng.uniform(-3, 3), 3))
            j += 1
    return x, (not nonintegral) and (not out_of_bounds)


def gen_function(rng, n, name, role, diff):
    r = rng.random()
    d = {"name": name, "role": role, "scalar_out": False, "sparse_jac": False, "csr": False}
    if r < 0.22:
        f = gf.Poly.random(rng, n, 1, degree=3, terms=int(rng.integers(2, 6)))
        d.update(kind="poly", desc=f.describe(), scalar_out=True)
    elif r < 0.42:
        f = gf.Poly.random(rng, n, int(rng.integers(2, 4)), degree=3, terms=int(rng.integers(2, 6)))
        d.update(kind="poly", desc=f.describe())
    elif r < 0.52:
        m = int(rng.integers(1, 4))
        f = gf.ExpSin.random(rng, n, m)
        d.update(kind="expsin", desc=f.describe(), scalar_out=bool(m == 1 and rng.random() < 0.5))
    elif r < 0.84:
        m = int(rng.integers(1, 4))
        a = np.round(rng.uniform(-3, 3, (m, n)), 2)
        a[rng.random((m, n)) < 0.25] = 0.0
        f = Linear(a, np.round(rng.uniform(-2, 2, m), 2))
        d.update(kind="linear", desc=f.describe(), csr=bool(rng.random() < 0.4))
    else:
        m = int(rng.integers(1, 4))
        f = gf.Poly.random(rng, n, m, degree=3, terms=int(rng.integers(2, 5)))
        d.update(kind="poly", desc=f.describe(), sparse_jac=True)
    return d


def gen_case(rng):
    diff = str(rng.choice(DIFFS, p=[0.7, 0.12, 0.08, 0.10]))
    cfg = {"norm": bool(rng.random() < 0.55), "use_db": bool(rng.random() < 0.8),
           "store_jac": bool(rng.random() < 0.75), "round_ints": bool(rng.random() < 0.5),
           "sparse": bool(rng.random() < 0.3), "diff": diff, "step": STEPS.get(diff)}
    space = gen_space(rng, force_value=diff == "complex_step")
    ref = RefSpace(space["vars"], space["normalize_integers"])
    nf = int(rng.integers(1, 4))
    roles = ["objective"] + [str(rng.choice(["ineq", "eq"])) for _ in range(nf - 1)]
    if rng.random() < 0.3:
        roles.append("observable")
    funcs = [gen_function(rng, ref.n, f"f{i}", role, diff) for i, role in enumerate(roles)]
    npool = int(rng.integers(3, 6))
    pool, ef_ok = [], []
    for i in range(npool):
        x, ok = gen_point(rng, space, ref, cfg["norm"], allow_nonintegral=ref.has_int and i % 2 == 1)
        pool.append(x.tolist())
        ef_ok.append(ok)
    nreq = int(rng.integers(6, 26))
    requests = []
    for _ in range(nreq):
        p = int(rng.integers(npool))
        r = rng.random()
        if r < 0.3 and ef_ok[p]:
            sel = lambda: sorted(int(i) for i in rng.choice(len(funcs), size=int(rng.integers(1, len(funcs) + 1)), replace=False))
            outs = [None, "all", "all", sel()][int(rng.integers(4))]
            jacs = [None, "all", sel(), sel()][int(rng.integers(4))]
            if outs is None and jacs is None:
                jacs = "all"
            requests.append({"kind": "ef", "p": p, "flag_norm": bool(rng.random() < 0.5), "outs": outs, "jacs": jacs})
        elif r < 0.65:
            requests.append({"kind": "val", "p": p, "f": int(rng.integers(len(funcs)))})
        else:
            requests.append({"kind": "jac", "p": p, "f": int(rng.integers(len(funcs)))})
    return {"space": space, "functions": funcs, "config": cfg, "pool": pool, "requests": requests}


def case_signature(case):
    layout = tuple((v["type"], tuple(v["kinds"])) for v in case["space"]["vars"])
    fk = tuple((f["kind"], f["role"], f["scalar_out"], f["sparse_jac"], f["csr"], _closed_form(f).m) for f in case["functions"])
    cfg = tuple(sorted((k, v) for k, v in case["config"].items() if k != "step"))
    seq = tuple((r["kind"], r.get("f", -1), r.get("flag_norm", None)) for r in case["requests"])
    return (layout, case["space"]["normalize_integers"], case["space"].get("cls", "DesignSpace"), fk, cfg, seq)


def is_nontrivial(case):
    pts = [r["p"] for r in case["requests"]]
    repeated = len(set(pts)) < len(pts)
    has_jac = any(r["kind"] == "jac" or (r["kind"] == "ef" and r["jacs"] is not None) for r in case["requests"])
    return repeated and has_jac


# --------------------------------------------------------------------------- building the real problem
def _closed_form(fd):
    if fd["kind"] == "linear":
        return Linear.from_description(fd["desc"])
    return gf.from_description(fd["desc"])


def _bound(values, infinite):
    return np.array([infinite if v is None else float(v) for v in values], dtype=float)


class Built:
    """The real gemseo problem of a case + the recorders."""

    def __init__(self, case):
        from scipy.sparse import csr_array

        from gemseo.algos.design_space import DesignSpace
        from gemseo.algos.optimization_problem import OptimizationProblem
        from gemseo.core.mdo_functions.mdo_function import MDOFunction
        from gemseo.core.mdo_functions.mdo_linear_function import MDOLinearFunction

        cfg = case["config"]
        self.case = case
        self.cfg = cfg
        self.log = []  # (function name, "val"|"jac", copy of the argument)
        self.closed = {}
        if case["space"].get("cls", "DesignSpace") == "ParameterSpace":
            from gemseo.algos.parameter_space import ParameterSpace

            ds = ParameterSpace()  # deterministic variables only
        else:
            ds = DesignSpace()
        for v in case["space"]["vars"]:
            kwargs = {}
            if v["value"] is not None:
                kwargs["value"] = np.array(v["value"], dtype=int if v["type"] == "integer" else float)
            ds.add_variable(v["name"], v["size"], type_=v["type"], lower_bound=_bound(v["lb"], -np.inf),
                            upper_bound=_bound(v["ub"], np.inf), **kwargs)
        if case["space"]["normalize_integers"]:
            ds.enable_integer_variables_normalization = True
        self.ds = ds
        problem = OptimizationProblem(ds)
        log = self.log
        for fd in case["functions"]:
            name = fd["name"]
            closed = _closed_form(fd)
            self.closed[name] = closed
            if fd["kind"] == "linear":
                a = closed.a.copy()
                func = MDOLinearFunction(csr_array(a) if fd["csr"] else a, name, value_at_zero=closed.b.copy())
            else:
                def user_value(x, _c=closed, _n=name, _s=fd["scalar_out"]):
                    log.append((_n, "val", np.array(x, copy=True)))
                    v = _c.value(x)
                    return v[0] if _s else v

                def user_jac(x, _c=closed, _n=name, _s=fd["scalar_out"], _sp=fd["sparse_jac"]):
                    log.append((_n, "jac", np.array(x, copy=True)))
                    jac = _c.jac(np.real(x))
                    if _sp:
                        return csr_array(jac)
                    return jac[0] if _s else jac

                func = MDOFunction(user_value, name, jac=user_jac)
            if fd["role"] == "objective":
                problem.objective = func
            elif fd["role"] == "observable":
                problem.add_observable(func)
            else:
                problem.add_constraint(func, constraint_type=fd["role"])
        if cfg["diff"] != "user":
            problem.differentiation_method = cfg["diff"]
            problem.differentiation_step = cfg["step"]
            if cfg["diff"] == "complex_step":
                ds.initialize_missing_current_values()
                ds.to_complex()
        problem.preprocess_functions(is_function_input_normalized=cfg["norm"], use_database=cfg["use_db"],
                                     round_ints=cfg["round_ints"], support_sparse_jacobian=cfg["sparse"],
                                     store_jacobian=cfg["store_jac"])
        self.problem = problem
        self.functions = {f.name: f for f in problem.functions}


def dense(v):
    if hasattr(v, "todense") and not isinstance(v, np.ndarray):
        return np.asarray(v.todense())
    return np.array(v, copy=True)


def snapshot(db):
    out = []
    for key, vals in db.items():
        arr = key.wrapped_array
        out.append((np.array(arr, copy=True), {n: dense(v) for n, v in vals.items()}))
    return out


def same_entry(e1, e2):
    k1, v1 = e1
    k2, v2 = e2
    if k1.dtype != k2.dtype or not np.array_equal(k1, k2) or set(v1) != set(v2):
        return False
    return all(v1[n].shape == v2[n].shape and np.array_equal(v1[n], v2[n], equal_nan=True) for n in v1)


def realify(a):
    """Return (real array, ok); complex arrays with a zero imaginary part are accepted as real."""
    a = np.asarray(a)
    if a.dtype.kind == "c":
        return a.real.astype(float), bool(np.all(a.imag == 0))
    if a.dtype.kind not in "fiub":
        try:
            return a.astype(float), True
        except Exception:
            return a, False
    return a.astype(float), True


# --------------------------------------------------------------------------- oracle
class Judge:
    def __init__(self, case, rep):
        self.case = case
        self.rep = rep
        self.cfg = case["config"]
        self.ref = RefSpace(case["space"]["vars"], case["space"]["normalize_integers"])
        self.fdesc = {f["name"]: f for f in case["functions"]}
        self.first = {}  # (fname, kind, bytes of caller x) -> first result
        self.unrounded = []  # unrounded physical points requested so far (for the linear-shortcut classifier)
        self.rounding_in_effect = self.ref.has_int and (self.cfg["norm"] or self.cfg["round_ints"])
        self.user_functions = {f["name"] for f in case["functions"] if f["kind"] != "linear"}

    # -- features / signatures ------------------------------------------------
    def feat(self, fname=None):
        """Coarse mechanism features of a signature (never values): function class, coordinates, integers, method."""
        c = self.cfg
        parts = ["norm" if c["norm"] else "phys"]
        if self.ref.has_int:
            parts.append("int")
        if self.case["space"].get("cls", "DesignSpace") != "DesignSpace":
            parts.append(self.case["space"]["cls"])
        if c["diff"] != "user":
            parts.append(c["diff"])
        kind = ""
        if fname is not None:
            fd = self.fdesc[fname]
            kind = ("sparsejac" if fd["sparse_jac"] else
                    ("linear" + ("-csr" if fd["csr"] else "")) if fd["kind"] == "linear" else "user") + ":"
        return kind + "+".join(parts)

    def viol(self, sig, clause, req_index, observed, expected, msg=""):
        case = dict(self.case, failing_request=req_index)
        self.rep.violation(sig, clause, case, observed=observed, expected=expected, msg=msg)

    def nonfinite_signature(self, fname, cols):
        equal = self.ref.lb == self.ref.ub
        if self.cfg["diff"] == "centered_differences" and len(cols) and np.all(equal[cols]):
            return "C01:approx:centered_differences:nan-for-component-with-lb=ub"
        return f"C01:jacobian:non-finite:{self.feat(fname)}"

    def parameter_space_signature(self, obs, exp, cols, recorded, extra_tol):
        """ParameterSpace.(un)normalize_vect ignore ``minus_lb``: gradients are shifted by the lower bounds."""
        if self.case["space"].get("cls", "DesignSpace") != "ParameterSpace" or not self.cfg["norm"] or not len(cols):
            return None
        if not np.all(self.ref.norm_mask[cols]) or not np.all(np.isfinite(obs)):
            return None
        safe = np.where(self.ref.scale == 0.0, 1.0, self.ref.scale)
        shift = -self.ref.shift / safe if recorded else self.ref.shift
        tol = 1e-6 * (1.0 + np.abs(exp[:, cols]) + np.abs(shift[cols])) + 2 * extra_tol[:, cols]
        if np.all(np.abs(obs[:, cols] - exp[:, cols] - shift[cols][None, :]) <= tol):
            return "C01:ParameterSpace:minus_lb-ignored-when-scaling-gradients:norm"
        return None

    def is_linear_shortcut_corner(self, fname):
        c = self.cfg
        return self.fdesc[fname]["kind"] == "linear" and c["norm"] and self.ref.has_int and not c["round_ints"]

    # -- expected physical points --------------------------------------------
    def candidates(self, caller_x, caller_is_norm):
        cands, corner = self.ref.physical_candidates(caller_x, caller_is_norm, self.cfg["round_ints"])
        if not caller_is_norm and self.cfg["norm"] and self.ref.has_int:
            # physical caller coordinates handed to normalised functions (evaluate_functions): they are
            # normalised then unnormalised, which rounds; only integral points are generated for this path
            cands = [self.ref.round(np.asarray(caller_x, dtype=float))]
            corner = ""
        if caller_is_norm and not self.cfg["norm"] and self.ref.has_int:
            cands = [self.ref.round(self.ref.unnormalize(caller_x))]
            corner = ""
        return cands, corner

    # -- value ----------------------------------------------------------------
    @staticmethod
    def value_tolerance(f, p):
        """Rounding of the closed form + effect of the 1e-12 tolerance on the physical point itself."""
        return RTOL * f.abs_value(p) + np.abs(f.jac(np.real(p))) @ (1e-12 * (1.0 + np.abs(p))) + 1e-300

    def judge_value(self, i, fname, obs, cands, corner):
        """Return the index of the candidate matched by the returned value (None when none matches)."""
        rep = self.rep
        f = _closed_form(self.fdesc[fname])
        o, ok = realify(obs)
        rep.count("value_oracle_evaluations")
        if not ok or o.size != f.m:
            self.viol(f"C01:value:shape-or-dtype:{self.feat(fname)}", "returned value", i, observed=obs,
                      expected={"size": f.m})
            return None
        o = o.reshape(-1)
        for k, p in enumerate(cands):
            exp = f.value(p)
            if np.all(np.abs(o - exp) <= self.value_tolerance(f, p)):
                if corner and len(cands) > 1:
                    rep.observe(f"corner:{corner}:evaluated-at-{'rounded' if k == 0 else 'unrounded'}-point")
                return k
        # classify
        sig = f"C01:value:mismatch:{self.feat(fname)}"
        if self.is_linear_shortcut_corner(fname):
            for pu in self.unrounded:
                if any(same_point(self.ref.round(pu), c) for c in cands) and \
                        np.all(np.abs(o - f.value(pu)) <= self.value_tolerance(f, pu)):
                    sig = "C01:linear-shortcut:value-of-unrounded-point-under-rounded-key:norm+int+noround"
                    break
        self.viol(sig, "returned value == original function at the physical point", i,
                  observed={"function": fname, "value": o}, expected={"physical_points": cands,
                                                                    "values": [f.value(p) for p in cands]})
        return None

    # -- jacobian -------------------------------------------------------------
    def jac_tolerance(self, f, p, scale, exp):
        """Per-entry tolerance (m, n) for a Jacobian in coordinates with d phys/d caller = scale."""
        diff = self.cfg["diff"]
        if diff == "user":
            return RTOL * (1.0 + np.abs(exp)), np.ones(self.ref.n, dtype=bool)
        judged = np.ones(self.ref.n, dtype=bool)
        if self.rounding_in_effect:
            judged &= ~self.ref.is_int
        h = self.cfg["step"]
        if diff == "complex_step":
            return 1e-9 * (1.0 + np.abs(exp)), judged
        tol = np.zeros((f.m, self.ref.n))
        jabs = np.abs(f.jac(p))
        for j in range(self.ref.n):
            hp = h * abs(scale[j])
            fa = f.abs_value(np.abs(p) + hp)
            rounding = 512 * EPS * (fa + jabs @ (np.abs(p) + np.abs(self.ref.shift) + np.abs(scale))) / h
            one_sided = h * scale[j] ** 2 * f.d2_bound(p, j, hp) / 2
            if diff == "finite_differences":
                tol[:, j] = one_sided + rounding
            else:
                centered = h * h * abs(scale[j]) ** 3 * f.d3_bound(p, j, hp) / 6
                tol[:, j] = np.maximum(one_sided, centered) + rounding
        return 1.02 * tol + 1e-300, judged

    def judge_jac(self, i, fname, obs, cands, prefer=None, caller_scale=None, alt_scale=None):
        rep = self.rep
        f = _closed_form(self.fdesc[fname])
        n = self.ref.n
        rep.count("jacobian_oracle_evaluations")
        if self.cfg["diff"] != "user":
            rep.count("approximated_jacobians_judged")
        is_sparse = hasattr(obs, "todense") and not isinstance(obs, np.ndarray)
        if is_sparse and not self.cfg["sparse"]:
            rep.observe("sparse-jacobian-returned-although-support_sparse_jacobian=False", {"function": fname})
        o, ok = realify(dense(obs))
        if not ok or o.size != f.m * n:
            self.viol(f"C01:jacobian:shape-or-dtype:{self.feat(fname)}", "returned Jacobian", i, observed=obs,
                      expected={"shape": [f.m, n]})
            return None
        o = o.reshape(f.m, n)
        order = list(range(len(cands)))
        if prefer is not None:
            order = [prefer]
        scales = [caller_scale] + ([alt_scale] if alt_scale is not None else [])
        worst = None
        for k in order:
            p = cands[k]
            for si, scale in enumerate(scales):
                exp = f.jac(p) * scale[None, :]
                tol, judged = self.jac_tolerance(f, p, scale, exp)
                bad = (np.abs(o - exp) > tol) & judged[None, :]
                bad |= ~np.isfinite(o)
                if not bad.any():
                    if si == 1:
                        rep.observe("evaluate_functions:jacobian-in-caller-coordinates-rather-than-function-coordinates")
                    elif alt_scale is not None and not np.array_equal(caller_scale, alt_scale):
                        rep.observe("evaluate_functions:jacobian-in-function-coordinates-although-flag-differs")
                    if not judged.all():
                        rep.count("approximated_integer_columns_not_judged")
                    inert = self.ref.inert if self.cfg["norm"] else np.zeros(n, dtype=bool)
                    if inert.any() and si == 0:
                        rep.count("inert_columns_checked_zero", int(inert.sum()))
                    return k
                if worst is None:
                    worst = (exp, bad, scale, tol)
        exp, bad, scale, tol = worst
        sig = f"C01:jacobian:mismatch:{self.feat(fname)}"
        cols = np.where(bad.any(axis=0))[0]
        if self.ref.has_int and self.cfg["norm"] and self.cfg["diff"] == "user" and np.all(self.ref.is_int[cols]) \
                and np.all(np.isfinite(o)) and np.allclose(o[:, cols], np.round(exp[:, cols]), rtol=0, atol=1e-9):
            sig = "C01:jacobian:integer-columns-rounded-by-normalize_grad:norm+int"
        elif not np.all(np.isfinite(o)):
            sig = self.nonfinite_signature(fname, np.where((~np.isfinite(o)).any(axis=0))[0])
        sig = self.parameter_space_signature(o, exp, cols, False, tol) or sig
        self.viol(sig, "returned Jacobian == derivative w.r.t. the caller's coordinates", i,
                  observed={"function": fname, "jacobian": o, "bad_columns": cols},
                  expected={"jacobian": exp, "physical_point": cands[order[0]], "scale": scale})
        return None

    # -- record ---------------------------------------------------------------
    def accepted_keys(self, cands, corner, caller_x, caller_is_norm, matched):
        keys = [cands[matched]] if matched is not None else list(cands)
        if corner == "physical-round-nonintegral" and not caller_is_norm:
            keys = keys + [np.asarray(caller_x, dtype=float)]  # note (a)
        return keys

    def judge_record(self, i, fname, kind, obs, pre, post, keys, cands, matched, corner, new_calls):
        """Database clauses for one (function, kind) of a request."""
        rep = self.rep
        cfg = self.cfg
        name = fname if kind == "val" else "@" + fname
        f = _closed_form(self.fdesc[fname])
        should_store = kind == "val" or cfg["store_jac"]
        holders = [e for e in post if name in e[1] and any(same_point(e[0], k) for k in keys)]
        rep.count("record_oracle_evaluations")
        if not should_store:
            if any(name in e[1] for e in post):
                self.viol(f"C01:record:jacobian-stored-although-store_jacobian=False:{self.feat(fname)}",
                          "no Jacobian record when store_jacobian is off", i, observed=[e[0] for e in post if name in e[1]],
                          expected="absent")
            return
        if not holders:
            near = [e[0] for e in post if name in e[1]]
            sig = f"C01:record:missing-under-physical-point:{self.feat(fname)}"
            if self.is_linear_shortcut_corner(fname) and matched == 1 and \
                    any(same_point(e[0], cands[0]) and name in e[1] for e in post):
                sig = "C01:linear-shortcut:value-of-unrounded-point-under-rounded-key:norm+int+noround"
            self.viol(sig, "the database records the evaluation under the physical point", i,
                      observed={"name": name, "keys_holding_the_name": near}, expected={"accepted_keys": keys})
            return
        def _was(e):  # the very same key (bitwise: the database hashes the bytes of the array)
            return [o for o in pre if name in o[1] and o[0].dtype == e[0].dtype and o[0].tobytes() == e[0].tobytes()]

        # Several keys may match within the tolerance when the same physical point was reached through
        # different coordinate conversions (evaluate_functions with the other flag): judge the entry written
        # by this request if any, otherwise the one that agrees with what was returned.
        changed = [e for e in holders if not _was(e) or not np.array_equal(_was(e)[-1][1][name], e[1][name], equal_nan=True)]
        group = changed or holders
        if changed and not _was(changed[0]) and any(
                name in o[1] and o[0].shape == changed[0][0].shape and np.array_equal(o[0], changed[0][0]) for o in pre):
            # 0.0 / -0.0 and int64 / float64 arrays are hashed differently: representation of the point, not judged
            rep.observe("representation:numerically-equal-point-recorded-again-under-a-new-key(signed-zero-or-int/float-dtype)",
                        {"key": changed[0][0], "dtype": str(changed[0][0].dtype)})
        if corner == "physical-round-nonintegral" and not any(same_point(e[0], cands[0]) for e in group):
            rep.observe("corner:physical-round-nonintegral:record-keyed-by-unrounded-caller-point")
        if kind == "val":
            o = np.asarray(dense(obs)).reshape(-1)
            good = [e for e in group if e[1][name].size == o.size and np.array_equal(o, e[1][name].reshape(-1))]
            entry = (good or group)[0]
            stored = entry[1][name]
            if not good:
                self.viol(f"C01:record:value-differs-from-returned:{self.feat(fname)}",
                          "the database records exactly the returned value", i, observed=stored, expected=o)
        else:
            p = cands[matched if matched is not None else 0]
            mask = self.ref.stored_mask(cfg["norm"])
            exp = f.jac(p) * mask[None, :]
            scale = self.ref.caller_scale(cfg["norm"])
            tol_c, judged = self.jac_tolerance(f, p, scale, exp * np.where(mask, scale, 0.0)[None, :])
            safe = np.where(scale == 0.0, 1.0, np.abs(scale))
            tol = tol_c / safe[None, :] if cfg["diff"] != "user" else RTOL * (1.0 + np.abs(exp))
            rep.count("recorded_jacobian_checked")
            if (~mask).any():
                rep.count("recorded_inert_columns_checked_zero", int((~mask).sum()))
            verdicts = []
            for e in group:
                s, ok = realify(e[1][name])
                if not ok or s.size != exp.size:
                    verdicts.append((e, None, None))
                    continue
                s = s.reshape(exp.shape)
                bad = ((np.abs(s - exp) > tol) & judged[None, :]) | ~np.isfinite(s)
                verdicts.append((e, s, bad))
            good = [v for v in verdicts if v[2] is not None and not v[2].any()]
            entry, s, bad = (good or verdicts)[0]
            stored = entry[1][name]
            if not good and bad is None:
                self.viol(f"C01:record:jacobian-shape-or-dtype:{self.feat(fname)}", "recorded Jacobian", i,
                          observed=stored, expected={"shape": list(exp.shape)})
            elif not good:
                cols = np.where(bad.any(axis=0))[0]
                sig = f"C01:record:jacobian-is-not-the-physical-jacobian:{self.feat(fname)}"
                if self.ref.has_int and cfg["norm"] and cfg["diff"] == "user" and np.all(self.ref.is_int[cols]) and \
                        np.all(np.isfinite(s)) and np.allclose(s[:, cols], np.round(exp[:, cols] * scale[cols]) / safe[cols], rtol=0, atol=1e-9):
                    sig = "C01:jacobian:integer-columns-rounded-by-normalize_grad:norm+int"
                elif not np.all(np.isfinite(s)):
                    sig = self.nonfinite_signature(fname, cols)
                sig = self.parameter_space_signature(s, exp, cols, True, tol) or sig
                self.viol(sig, "the database records the physical-space Jacobian (zero where lb=ub)", i,
                          observed={"name": name, "stored": s, "bad_columns": cols}, expected={"jacobian": exp, "key": entry[0]})
        # memoisation: the name was already recorded under this very key before the request
        was = _was(entry)
        if was:
            rep.count("memo_hits_observed")
            if new_calls is not None:
                rep.count("memo_hits_with_call_count_checked")
            if new_calls:
                self.viol(f"C01:memo:original-function-called-again-for-a-recorded-point:{kind}:{self.feat(fname)}",
                          "a recorded point is served from the database without calling the original function", i,
                          observed={"calls": new_calls, "key": entry[0]}, expected=0)
            if not np.array_equal(was[-1][1][name], stored, equal_nan=True):
                self.viol(f"C01:record:earlier-record-overwritten:{self.feat(fname)}",
                          "earlier records are unchanged", i, observed=stored, expected=was[-1][1][name])

    def judge_first(self, i, fname, kind, caller_x, caller_is_norm, obs):
        """A repeated request (same caller array, same flag) returns the same result as the first time."""
        cfg = self.cfg
        if not cfg["use_db"] or (kind == "jac" and not cfg["store_jac"]):
            return
        key = (fname, kind, bool(caller_is_norm), np.asarray(caller_x, dtype=float).tobytes())
        o, ok = realify(dense(obs))
        if not ok:
            return
        if key not in self.first:
            self.first[key] = o
            return
        self.rep.count("repeat_equals_first_checked")
        first = self.first[key]
        # approximated Jacobians carry the rounding noise of the difference quotient (~eps*|f|/h); an inert column
        # is exactly 0 when re-normalised from the record but noise/h when computed
        rtol, atol = (1e-12, 1e-13) if cfg["diff"] == "user" or kind == "val" else (1e-6, 1e-6 * (1.0 + float(np.max(np.abs(first), initial=0.0))))
        if first.size != o.size or not np.allclose(o.reshape(-1), first.reshape(-1), rtol=rtol, atol=atol):
            sig = f"C01:memo:repeated-request-differs-from-first:{kind}:{self.feat(fname)}"
            if kind == "jac" and self.ref.has_int and cfg["norm"] and first.size == o.size:
                a, b = o.reshape(-1, self.ref.n), first.reshape(-1, self.ref.n)
                cols = np.where((np.abs(a - b) > 1e-12 * (1 + np.abs(b))).any(axis=0))[0]
                if np.all(self.ref.is_int[cols]) and np.allclose(a[:, cols], np.round(b[:, cols]), rtol=0, atol=1e-9):
                    sig = "C01:jacobian:integer-columns-rounded-by-normalize_grad:norm+int"
            self.viol(sig, "a recorded point is served with the same result as the first time", i,
                      observed=o, expected=first)


# --------------------------------------------------------------------------- running one history
def run_history(case, rep):
    from gemseo.algos.stop_criteria import FunctionIsNan

    judge = Judge(case, rep)
    cfg = case["config"]
    ref = judge.ref
    try:
        built = Built(case)
    except Exception as e:
        rep.violation(f"C01:setup:exception:{type(e).__name__}:{judge.feat()}", "the problem can be preprocessed", case,
                      observed=f"{type(e).__name__}: {e}")
        return
    problem, db, log = built.problem, built.problem.database, built.log
    n_eval_requests = {name: 0 for name in built.functions}
    any_exception = False
    names = [f["name"] for f in case["functions"]]

    for i, req in enumerate(case["requests"]):
        x_func = np.array(case["pool"][req["p"]], dtype=float)
        if req["kind"] == "ef":
            flag = req["flag_norm"]
            if flag == cfg["norm"]:
                caller_x = x_func.copy()
            elif flag:
                caller_x = ref.normalize(x_func)
            else:
                caller_x = ref.unnormalize(x_func)
            caller_is_norm = flag
            outs = [] if req["outs"] is None else (names if req["outs"] == "all" else [names[k] for k in req["outs"]])
            jacs = [] if req["jacs"] is None else (names if req["jacs"] == "all" else [names[k] for k in req["jacs"]])
        else:
            caller_x, caller_is_norm = x_func.copy(), cfg["norm"]
            outs = [names[req["f"]]] if req["kind"] == "val" else []
            jacs = [names[req["f"]]] if req["kind"] == "jac" else []
        cands, corner = judge.candidates(caller_x, caller_is_norm)
        if corner:
            rep.count("requests_with_nonintegral_integer_component")
        pu = ref.unnormalize(caller_x) if caller_is_norm else caller_x.copy()
        judge.unrounded.append(pu)
        pre = snapshot(db) if cfg["use_db"] else []
        n_log = len(log)
        arg = caller_x.copy()
        values, jacobians = {}, {}
        exc = None
        try:
            if req["kind"] == "val":
                n_eval_requests[outs[0]] += 1
                values[outs[0]] = built.functions[outs[0]].evaluate(arg)
            elif req["kind"] == "jac":
                jacobians[jacs[0]] = built.functions[jacs[0]].jac(arg)
            else:
                of = None if req["outs"] is None else (() if req["outs"] == "all" else [built.functions[n] for n in outs])
                jf = None if req["jacs"] is None else (() if req["jacs"] == "all" else [built.functions[n] for n in jacs])
                for n_ in outs:
                    n_eval_requests[n_] += 1
                values, jacobians = problem.evaluate_functions(arg, design_vector_is_normalized=flag,
                                                               output_functions=of, jacobian_functions=jf)
                rep.count("evaluate_functions_requests")
                if flag != cfg["norm"]:
                    rep.count("evaluate_functions_cross_coordinate_requests")
        except Exception as e:  # valid request: the statement promises a result
            exc = e
        rep.count("requests")
        post = snapshot(db) if cfg["use_db"] else []
        # aliasing: mutate the caller's array, the database must not move
        if cfg["use_db"]:
            arg += 1.2345
            arg[...] = arg[::-1].copy()
            post2 = snapshot(db)
            rep.count("alias_checks")
            if len(post2) != len(post) or not all(same_entry(a, b) for a, b in zip(post, post2)):
                judge.viol(f"C01:record:key-aliases-caller-array:{judge.feat()}", "keys are copies of the caller's array", i,
                           observed=[e[0] for e in post2], expected=[e[0] for e in post])
                post = post2
        new = log[n_log:]
        new_calls = {}
        for (fname, kind, _arg) in new:
            new_calls[(fname, kind)] = new_calls.get((fname, kind), 0) + 1
        if exc is not None and cfg["diff"] != "user" and jacs and bool(ref.is_int.all()):
            # approximated derivatives are only judged w.r.t. float components (see ASSUMPTIONS); in an
            # all-integer space (integer-typed design vectors) nothing is judged, an exception is observed only
            any_exception = True
            rep.observe("approximated-derivatives-on-all-integer-space:exception",
                        {"exception": f"{type(exc).__name__}: {exc}"[:200], "config": cfg, "request": req})
            continue
        if exc is not None:
            has_equal = bool(((ref.lb == ref.ub)).any())
            extra = "+lb=ub" if (has_equal and cfg["diff"] != "user") else ""
            spj = "+sparse-jacobian-object" if cfg["sparse"] and any(
                judge.fdesc[n_]["sparse_jac"] or judge.fdesc[n_]["csr"] for n_ in jacs) else ""
            any_exception = True
            base = "+".join(["norm" if cfg["norm"] else "phys", "db" if cfg["use_db"] else "nodb"]
                            + (["sparse"] if cfg["sparse"] else []) + ([cfg["diff"]] if cfg["diff"] != "user" else []))
            sig = f"C01:exception:{type(exc).__name__}:{'jacobian' if jacs else 'value'}:{base}{extra}{spj}"
            if isinstance(exc, FunctionIsNan) and cfg["diff"] == "centered_differences" and has_equal and jacs:
                sig = "C01:approx:centered_differences:nan-for-component-with-lb=ub"
            judge.viol(sig,
                       "the request returns a result", i, observed=f"{type(exc).__name__}: {exc}"[:400],
                       expected={"physical_points": cands})
            continue
        # user calls happen at the physical point (user derivatives only: approximations perturb)
        if cfg["diff"] == "user":
            for (fname, kind, a) in new:
                rep.count("user_call_arguments_checked")
                if not any(same_point(a, p) for p in cands):
                    sig = f"C01:call:original-function-called-off-the-physical-point:{judge.feat(fname)}"
                    judge.viol(sig, "the original function is evaluated at the physical point", i,
                               observed={"function": fname, "kind": kind, "argument": a}, expected={"physical_points": cands})
                    break
        # per function
        if set(values) != set(outs) or set(jacobians) != set(jacs):
            judge.viol(f"C01:evaluate_functions:wrong-names:{judge.feat()}", "evaluate_functions returns the requested names", i,
                       observed={"values": sorted(values), "jacobians": sorted(jacobians)}, expected={"values": outs, "jacobians": jacs})
        matched_by_f = {}
        for fname in outs:
            if fname not in values:
                continue
            k = judge.judge_value(i, fname, values[fname], cands, corner)
            matched_by_f[fname] = k
            if k is not None:
                judge.judge_first(i, fname, "val", caller_x, caller_is_norm, values[fname])
        func_scale = ref.caller_scale(cfg["norm"])
        for fname in jacs:
            if fname not in jacobians:
                continue
            alt = None
            if req["kind"] == "ef" and caller_is_norm != cfg["norm"]:
                alt = ref.caller_scale(caller_is_norm)
            k = judge.judge_jac(i, fname, jacobians[fname], cands, prefer=matched_by_f.get(fname),
                                caller_scale=func_scale, alt_scale=alt)
            if fname not in matched_by_f or matched_by_f[fname] is None:
                matched_by_f[fname] = k
            if k is not None:
                judge.judge_first(i, fname, "jac", caller_x, caller_is_norm, jacobians[fname])
        if not cfg["use_db"]:
            if len(db) != 0:
                judge.viol(f"C01:record:database-filled-although-use_database=False:{judge.feat()}", "no record without database", i,
                           observed=len(db), expected=0)
            continue
        # database clauses
        all_keys = []
        expected_names = set()
        for fname, kind, obs in [(n_, "val", values.get(n_)) for n_ in outs] + [(n_, "jac", jacobians.get(n_)) for n_ in jacs]:
            if obs is None:
                continue
            m = matched_by_f.get(fname)
            keys = judge.accepted_keys(cands, corner, caller_x, caller_is_norm, m)
            all_keys.extend(keys)
            if kind == "val" or cfg["store_jac"]:
                expected_names.add(fname if kind == "val" else "@" + fname)
            if fname not in judge.user_functions:
                calls = None  # MDOLinearFunction: no user callable to record
            elif cfg["diff"] == "user":
                calls = new_calls.get((fname, kind), 0)
            elif fname in outs and fname in jacs:
                calls = None  # approximated Jacobian and value of the same function in one request
            else:
                calls = new_calls.get((fname, "val"), 0) + new_calls.get((fname, "jac"), 0)
            judge.judge_record(i, fname, kind, obs, pre, post, keys, cands, m, corner, calls)
        all_keys.extend(cands)
        # nothing else changed
        rep.count("frame_oracle_evaluations")
        pre_by = {(e[0].dtype.str, e[0].tobytes()): e for e in pre}
        post_ids = [(e[0].dtype.str, e[0].tobytes()) for e in post]
        if len(set(post_ids)) != len(post_ids):
            judge.viol(f"C01:record:duplicated-key:{judge.feat()}", "a physical point is recorded once", i,
                       observed=[e[0] for e in post], expected="distinct keys")
        for kid in pre_by:
            if kid not in set(post_ids):
                judge.viol(f"C01:record:entry-removed:{judge.feat()}", "earlier entries are unchanged", i,
                           observed=[e[0] for e in post], expected=pre_by[kid][0])
        for e, kid in zip(post, post_ids):
            old = pre_by.get(kid)
            changed_names = set(e[1]) if old is None else {n_ for n_ in e[1] if n_ not in old[1] or
                                                          not np.array_equal(old[1][n_], e[1][n_], equal_nan=True)}
            if old is not None:
                changed_names |= set(old[1]) - set(e[1])
            if old is None or changed_names:
                if not any(same_point(e[0], k) for k in all_keys):
                    sig = f"C01:record:entry-under-a-point-that-is-not-the-physical-point:{judge.feat()}"
                    if cfg["norm"] and same_point(e[0], caller_x) and not any(same_point(caller_x, k) for k in all_keys):
                        sig = f"C01:record:entry-under-the-normalised-point:{judge.feat()}"
                    judge.viol(sig, "records are keyed by the physical point", i, observed={"key": e[0], "names": sorted(changed_names)},
                               expected={"accepted_keys": all_keys})
                elif not changed_names <= expected_names:
                    judge.viol(f"C01:record:unrequested-name-recorded-or-changed:{judge.feat()}", "no other name appears or changes", i,
                               observed=sorted(changed_names), expected=sorted(expected_names))
    # counters kept by gemseo itself (outside the statement: observed only)
    for name, fn in built.functions.items():
        rep.count("n_calls_compared")
        if fn.n_calls != n_eval_requests[name] and not any_exception:
            rep.observe("n_calls-differs-from-number-of-evaluate-requests",
                        {"function": name, "n_calls": fn.n_calls, "requests": n_eval_requests[name], "config": cfg})


def run_case(case, rep):
    rep.case(case_signature(case), is_nontrivial(case))
    run_history(case, rep)


# --------------------------------------------------------------------------- directed cases
def directed_cases():
    """The corners named in DESIGN.md (probe p8): lb=ub, half-bounded, integer with a non-integral value."""
    space = {"vars": [
        {"name": "a", "size": 1, "type": "float", "kinds": ["finite"], "lb": [1.0], "ub": [3.0], "value": [2.0]},
        {"name": "e", "size": 1, "type": "float", "kinds": ["equal"], "lb": [5.0], "ub": [5.0], "value": [5.0]},
        {"name": "u", "size": 1, "type": "float", "kinds": ["upper"], "lb": [None], "ub": [4.0], "value": [0.0]},
        {"name": "i", "size": 1, "type": "integer", "kinds": ["finite"], "lb": [0.0], "ub": [10.0], "value": [3]},
    ], "normalize_integers": False}
    # f(x) = x0^2 + 3 x1 + x2 x3 ; g = (x0 x1, x3^2)
    f = {"name": "f", "role": "objective", "kind": "poly", "scalar_out": True, "sparse_jac": False, "csr": False,
         "desc": {"kind": "poly", "coeffs": [[1.0, 3.0, 1.0]], "exps": [[2, 0, 0, 0], [0, 1, 0, 0], [0, 0, 1, 1]]}}
    g = {"name": "g", "role": "ineq", "kind": "poly", "scalar_out": False, "sparse_jac": True, "csr": False,
         "desc": {"kind": "poly", "coeffs": [[1.0, 0.0], [0.0, 1.0]], "exps": [[1, 1, 0, 0], [0, 0, 0, 2]]}}
    lin = {"name": "lin", "role": "ineq", "kind": "linear", "scalar_out": False, "sparse_jac": False, "csr": False,
           "desc": {"kind": "linear", "a": [[1.5, 2.0, 3.0, 4.25]], "b": [1.0]}}
    lins = dict(lin, name="lins", csr=True, desc={"kind": "linear", "a": [[0.0, 2.0, 0.0, 4.25], [1.0, 0.0, 0.5, 0.0]], "b": [1.0, -1.0]})
    out = []
    for norm in (True, False):
        for rnd in (True, False):
            for db, sj in ((True, True), (True, False), (False, True)):
                for sparse in (False, True):
                    cfg = {"norm": norm, "use_db": db, "store_jac": sj, "round_ints": rnd, "sparse": sparse,
                           "diff": "user", "step": None}
                    pool = [[0.75, 0.0, 1.25, 3.4], [0.75, 0.5, 1.25, 3.0], [0.0, 1.0, 4.0, 7.0]] if norm else \
                        [[2.5, 5.0, 1.25, 3.4], [2.5, 5.0, 1.25, 3.0], [1.0, 5.0, 4.0, 7.0]]
                    reqs = []
                    for p in (0, 1, 0, 2):
                        reqs += [{"kind": "jac", "p": p, "f": 0}, {"kind": "val", "p": p, "f": 0},
                                 {"kind": "val", "p": p, "f": 2}, {"kind": "jac", "p": p, "f": 2},
                                 {"kind": "jac", "p": p, "f": 1}, {"kind": "jac", "p": p, "f": 3},
                                 {"kind": "jac", "p": p, "f": 2}, {"kind": "val", "p": p, "f": 3}]
                    reqs += [{"kind": "ef", "p": 2, "flag_norm": True, "outs": "all", "jacs": "all"},
                             {"kind": "ef", "p": 1, "flag_norm": False, "outs": "all", "jacs": [0, 2]},
                             {"kind": "ef", "p": 2, "flag_norm": False, "outs": None, "jacs": "all"}]
                    out.append({"space": space, "functions": [f, g, lin, lins], "config": cfg, "pool": pool, "requests": reqs})
    # all-integer space (integer common dtype), approximated derivatives on the p8 space
    ispace = {"vars": [{"name": "i", "size": 2, "type": "integer", "kinds": ["finite", "finite"], "lb": [0.0, 0.0],
                        "ub": [10.0, 10.0], "value": [3, 4]},
                       {"name": "j", "size": 1, "type": "integer", "kinds": ["lower"], "lb": [0.0], "ub": [None], "value": [2]}],
              "normalize_integers": False}
    fi = {"name": "f", "role": "objective", "kind": "poly", "scalar_out": True, "sparse_jac": False, "csr": False,
          "desc": {"kind": "poly", "coeffs": [[0.5, 1.25]], "exps": [[1, 1, 0], [0, 0, 2]]}}
    li = {"name": "lin", "role": "ineq", "kind": "linear", "scalar_out": False, "sparse_jac": False, "csr": False,
          "desc": {"kind": "linear", "a": [[1.5, 2.0, 4.25]], "b": [1.0]}}
    for norm in (True, False):
        for rnd in (True, False):
            cfg = {"norm": norm, "use_db": True, "store_jac": True, "round_ints": rnd, "sparse": False, "diff": "user", "step": None}
            reqs = [{"kind": k, "p": p, "f": fidx} for p in (0, 1, 0) for fidx in (0, 1) for k in ("val", "jac", "jac")]
            out.append({"space": ispace, "functions": [fi, li], "config": cfg, "pool": [[2.0, 3.0, 4.0], [5.0, 1.0, 0.0]], "requests": reqs})
    fspace = {"vars": [dict(v) for v in space["vars"][:3]], "normalize_integers": False}
    f3 = dict(f, desc={"kind": "poly", "coeffs": [[1.0, 3.0, 1.0]], "exps": [[2, 0, 0], [0, 1, 0], [1, 0, 2]]})
    l3 = dict(lin, desc={"kind": "linear", "a": [[1.5, 2.0, 3.0]], "b": [1.0]})
    for diff in DIFFS[1:]:
        for norm in (True, False):
            cfg = {"norm": norm, "use_db": True, "store_jac": True, "round_ints": True, "sparse": False, "diff": diff, "step": STEPS[diff]}
            pool = [[0.75, 0.0, 1.25], [0.25, 1.0, -2.0]] if norm else [[2.5, 5.0, 1.25], [1.5, 5.0, -2.0]]
            reqs = [{"kind": k, "p": p, "f": fidx} for p in (0, 1, 0) for fidx in (0, 1) for k in ("jac", "val", "jac")]
            out.append({"space": fspace, "functions": [f3, l3], "config": cfg, "pool": pool, "requests": reqs})
    pspace = dict(fspace, cls="ParameterSpace")
    for norm in (True, False):
        cfg = {"norm": norm, "use_db": True, "store_jac": True, "round_ints": True, "sparse": False, "diff": "user", "step": None}
        pool = [[0.75, 0.0, 1.25], [0.25, 1.0, -2.0]] if norm else [[2.5, 5.0, 1.25], [1.5, 5.0, -2.0]]
        reqs = [{"kind": k, "p": p, "f": fidx} for p in (0, 1, 0) for fidx in (0, 1) for k in ("jac", "val", "jac")]
        out.append({"space": pspace, "functions": [f3, l3], "config": cfg, "pool": pool, "requests": reqs})
    return out


# --------------------------------------------------------------------------- entry points
def run_shard(spec, rep):
    rng = np.random.default_rng(spec["seed"])
    if spec.get("shard", 0) == 0:
        for case in directed_cases():
            run_case(case, rep)
            rep.count("directed_cases")
    for i in range(spec["n_cases"]):
        if rep.time_left() < 0:
            rep.count("stopped_on_time_budget")
            break
        case = gen_case(rng)
        run_case(case, rep)
        if i < 2:
            rep.sample({"case": {k: case[k] for k in ("space", "config", "requests")},
                        "functions": [(f["name"], f["kind"], f["role"]) for f in case["functions"]],
                        "note": "history judged request by request against the reference normalisation and closed forms"})


def replay(case, rep):
    case = {k: v for k, v in case.items() if k != "failing_request"}
    run_history(case, rep)
