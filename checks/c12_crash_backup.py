"""C12 — a crashed run leaves a loadable prefix backup and restarts without rework.

Fault enumeration (M6): every experiment is a chain of child interpreters
(``subprocess.run([/venv/bin/python, vlib/gen/c12_child.py, cfg.json], timeout=)``) that run a real
scenario with ``set_optimization_history_backup``; the child dies with ``os._exit(17)`` inside the k-th
execution of a harness discipline after having written (append + fsync) a side log of every discipline
execution, every database store and the census of open HDF5 handles / descriptors on the backup.
The parent (this module, inside the shard process) loads the backup with the real loaders, rebuilds from
the side log what must be in the file, and judges the restarted run (``load=True``) in a second child
against the backup and against the uninterrupted reference run.  See DESIGN.md section 3, C12.

Oracle clauses (none asks more than the property statement):

1. ``load``      the backup is loadable (``Database.from_hdf`` and ``OptimizationProblem.from_hdf``);
2. ``prefix``    its points are, in order, the points stored before the crash; every value equals the value
                 the run recorded (store listener) and the value of the uninterrupted run; it holds every
                 store completed up to the last backup event (each store / each new iteration) and nothing
                 that was not stored;
3. ``closed``    no HDF5 file object and no descriptor on the backup is open at the crash point;
4. ``restart``   the restarted run completes; no harness discipline is executed at a design point that is in
                 the backup unless an output missing from the backup at that point had to be computed
                 (then it is only recorded as an observation); the loaded entries are kept first, in order,
                 with their values; the reported optimum is not worse than the best feasible loaded point;
5. ``replay``    unnormalised design space + SLSQP / L-BFGS-B / DOE: the final history of crash + restart
                 equals the history of the uninterrupted run.

Every crash point is restarted in two modes, served by one child interpreter on two copies of the backup:
``keep`` (``reset_iteration_counters=False``, the documented option) and ``default`` (what a plain
``scenario.execute(...)`` after ``set_optimization_history_backup(load=True)`` does: the driver resets the counter
the scenario has just restored).  Clause 4 is a verdict in both modes.  Clause 5 is a verdict in ``keep`` mode and,
in ``default`` mode, whenever the uninterrupted run was not ended by ``max_iter`` (a reset counter legitimately
gives a fresh budget, which only changes a run that exhausts it); otherwise it is an observation.
"""

from __future__ import annotations

import copy
import json
import math
import os
import shutil
import subprocess
import sys
import threading
from concurrent.futures import ThreadPoolExecutor
from pathlib import Path

import numpy as np

from vlib import bootstrap
from vlib.harness import subseed

PID = "C12"
LEVEL = "fault_enumeration"
RULE = (
    "for each configuration (scenario class x formulation x algorithm x backup granularity x normalisation x "
    "constraints, problem coefficients drawn from the seed) an uninterrupted reference run gives K = number of "
    "harness-discipline executions; crash points k = 1..K (thorough: all; quick: every ceil(K/8)-th) are each "
    "run as [child dies in the k-th execution] -> [parent loads the backup] -> [child restarts with load=True]; "
    "the pre-filled-file variant repeats this from the backup of a first crash k1 for every second crash point "
    "k2 = 1..K2 of the restarted run (crash, restart, crash again, restart); every crash point is restarted in two "
    "modes (reset_iteration_counters=False and the driver's default reset); quick always includes the first two "
    "and the last three crash points of each configuration; a case is distinct by "
    "(configuration, file absent / pre-filled from k1 and the mode of the dying restart, crash point) and "
    "non-trivial when the child really died inside a discipline execution"
)
ASSUMPTIONS = [
    "the side log is trusted: it is written with append+flush+fsync by harness-owned code before os._exit",
    "a crash is only injected inside a discipline execution (never inside an HDF5 write), as the statement says",
    "restart protocol = same scenario, set_optimization_history_backup(load=True), same algorithm settings, once "
    "with reset_iteration_counters=False (documented way to complete a run from a backup) and once with the "
    "driver's default; with the default the replay clause is only enforced when the uninterrupted run was not ended "
    "by max_iter (decided from the reference result message and counter)",
    "the two restarts of one crash point run one after the other in the same child interpreter, each with a freshly "
    "built scenario and its own copy of the backup (saves one gemseo import per crash point)",
    "re-execution at a stored design point is only a violation when nothing missing from the backup was computed "
    "at that point (an output absent from the backup cannot be memoised)",
    "backup at each iteration must hold at least the database content at the last new-iteration event and at most "
    "the content at the crash",
    "the coupled (MDF) configurations set the MDA residual scaling to NO_SCALING: with the default scaling "
    "(INITIAL_RESIDUAL_NORM, kept from the first MDA execution of the process) the stopping test of the MDA, hence "
    "the recorded values, depend on which point a process evaluates first, so a restarted process cannot reproduce "
    "them bit for bit whatever the backup does",
    "harness disciplines are pure functions of their inputs; float values cross processes through JSON (repr "
    "round-trip exact) and HDF5 float64 (exact)",
]
ANCHORS = [
    # entered in the shard process (parent side of the experiment)
    "gemseo.algos.database:Database.from_hdf",
    "gemseo.algos._hdf_database:HDFDatabase.update_from_file",
    "gemseo.algos.optimization_problem:OptimizationProblem.from_hdf",
    # entered in the children; the children run the same vlib.reach monitor and report the anchors they
    # entered through the side log, the shard forwards them to its own monitor (see _publish_anchors)
    "gemseo.scenarios.base_scenario:BaseScenario.set_optimization_history_backup",
    "gemseo.scenarios.base_scenario:BaseScenario._execute_backup_callback",
    "gemseo.algos.optimization_problem:OptimizationProblem.to_hdf",
    "gemseo.algos._hdf_database:HDFDatabase.to_file",
    "gemseo.algos._hdf_database:HDFDatabase.add_pending_array",
    "gemseo.algos.database:Database.update_from_hdf",
    "gemseo.algos.problem_function:ProblemFunction._compute_output_db",
    "gemseo.algos.problem_function:ProblemFunction._compute_jacobian_db",
    "gemseo.algos.problem_function:ProblemFunction._compute_output_db_norm",
    "gemseo.algos.problem_function:ProblemFunction._compute_jacobian_db_norm",
]
CHILD_ANCHORS = ANCHORS[3:] + ANCHORS[1:2]
MIN_COUNTERS = {
    "quick": {"configurations": 8, "crash_points": 40, "crash_points_prefilled": 3, "census_checked": 40,
              "crash_points_among_first_two": 10, "crash_points_among_last_three": 20,
              "backups_loaded": 33, "backup_values_checked": 550, "backup_vs_reference_checked": 33,
              "crash_before_first_export": 7, "iter_backup_last_point_partial": 12, "restarts_checked": 80,
              "restarts_with_default_counter_reset": 40, "restarts_with_kept_counter": 40,
              "restart_execs_checked": 1200, "stored_points_not_reexecuted": 330, "restarts_cheaper_than_reference": 50,
              "loaded_entries_kept_checked": 350, "optimum_vs_loaded_checked": 55, "replay_history_checked": 55,
              "replay_clause_judged_default_reset": 20, "deterministic_mdo_references_ended_by_gemseo_ftol_xtol": 2,
              "child_anchors_distinct": 10},
    "thorough": {"configurations": 11, "prefilled_first_crashes": 18, "crash_points": 300, "crash_points_prefilled": 180,
                 "census_checked": 300, "crash_points_among_first_two": 16, "crash_points_among_last_three": 25,
                 "backups_loaded": 280, "backup_values_checked": 3300,
                 "backup_vs_reference_checked": 210, "crash_before_first_export": 22,
                 "iter_backup_last_point_partial": 120, "restarts_checked": 600,
                 "restarts_with_default_counter_reset": 300, "restarts_with_kept_counter": 300,
                 "restart_execs_checked": 15000,
                 "stored_points_not_reexecuted": 1900, "restarts_cheaper_than_reference": 420,
                 "loaded_entries_kept_checked": 2200, "optimum_vs_loaded_checked": 470, "replay_history_checked": 370,
                 "replay_clause_judged_default_reset": 150, "deterministic_mdo_references_ended_by_gemseo_ftol_xtol": 2,
                 "child_anchors_distinct": 10},
}
SHARD_TIMEOUT = {"quick": 1800, "thorough": 3600}  # caps only; ~40 s / ~150 s per shard on an idle machine

PY = "/venv/bin/python"
CHILD = str(Path(__file__).resolve().parent.parent / "vlib" / "gen" / "c12_child.py")
CHILD_TIMEOUT = 180
EXIT_CRASH = 17

# --------------------------------------------------------------------------- configurations
# name, scenario, kind, granularity, normalised, algorithm, #constraint components, MDA, slices (quick, thorough)
CONFIGS = {
    "mdo-disc-slsqp-call": dict(scenario="mdo", kind="single", gran="call", norm=False, algo="SLSQP", m=1, converge=True, loose_tol=True, slices={"quick": (2, 1), "thorough": (3, 1)}, quick=True, prefill_quick=True),
    "mdo-disc-slsqp-iter": dict(scenario="mdo", kind="single", gran="iter", norm=False, algo="SLSQP", m=2, obs=True, converge=True, slices={"quick": (2, 1), "thorough": (3, 1)}, quick=True),
    "mdo-disc-lbfgsb-both": dict(scenario="mdo", kind="single", gran="both", norm=False, algo="L-BFGS-B", m=0, converge=True, slices={"quick": (2, 1), "thorough": (3, 1)}, quick=True),
    "mdo-disc-slsqp-call-norm": dict(scenario="mdo", kind="single", gran="call", norm=True, algo="SLSQP", m=1, obs=True, slices={"quick": (2, 1), "thorough": (3, 1)}, quick=True),
    "mdo-disc-lbfgsb-iter-norm": dict(scenario="mdo", kind="single", gran="iter", norm=True, algo="L-BFGS-B", m=0, slices={"quick": (2, 1), "thorough": (3, 1)}),
    "mdo-mdf-gs-call": dict(scenario="mdo", kind="coupled", gran="call", norm=False, algo="SLSQP", m=1, mda="MDAGaussSeidel", obs=True, slices={"quick": (3, 1), "thorough": (6, 3)}, quick=True),
    "mdo-mdf-jacobi-iter": dict(scenario="mdo", kind="coupled", gran="iter", norm=False, algo="SLSQP", m=1, mda="MDAJacobi", slices={"quick": (3, 1), "thorough": (6, 3)}, quick=True, prefill_quick=True),
    "doe-lhs-call": dict(scenario="doe", kind="single", gran="call", norm=False, algo="PYDOE_LHS", m=1, obs=True, slices={"quick": (2, 1), "thorough": (3, 1)}, quick=True),
    "doe-lhs-mdf-iter": dict(scenario="doe", kind="coupled", gran="iter", norm=False, algo="PYDOE_LHS", m=1, mda="MDAGaussSeidel", jac=True, slices={"quick": (3, 1), "thorough": (6, 3)}),
    "doe-ff-call": dict(scenario="doe", kind="single", gran="call", norm=False, algo="PYDOE_FULLFACT", m=0, slices={"quick": (2, 1), "thorough": (3, 1)}),
    "doe-ff-iter": dict(scenario="doe", kind="single", gran="iter", norm=False, algo="PYDOE_FULLFACT", m=2, obs=True, slices={"quick": (2, 1), "thorough": (3, 1)}, quick=True, prefill_quick=True),
}


def _r(rng, lo, hi, nd=2, size=None):
    return np.round(rng.uniform(lo, hi, size), nd).tolist() if size else round(float(rng.uniform(lo, hi)), nd)


def make_case(name, seed):
    """The child configuration (without file paths) of configuration ``name`` for ``seed``."""
    c = CONFIGS[name]
    rng = np.random.default_rng(subseed(seed, PID, "case", name))
    fullfact = c["algo"] == "PYDOE_FULLFACT"
    n = 2 if (fullfact or c["kind"] == "coupled") else int(rng.integers(2, 4))
    m = c["m"]
    cc = _r(rng, -1.0, 2.0, 2, n)
    A = [[_r(rng, 0.5, 1.5) for _ in range(n)] for _ in range(max(m, 1))]
    b = [round(float(np.dot(A[i], cc)) - _r(rng, 0.2, 1.0), 3) for i in range(max(m, 1))]
    problem = {
        "kind": c["kind"], "n": n, "c": cc, "w": _r(rng, 0.5, 2.0, 2, n), "cross": _r(rng, -0.3, 0.3),
        "quartic": _r(rng, 0.3, 1.0) if c["scenario"] == "mdo" else _r(rng, 0.0, 0.5),
        "A": A, "b": b, "lb": [-5.0] * n, "ub": [5.0] * n, "x0": _r(rng, -2.0, 2.0, 1, n), "constraints": m > 0,
        "p1": _r(rng, -0.5, 0.5, 2, n), "p2": _r(rng, -0.5, 0.5, 2, n),
        "alpha": round(float(rng.choice([-1, 1])) * _r(rng, 0.2, 0.5), 2),
        "beta": round(float(rng.choice([-1, 1])) * _r(rng, 0.2, 0.5), 2), "gamma": _r(rng, 0.1, 0.3),
    }
    settings = {}
    if c["scenario"] == "mdo":
        if c["kind"] == "single":
            # "converge": a budget that the run does not exhaust, so that the uninterrupted run is ended by a
            # tolerance criterion (GEMSEO's ftol/xtol testers or the algorithm's own test), not by max_iter
            settings["max_iter"] = 60 if c.get("converge") else int(rng.integers(11, 17))
        else:
            settings["max_iter"] = int(rng.integers(3, 5))
        settings["normalize_design_space"] = bool(c["norm"])
        if c.get("loose_tol"):
            # GEMSEO's own ftol/xtol testers then fire before SLSQP's internal test for every seed tried, so that
            # at least this reference is ended by the GEMSEO criteria (counted, see MIN_COUNTERS)
            settings.update(ftol_rel=1e-5, xtol_rel=1e-5)
    elif fullfact:
        settings["n_samples"] = 9
    else:
        settings["n_samples"] = int(rng.integers(9, 14)) if c["kind"] == "single" else int(rng.integers(4, 6))
        settings["random_state"] = int(rng.integers(1, 1000))
    if c.get("jac"):
        settings["eval_jac"] = True
    fsettings = {}
    if c["kind"] == "coupled":
        fsettings = {"main_mda_name": "MDAChain",
                     "main_mda_settings": {"inner_mda_name": c["mda"], "tolerance": 1e-5,
                                           "inner_mda_settings": {"tolerance": 1e-5}}}
    return {
        "name": name, "scenario": c["scenario"], "problem": problem, "granularity": c["gran"], "algo": c["algo"],
        "algo_settings": settings, "formulation_settings": fsettings,
        "deterministic": not c["norm"],
        # residual scaling of the MDA: the default (norm of the first residual of the first execution of the
        # process) makes the coupled functions depend on the history of the process, see ASSUMPTIONS
        "mda_scaling": "NO_SCALING" if c["kind"] == "coupled" else None,
        "observable": bool(c.get("obs")),
    }


def shards(tier, seed):
    """quick: one shard per configuration part, crash points run by a few worker threads (each experiment is a
    chain of child interpreters, so threads only wait); thorough: slices of the crash-point list, one worker."""
    out = [{"seed": seed, "config": None, "slice": 0, "n_slices": 1, "budget_s": 1500, "workers": 3}]  # shard 0: directed
    budget = {"quick": 1500, "thorough": 3000}[tier]
    for name, c in CONFIGS.items():
        if tier == "quick" and not c.get("quick"):
            continue
        J, P = c["slices"]["thorough"] if tier == "thorough" else (1, 1)
        W = 1 if tier == "thorough" else (4 if c["kind"] == "coupled" else 3)
        for j in range(J):
            out.append({"seed": seed, "config": name, "part": "absent", "slice": j, "n_slices": J, "budget_s": budget,
                        "workers": W})
        if tier == "thorough" or c.get("prefill_quick"):
            for i in range(2 if tier == "thorough" else 1):
                for j in range(P):
                    out.append({"seed": seed, "config": name, "part": "prefill", "k1_index": i, "slice": j,
                                "n_slices": P, "budget_s": budget, "workers": 1 if tier == "thorough" else 2})
    return out


# --------------------------------------------------------------------------- children
class ChildTrouble(Exception):
    pass


MODES = ("keep", "default")  # restart with reset_iteration_counters=False / with the driver's default (reset)


def _spawn(base, scratch, tag, rep, common, runs):
    """Start one child interpreter serving ``runs`` (dicts overriding backup/log/final/keep_counter); returns
    (returncode, [(events, final), ...])."""
    scratch = Path(scratch)
    cfg = {k: base[k] for k in ("scenario", "problem", "granularity", "algo", "algo_settings", "formulation_settings")}
    cfg["mda_scaling"] = base.get("mda_scaling")
    cfg["observable"] = base.get("observable", False)
    cfg["anchors"] = CHILD_ANCHORS
    cfg.update(common)
    full = []
    for i, r in enumerate(runs):
        r = dict(r, log=str(scratch / f"{tag}.{i}.log"), final=str(scratch / f"{tag}.{i}.final"))
        r["backup"] = str(r["backup"])
        for p in (r["log"], r["final"]):
            if os.path.exists(p):
                os.remove(p)
        full.append(r)
    if len(full) == 1:
        cfg.update(full[0])
    else:
        cfg["runs"] = full
    cpath = scratch / f"{tag}.json"
    cpath.write_text(json.dumps(cfg))
    try:
        # the shard's environment; PYTHONPATH is rebuilt the same way the dispatcher does it so that the children
        # import the tree under test also in --replay mode
        res = subprocess.run([PY, CHILD, str(cpath)], timeout=CHILD_TIMEOUT, capture_output=True, text=True,
                             cwd=str(scratch), env=bootstrap.child_env())
    except subprocess.TimeoutExpired:
        rep.count("child_timeouts")
        rep.inconclusive(f"child {base['name']} hit the {CHILD_TIMEOUT}s watchdog")
        raise ChildTrouble("timeout")
    rep.count("children_run")
    out = []
    reached = set()
    for r in full:
        events = []
        if os.path.exists(r["log"]):
            for ln in Path(r["log"]).read_text().splitlines():
                try:
                    events.append(json.loads(ln))
                except ValueError:  # a torn last line cannot exist (fsync before exit) but do not trust it
                    rep.count("side_log_torn_lines")
        final = None
        if os.path.exists(r["final"]):
            try:
                final = json.loads(Path(r["final"]).read_text())
            except ValueError:
                final = None
        for ev in events:
            if ev.get("ev") == "census":
                reached.update(ev.get("anchors", []))
        if final:
            reached.update(final.get("anchors", []))
        out.append((events, final))
    if reached:
        _publish_anchors(reached, rep)
    if res.returncode not in (0, EXIT_CRASH) or (res.returncode == 0 and any(f is None for _, f in out)):
        rep.count("children_died_unexpectedly")
        rep.inconclusive(f"child {base['name']}/{tag} ended rc={res.returncode}: {res.stderr[-600:]}")
        raise ChildTrouble(f"rc={res.returncode}")
    return res.returncode, out


def _run_child(base, scratch, tag, *, backup, load, crash_at, rep, mode="keep"):
    """Run one child doing one run; returns (returncode, log events, final dict or None)."""
    rc, out = _spawn(base, scratch, tag, rep, {"load": bool(load), "crash_at": int(crash_at)},
                     [{"backup": backup, "keep_counter": mode == "keep"}])
    return rc, out[0][0], out[0][1]


def _run_restarts(base, scratch, tag, *, backups, rep):
    """One child interpreter restarting (load=True, no crash) once per mode, each on its own copy of the backup;
    returns {mode: (events, final)}."""
    modes = list(backups)
    rc, out = _spawn(base, scratch, tag, rep, {"load": True, "crash_at": 0},
                     [{"backup": backups[m_], "keep_counter": m_ == "keep"} for m_ in modes])
    return dict(zip(modes, out))


_ANCHOR_LOCK = threading.Lock()


def _publish_anchors(names, rep):
    """Forward the anchors entered in a child to the reach monitor of this shard process.

    The harness only watches the shard interpreter, whereas C12's deciding functions run in the children.
    The children run the very same ``vlib.reach.Reach`` monitor; what they entered is merged into the
    shard's monitor object (found in the caller frames of ``run_shard``) and also counted.
    """
    rep.count("child_anchor_hits", len(names))
    with _ANCHOR_LOCK:
        seen = getattr(rep, "_c12_child_anchors", None)
        if seen is None:
            seen = rep._c12_child_anchors = set()
        new = set(names) - seen
        seen.update(new)
    if not new:
        return
    rep.count("child_anchors_distinct", len(new))
    mon = getattr(rep, "_c12_monitor", None)
    if mon is not None:
        mon.reached.update(a for a in names if a in mon.anchors)


def _find_monitor():
    """The harness' reach monitor: a local of ``shard_main``, found in the caller frames (main thread only)."""
    f = sys._getframe()
    while f is not None:
        mon = f.f_locals.get("monitor")
        if mon is not None and hasattr(mon, "reached") and hasattr(mon, "anchors"):
            return mon
        f = f.f_back
    return None


class _LockedRep:
    """Reporter shared by the worker threads of a shard (every call under one lock)."""

    def __init__(self, rep):
        object.__setattr__(self, "_rep", rep)
        object.__setattr__(self, "_lock", threading.RLock())

    def __getattr__(self, name):
        attr = getattr(self._rep, name)
        if not callable(attr):
            return attr

        def call(*a, **k):
            with self._lock:
                return attr(*a, **k)

        return call

    def __setattr__(self, name, value):
        setattr(self._rep, name, value)


# --------------------------------------------------------------------------- reading backups
def load_backup(path, rep, base, case):
    """Load a backup with the real loaders; returns None (absent), list of entries, or raises Unloadable."""
    if not os.path.exists(path):
        return None
    from gemseo.algos.database import Database
    from gemseo.algos.optimization_problem import OptimizationProblem

    feat = f"{base['scenario']}:{base['granularity']}"
    try:
        db = Database.from_hdf(path, log=False)
    except Exception as e:
        rep.violation(f"C12:backup-unloadable:Database.from_hdf:{type(e).__name__}:{feat}", "load", case,
                      observed=f"{type(e).__name__}: {e}", expected="the backup loads")
        raise Unloadable from e
    rep.count("backups_loaded")
    entries = []
    for x, vals in db.items():
        entries.append((tuple(np.asarray(x.wrapped_array, dtype=float).tolist()),
                        {k: np.asarray(v, dtype=float).ravel().tolist() for k, v in vals.items()}))
    try:
        pb = OptimizationProblem.from_hdf(path)
        n_pb = len(pb.database)
    except Exception as e:
        rep.violation(f"C12:backup-unloadable:OptimizationProblem.from_hdf:{type(e).__name__}:{feat}", "load", case,
                      observed=f"{type(e).__name__}: {e}", expected="the backup loads")
    else:
        rep.count("backups_loaded_as_problem")
        if n_pb != len(entries):
            rep.violation(f"C12:backup-loaders-disagree:{feat}", "load", case, observed=n_pb, expected=len(entries))
    return entries


class Unloadable(Exception):
    pass


def _final_entries(final):
    return [(tuple(e["x"]), {k: list(v["data"]) for k, v in e["v"].items()}) for e in final["database"]]


def _same(a, b):
    """Exact equality of two flat float lists (NaN == NaN)."""
    if len(a) != len(b):
        return False
    return all(u == v or (u != u and v != v) for u, v in zip(a, b))


def expected_content(loaded, events, gran):
    """(minimum, maximum) content of the backup file at the crash according to the side log.

    ``maximum``: everything stored in the database before the crash (loaded entries first).
    ``minimum``: the database as of the last backup event — any store (``call``/``both``) or the last store that
    opened a new iteration, i.e. gave a first output to a point (``iter``).
    """
    state = {x: dict(v) for x, v in (loaded or [])}
    snap = copy.deepcopy(state)
    n_new_iter = 0
    for ev in events:
        if ev.get("ev") != "store":
            continue
        x = tuple(ev["x"])
        was_empty = not state.get(x)
        state[x] = {k: list(v) for k, v in ev["v"].items()}
        new_iter = was_empty and bool(ev["v"])
        n_new_iter += new_iter
        if gran in ("call", "both") or new_iter:
            snap = copy.deepcopy(state)
    return list(snap.items()), list(state.items()), n_new_iter


# --------------------------------------------------------------------------- oracle: the backup after a crash
def judge_backup(base, case, rep, *, backup_path, events, loaded, ref_entries, compare_with_ref):
    """Clauses 1-3.  Returns the entries of the backup (``[]`` when absent) or ``None`` if unloadable."""
    gran, scen = base["granularity"], base["scenario"]
    feat = f"{scen}:{gran}:{'prefilled' if loaded else 'absent'}"
    # ---- clause 3: census at the crash point
    cens = [e for e in events if e.get("ev") == "census"]
    if not cens:
        rep.inconclusive("crash child left no census")
        return None
    cen = cens[-1]
    rep.count("census_checked")
    if cen["h5_files_open"] != 0 or (cen["fds_on_backup"] or []) or cen.get("h5_objects_open", 0) > 0:
        rep.violation(f"C12:hdf5-handle-open-at-crash:{scen}:{gran}", "closed", case,
                      observed={k: cen[k] for k in ("h5_files_open", "h5_file_names", "h5_objects_open", "fds_on_backup")},
                      expected="no open HDF5 file object / descriptor on the backup during a discipline execution")
    if cen["fds_on_backup"] is None:
        rep.count("census_without_proc_fd")
    # ---- clause 1: loadable
    try:
        got = load_backup(backup_path, rep, base, case)
    except Unloadable:
        return None
    exp_min, exp_max, n_new_iter = expected_content(loaded, events, gran)
    if got is None:
        rep.count("crash_before_first_export")
        if exp_min:
            rep.violation(f"C12:backup-file-missing-after-stores:{feat}", "prefix", case,
                          observed="no backup file", expected={"entries": len(exp_min)})
        return []
    # ---- clause 2: prefix / exact content
    rep.count("backup_prefix_checked")
    ok = True
    keys_max = [x for x, _ in exp_max]
    keys_got = [x for x, _ in got]
    if keys_got != keys_max[:len(keys_got)]:
        ok = False
        rep.violation(f"C12:backup-points-not-a-prefix-of-stored-points:{feat}", "prefix", case,
                      observed={"backup_points": keys_got[:12]}, expected={"stored_points": keys_max[:12]})
    else:
        dmax = dict(exp_max)
        for x, vals in got:
            rep.count("backup_entries_checked")
            for name, v in vals.items():
                rep.count("backup_values_checked")
                if name not in dmax[x]:
                    ok = False
                    rep.violation(f"C12:backup-holds-a-value-never-stored:{feat}", "prefix", case,
                                  observed={"x": x, "name": name, "value": v}, expected={"names": sorted(dmax[x])})
                elif not _same(v, dmax[x][name]):
                    ok = False
                    rep.violation(f"C12:backup-value-differs-from-stored-value:{feat}:{'gradient' if name.startswith('@') else 'output'}",
                                  "prefix", case, observed={"x": x, "name": name, "value": v},
                                  expected={"value": dmax[x][name]})
    dgot = dict(got)
    missing = []
    for x, vals in exp_min:
        if x not in dgot:
            missing.append({"x": x, "names": sorted(vals)})
        else:
            lack = sorted(set(vals) - set(dgot[x]))
            if lack:
                missing.append({"x": x, "names": lack})
    if missing:
        ok = False
        kind = "points" if any(m_["x"] not in dgot for m_ in missing) else "outputs"
        rep.violation(f"C12:backup-misses-completed-stores:{kind}:{feat}", "prefix", case,
                      observed={"backup_entries": len(got), "missing": missing[:6]},
                      expected={"entries_at_last_backup_event": len(exp_min)})
    if gran == "iter" and got and exp_max and set(dict(exp_max)[got[-1][0]]) - set(got[-1][1]):
        rep.count("iter_backup_last_point_partial")
    if any(set(dict(exp_max)[x]) - set(v) for x, v in got[:-1]) if got else False:
        rep.count("iter_backup_earlier_point_partial")
    # ---- clause 2, values of the uninterrupted run
    if compare_with_ref:
        rep.count("backup_vs_reference_checked")
        kref = [x for x, _ in ref_entries]
        if keys_got != kref[:len(keys_got)]:
            ok = False
            rep.violation(f"C12:backup-points-not-a-prefix-of-uninterrupted-history:{feat}", "prefix", case,
                          observed={"backup_points": keys_got[:12]}, expected={"reference_points": kref[:12]})
        else:
            for (x, vals), (_, rvals) in zip(got, ref_entries):
                for name, v in vals.items():
                    if name not in rvals or not _same(v, rvals[name]):
                        ok = False
                        rep.violation(f"C12:backup-value-differs-from-uninterrupted-run:{feat}", "prefix", case,
                                      observed={"x": x, "name": name, "value": v},
                                      expected={"value": rvals.get(name)})
                        break
    if ok:
        rep.count("backups_exact")
    return got


# --------------------------------------------------------------------------- oracle: the restarted run
def _feasible_best(entries, base, tol):
    """Best objective among entries that are known to be feasible (all constraint components present)."""
    best = None
    for x, vals in entries:
        if "f" not in vals:
            continue
        if base["problem"]["constraints"]:
            if "g" not in vals or any(not (g <= tol) for g in vals["g"]):
                continue
        f = vals["f"][0]
        if f == f and (best is None or f < best[0]):
            best = (f, x)
    return best


def judge_restart(base, case, rep, *, loaded, events, final, ref, mode="keep", chain_keeps_counter=True):
    """Clauses 4 and 5 for a restart that ran to completion.

    ``mode``: "keep" = restart with reset_iteration_counters=False, "default" = the driver's default (the counter
    restored by the scenario is reset).  No rework, loaded entries kept and optimum no worse are verdicts in both
    modes.  The replay clause (same final history as the uninterrupted run; deterministic configurations) is a
    verdict in "keep" mode, and in "default" mode (or after an earlier default-mode restart in the chain) whenever
    the uninterrupted run was *not* ended by max_iter: a reset counter legitimately gives a fresh budget, which
    only matters for a run that exhausts it.
    """
    gran, scen = base["granularity"], base["scenario"]
    feat = f"{scen}:{gran}:{base['algo']}" + ("" if mode == "keep" else ":default-counter-reset")
    case = dict(case, mode=mode)
    ref_entries, ref_K = ref["entries"], ref["K"]
    loaded = loaded or []
    rep.count("restarts_checked")
    rep.count("restarts_with_default_counter_reset" if mode == "default" else "restarts_with_kept_counter")
    if final.get("error"):
        where = "loading-the-backup" if str(final["error"]).startswith("backup-setup") else "execute"
        rep.violation(f"C12:restart-raises:{where}:{str(final['error']).split(':')[1 if where != 'execute' else 0].strip()}:{feat}",
                      "restart", case, observed=final["error"], expected="the restarted run completes")
        return
    # loaded as many entries as the backup holds
    ld = [e for e in events if e.get("ev") == "loaded"]
    if ld and ld[0]["n"] != len(loaded):
        rep.violation(f"C12:restart-loads-wrong-entry-count:{feat}", "restart", case, observed=ld[0]["n"], expected=len(loaded))
    fin = _final_entries(final)
    dfin = dict(fin)
    dload = dict(loaded)
    # ---- no rework
    reexec_points = set()
    for ev in events:
        if ev.get("ev") != "exec":
            continue
        rep.count("restart_execs_checked")
        x = tuple(ev["in"]["x"])
        if x in dload:
            new_names = set(dfin.get(x, {})) - set(dload[x])
            if new_names:
                rep.count("restart_exec_at_stored_point_for_missing_output")
                rep.observe("restart executes disciplines at a backed-up point to compute an output missing from the backup",
                            {"config": base["name"], "missing": sorted(new_names), "stored": sorted(dload[x])})
            else:
                reexec_points.add(x)
    if reexec_points:
        rep.violation(f"C12:restart-reexecutes-at-stored-point:{feat}", "restart", case,
                      observed={"points": sorted(reexec_points)[:6], "n": len(reexec_points)},
                      expected="no discipline execution at a point whose requested outputs are all in the backup")
    n_exec = final["n_exec"]
    if loaded:
        complete = sum(1 for x in dload if not (set(dfin.get(x, {})) - set(dload[x])))
        rep.count("stored_points_not_reexecuted", complete - len(reexec_points))
        if n_exec < ref_K:
            rep.count("restarts_cheaper_than_reference")
    # ---- loaded entries are kept (first, in order, same values)
    rep.count("loaded_entries_kept_checked", len(loaded))
    kfin = [x for x, _ in fin]
    kload = [x for x, _ in loaded]
    if kfin[:len(kload)] != kload:
        rep.violation(f"C12:restart-does-not-keep-loaded-entries:order:{feat}", "restart", case,
                      observed={"final_points": kfin[:12]}, expected={"loaded_points": kload[:12]})
    else:
        for x, vals in loaded:
            bad = [n_ for n_, v in vals.items() if n_ not in dfin[x] or not _same(v, dfin[x][n_])]
            if bad:
                rep.violation(f"C12:restart-does-not-keep-loaded-entries:values:{feat}", "restart", case,
                              observed={"x": x, "names": bad, "final": {n_: dfin[x].get(n_) for n_ in bad}},
                              expected={n_: vals[n_] for n_ in bad})
                break
    # ---- optimum at least as good as the best loaded one
    res = final.get("result")
    best = _feasible_best(loaded, base, final.get("ineq_tolerance", 0.0))
    if best is not None:
        rep.count("optimum_vs_loaded_checked")
        if res is None or res["f_opt"] is None or not res["is_feasible"] or not (res["f_opt"] <= best[0]):
            rep.violation(f"C12:restart-optimum-worse-than-best-loaded:{feat}", "restart", case,
                          observed=res, expected={"f_opt<=": best[0], "at": best[1]})
    # ---- clause 5: same history as the uninterrupted run
    same = (len(fin) == len(ref_entries) and all(
        xa == xb and set(va) == set(vb) and all(_same(va[n_], vb[n_]) for n_ in va)
        for (xa, va), (xb, vb) in zip(fin, ref_entries)))
    budget_free = mode == "keep" and chain_keeps_counter
    if base["deterministic"] and not budget_free and ref["stopped_by_max_iter"]:
        # default counter reset and a reference that exhausted max_iter: a longer history is legitimate
        rep.count("replay_clause_observed_default_reset_max_iter_reference")
        if not same:
            rep.observe("restart with the default reset_iteration_counters=True after a run ended by max_iter: the "
                        "reset counter gives a fresh budget and the history differs (outside the statement)",
                        {"config": base["name"], "n": len(fin), "n_ref": len(ref_entries)})
    elif base["deterministic"]:
        rep.count("replay_history_checked")
        if mode == "default":
            rep.count("replay_clause_judged_default_reset")
        lost = _lost_observable(base, fin, ref_entries, loaded) if not same else None
        if lost:
            # narrow mechanism: the point that was the last entry of the backup and had been exported before its
            # new-iteration observables were stored never receives them in the restarted run
            rep.violation(f"C12:restart-loses-new-iter-observable-of-last-backed-up-point:{gran}", "replay", case,
                          observed={"x": lost[0], "names_after_restart": lost[1], "names_in_backup": lost[3]},
                          expected={"names_in_uninterrupted_run": lost[2]})
        elif not same:
            if kfin != [x for x, _ in ref_entries]:
                what = "longer" if len(fin) > len(ref_entries) and kfin[:len(ref_entries)] == [x for x, _ in ref_entries] else (
                    "shorter" if kfin == [x for x, _ in ref_entries][:len(kfin)] else "points")
            else:
                what = "values"
            first = next((i for i, (a, b) in enumerate(zip(fin, ref_entries)) if a != b), min(len(fin), len(ref_entries)))
            rep.violation(f"C12:restart-history-differs-from-uninterrupted-run:{what}:{feat}", "replay", case,
                          observed={"n": len(fin), "first_difference_at": first,
                                    "entry": fin[first] if first < len(fin) else None},
                          expected={"n": len(ref_entries), "entry": ref_entries[first] if first < len(ref_entries) else None})
    else:
        rep.count("replay_history_compared_normalised")
        if not same:
            rep.count("replay_history_differs_normalised")
            rep.observe("normalised design space: history of crash+restart differs from the uninterrupted run "
                        "(outside the statement)", {"config": base["name"], "n": len(fin), "n_ref": len(ref_entries)})
        # DESIGN.md count bound (single-discipline configurations: one execution per stored point); the statement
        # does not promise it when stored values are not replayed exactly, hence an observation only
        if base["problem"]["kind"] == "single":
            rep.count("normalised_count_bound_evaluated")
            if n_exec > ref_K - len(loaded) + 1:
                rep.observe("normalised design space: restarted run executed more than reference - backed-up + 1",
                            {"config": base["name"], "restart_execs": n_exec, "reference": ref_K, "loaded": len(loaded)})


def _lost_observable(base, fin, ref_entries, loaded):
    """Recognise one mechanism: the histories agree everywhere except that the observable (and nothing else) is
    missing at the last loaded point (and at points that were last in an earlier backup), whose backup entry did
    not hold the observable."""
    if not base.get("observable") or not loaded or len(fin) != len(ref_entries):
        return None
    diff = []
    for i, ((xa, va), (xb, vb)) in enumerate(zip(fin, ref_entries)):
        if xa != xb or any(n_ in vb and not _same(va[n_], vb[n_]) for n_ in va) or set(va) - set(vb):
            return None
        if set(vb) - set(va):
            diff.append(i)
    # the last loaded point, plus (crash, restart, crash again) the points that were last in an earlier backup
    if not diff or diff[-1] > len(loaded) - 1:
        return None
    for i in diff:
        if not set(ref_entries[i][1]) - set(fin[i][1]) <= {"o", "@o"} or "o" in loaded[i][1]:
            return None
    i = diff[-1]
    return fin[i][0], sorted(fin[i][1]), sorted(ref_entries[i][1]), sorted(loaded[i][1])


def judge_final_backup(base, rep, backup_path, final):
    """Observation only (a completed run is outside the statement): final file == final database?"""
    try:
        from gemseo.algos.database import Database

        db = Database.from_hdf(backup_path, log=False)
    except Exception as e:
        rep.observe("backup of a completed run cannot be loaded", {"config": base["name"], "error": repr(e)})
        return
    got = [(tuple(np.asarray(x.wrapped_array, dtype=float).tolist()),
            {k: np.asarray(v, dtype=float).ravel().tolist() for k, v in vals.items()}) for x, vals in db.items()]
    fin = _final_entries(final)
    rep.count("completed_run_backups_compared")
    if [x for x, _ in got] != [x for x, _ in fin] or any(set(a[1]) != set(b[1]) for a, b in zip(got, fin)):
        rep.count("completed_run_backup_incomplete")
        rep.observe("backup file of a completed run lacks the last stored outputs (completed runs are outside the statement)",
                    {"config": base["name"], "granularity": base["granularity"], "file_entries": len(got),
                     "database_entries": len(fin),
                     "last_file_names": sorted(got[-1][1]) if got else None,
                     "last_database_names": sorted(fin[len(got) - 1][1]) if got and len(fin) >= len(got) else None})


# --------------------------------------------------------------------------- experiments
def crash_points(K, tier):
    if K <= 0:
        return []
    if tier == "thorough":
        return list(range(1, K + 1))
    # quick: every ceil(K/8)-th crash point, and always the first two and the last three (start-up and
    # termination are where restart protocols go wrong)
    step = math.ceil(K / 8)
    pts = set(range(step, K + 1, step)) | {1, 2} | {K - 2, K - 1, K}
    return sorted(k for k in pts if 1 <= k <= K)


def _stop_reason(base, final):
    """How the uninterrupted run ended: "max_iter", "gemseo_ftol_xtol", "algorithm" (its own convergence test or
    any other reason), or "doe" (all samples evaluated)."""
    if base["scenario"] == "doe":
        return "doe"
    msg = ((final.get("result") or {}).get("message") or "")
    max_iter = base["algo_settings"]["max_iter"]
    if "aximum number of iterations" in msg or final.get("counter_end", 0) >= max_iter \
            or len(final.get("database", [])) >= max_iter:
        return "max_iter"
    if "ftol_rel or ftol_abs" in msg or "xtol_rel or xtol_abs" in msg:
        return "gemseo_ftol_xtol"
    return "algorithm"


def reference(base, scratch, rep):
    scratch = Path(scratch)
    rc, events, final = _run_child(base, scratch, "ref", backup=scratch / "ref.h5", load=False, crash_at=0, rep=rep)
    if rc != 0 or final is None or final.get("error"):
        rep.inconclusive(f"reference run of {base['name']} failed: rc={rc} {final and final.get('error')}")
        raise ChildTrouble("reference")
    rep.count("reference_runs")
    why = _stop_reason(base, final)
    return {"K": final["n_exec"], "entries": _final_entries(final), "final": final, "events": events,
            "stop_reason": why, "stopped_by_max_iter": why == "max_iter"}


def experiment(base, ref, scratch, rep, *, k, k1=None, mid_mode="keep", first_dir=None):
    """One crash point.  ``k1 is None``: file initially absent; else the file is the backup of a first crash k1 and
    the run that dies at its k-th execution is itself a restart (``mid_mode``).  What the crash leaves is then
    restarted in both modes (two copies of the backup, one child interpreter)."""
    scratch = Path(scratch)
    scratch.mkdir(parents=True, exist_ok=True)
    kind = "absent" if k1 is None else "prefilled"
    case = {"base": base, "kind": kind, "k": k, "k1": k1, "mid_mode": mid_mode}
    work = scratch / "work.h5"
    if work.exists():
        work.unlink()
    loaded = None
    if k1 is not None:
        first = Path(first_dir or scratch) / f"first_{k1}_{mid_mode}.h5"
        if first.exists():
            shutil.copy(first, work)
            try:
                loaded = load_backup(first, _Quiet(rep), base, case)
            except Unloadable:  # reported by the owner of the ("absent", k1) crash point
                return
    tag = f"crash_{kind}_{k1}_{k}"
    rc, events, final = _run_child(base, scratch, tag, backup=work, load=k1 is not None, crash_at=k, rep=rep,
                                   mode=mid_mode)
    if rc != EXIT_CRASH:
        rep.count("crash_point_beyond_run")
        rep.inconclusive(f"{base['name']}: crash point {k} ({kind}) was not reached (run ended after {final and final.get('n_exec')} executions)")
        return
    execs = [e for e in events if e.get("ev") == "exec"]
    rep.case((base["name"], kind, k1, mid_mode if k1 is not None else None, k), True)
    rep.count("crash_points")
    rep.count(f"crash_points_{kind}")
    rep.count(f"crash_in_{execs[-1]['disc']}" if execs else "crash_in_?")
    if k1 is None:
        if k <= 2:
            rep.count("crash_points_among_first_two")
        if k > ref["K"] - 3:
            rep.count("crash_points_among_last_three")
    # a second-crash backup is compared with the uninterrupted history unless the dying restart had a fresh budget
    # that the reference had exhausted (it then legitimately runs past the reference)
    with_ref = k1 is None or (base["deterministic"] and (mid_mode == "keep" or not ref["stopped_by_max_iter"]))
    got = judge_backup(base, case, rep, backup_path=work, events=events, loaded=loaded, ref_entries=ref["entries"],
                       compare_with_ref=with_ref)
    if got is None:
        return
    if got:
        rep.count("crash_points_with_backup")
    # restart from what the crash left, once per restart mode
    backups = {}
    for m_ in MODES:
        backups[m_] = scratch / f"work_{m_}.h5"
        if backups[m_].exists():
            backups[m_].unlink()
        if work.exists():
            shutil.copy(work, backups[m_])
    runs = _run_restarts(base, scratch, f"restart_{kind}_{k1}_{k}", backups=backups, rep=rep)
    for m_, (events2, final2) in runs.items():
        judge_restart(base, case, rep, loaded=got, events=events2, final=final2, ref=ref, mode=m_,
                      chain_keeps_counter=mid_mode == "keep")
        if not final2.get("error"):
            judge_final_backup(base, rep, backups[m_], final2)
    final2 = runs["keep"][1]
    if len(rep.samples) < 2:
        rep.sample({"config": base["name"], "kind": kind, "k1": k1, "k": k, "K": ref["K"],
                    "reference_ended_by": ref["stop_reason"],
                    "backup_entries": len(got), "last_backup_names": sorted(got[-1][1]) if got else None,
                    "restart_executions": {m_: r[1].get("n_exec") for m_, r in runs.items()},
                    "final_entries": {m_: len(r[1].get("database", [])) for m_, r in runs.items()},
                    "reference_entries": len(ref["entries"]),
                    "note": "crash in k-th discipline execution -> backup judged -> restart judged in both modes"})


class _Quiet:
    """Reporter proxy used when a file already judged is loaded again (no double counting)."""

    def __init__(self, rep):
        self._rep = rep

    def count(self, *a, **k):
        pass

    def violation(self, *a, **k):
        pass

    def __getattr__(self, name):
        return getattr(self._rep, name)


def first_crash_points(K, tier):
    if K < 3:
        return []
    if tier == "thorough":
        a = max(2, K // 3)
        b = max(a + 1, (2 * K) // 3)
        return [a, b] if b <= K else [a]
    return [max(2, K // 2)]


def prepare_prefill(base, ref, scratch, rep, k1, mid_mode="keep"):
    """Crash at k1 from scratch and measure K2, the executions of the uninterrupted restart (``mid_mode``) from
    that backup."""
    scratch = Path(scratch)
    first = scratch / f"first_{k1}_{mid_mode}.h5"
    tmp = scratch / "prefill_work.h5"
    for p in (first, tmp):
        if p.exists():
            p.unlink()
    rc, _, _ = _run_child(base, scratch, f"prefill_{k1}", backup=first, load=False, crash_at=k1, rep=rep)
    if rc != EXIT_CRASH:
        rep.inconclusive(f"{base['name']}: first crash point {k1} not reached")
        raise ChildTrouble("prefill")
    if first.exists():
        shutil.copy(first, tmp)
    rc, _, final = _run_child(base, scratch, f"prefill_restart_{k1}", backup=tmp, load=True, crash_at=0, rep=rep,
                              mode=mid_mode)
    rep.count("prefill_setups")
    if final.get("error"):
        return 0  # judged (and reported) by the owner of the ("absent", k1) item
    return int(final["n_exec"])


def _mid_mode(spec):
    """Restart mode of the run that dies in the pre-filled variant: thorough = keep for the first k1, default for
    the second; quick = default for the function-call configuration, keep for the others."""
    if spec.get("tier") == "thorough":
        return MODES[spec.get("k1_index", 0) % 2]
    return "default" if spec.get("config") == "mdo-disc-slsqp-call" else "keep"


def run_config(base, spec, rep, tier):
    """One slice of one part of a configuration.

    part "absent": crash points k of the uninterrupted run, file initially absent.
    part "prefill": first crash at the ``k1_index``-th first-crash point, then the crash points k2 of the restarted run.
    """
    scratch = Path(spec["scratch"])
    j, J = spec.get("slice", 0), spec.get("n_slices", 1)
    part = spec.get("part", "absent")
    ref = reference(base, scratch, rep)
    K = ref["K"]
    mid_mode = "keep"
    if part == "absent":
        items = [("absent", None, k) for k in crash_points(K, tier)]
        if j == 0:
            rep.count("configurations")
            rep.count("reference_executions_K", K)
            rep.count(f"references_ended_by_{ref['stop_reason']}")
            if base["scenario"] == "mdo" and base["deterministic"] and ref["stop_reason"] == "gemseo_ftol_xtol":
                rep.count("deterministic_mdo_references_ended_by_gemseo_ftol_xtol")
            judge_final_backup(base, rep, scratch / "ref.h5", ref["final"])
    else:
        k1s = first_crash_points(K, tier)
        if spec["k1_index"] >= len(k1s):
            rep.count("prefill_part_without_first_crash_point")
            return
        k1 = k1s[spec["k1_index"]]
        mid_mode = _mid_mode(spec)
        K2 = prepare_prefill(base, ref, scratch, rep, k1, mid_mode)
        items = [("prefilled", k1, k2) for k2 in _prefill_points(K2, tier)]
        if j == 0:
            rep.count("prefilled_first_crashes")
            rep.count(f"prefilled_first_crashes_restarted_in_{mid_mode}_mode")
            rep.count("restart_executions_K2", K2)
    if j == 0:
        rep.count("crash_points_total", len(items))
    mine = [it for i, it in enumerate(items) if i % J == j]

    def one(item):
        kind, k1, k = item
        if rep.time_left() < 0:
            rep.count("stopped_on_time_budget")
            return
        try:
            experiment(base, ref, scratch / f"x_{kind}_{k1}_{k}", rep, k=k, k1=k1, mid_mode=mid_mode, first_dir=scratch)
        except ChildTrouble:
            return
        rep.count("crash_points_enumerated")

    _run_items(one, mine, spec.get("workers", 1))


def _run_items(fn, items, workers):
    if workers <= 1 or len(items) <= 1:
        for it in items:
            fn(it)
        return
    with ThreadPoolExecutor(max_workers=workers) as ex:
        list(ex.map(fn, items))  # re-raises the first exception of a worker (harness error => inconclusive)


def _prefill_points(K2, tier):
    if tier == "thorough":
        return list(range(1, K2 + 1))
    if K2 <= 0:
        return []
    step = math.ceil(K2 / 3)
    return list(range(step, K2 + 1, step))


# --------------------------------------------------------------------------- directed cases
def directed(spec, rep, tier):
    """Fixed corners (shard 0 only), each restarted in both modes:

    A. a run ended by ``max_iter`` (=6): crash in the very first execution (no file yet, restart with load=True on
       an absent file) and in the last one; the restored counter is decisive in "keep" mode, the default mode gets
       a fresh budget (observation);
    B. the same problem with a budget it does not exhaust (ended by a tolerance criterion): crash in each of the
       last two executions; both modes must end with the uninterrupted history.
    """
    scratch = Path(spec["scratch"]) / "directed"
    scratch.mkdir(exist_ok=True)
    jobs = []
    for label, max_iter in (("A", 6), ("B", 60)):
        base = make_case("mdo-disc-slsqp-call", 12345)
        base["name"] = f"directed{label}:mdo-disc-slsqp-call:max_iter={max_iter}"
        base["algo_settings"]["max_iter"] = max_iter
        sub = scratch / label
        sub.mkdir(exist_ok=True)
        ref = reference(base, sub, rep)
        rep.count(f"directed_references_ended_by_{ref['stop_reason']}")
        if ref["stop_reason"] == "gemseo_ftol_xtol":
            rep.count("deterministic_mdo_references_ended_by_gemseo_ftol_xtol")
        ks = sorted({1, ref["K"]}) if label == "A" else sorted({max(1, ref["K"] - 1), ref["K"]})
        jobs += [(base, ref, sub, k) for k in ks]

    def one(job):
        base, ref, sub, k = job
        try:
            experiment(base, ref, sub / f"x_{k}", rep, k=k)
        except ChildTrouble:
            return
        rep.count("directed_cases")

    _run_items(one, jobs, spec.get("workers", 1))


# --------------------------------------------------------------------------- entry points
def run_shard(spec, rep):
    tier = spec.get("tier", "quick")
    rep._c12_monitor = _find_monitor()  # must be looked up in the main thread
    if spec.get("workers", 1) > 1:
        rep = _LockedRep(rep)
    if spec["config"] is None:
        try:
            directed(spec, rep, tier)
        except ChildTrouble:
            pass
        return
    base = make_case(spec["config"], spec["seed"])
    try:
        run_config(base, spec, rep, tier)
    except ChildTrouble:
        pass


def coverage_extra(tier, counters):
    total = counters.get("crash_points_total", 0)
    done = counters.get("crash_points_enumerated", 0)
    out = {"crash_points_planned": total, "crash_points_enumerated": done}
    clean = not any(counters.get(k, 0) for k in ("stopped_on_time_budget", "child_timeouts", "children_died_unexpectedly",
                                                  "crash_point_beyond_run"))
    if tier == "thorough" and total > 0 and done == total and clean and counters.get("configurations", 0) == len(CONFIGS) \
            and counters.get("prefilled_first_crashes", 0) >= 2 * len(CONFIGS) \
            and not counters.get("prefill_part_without_first_crash_point", 0):
        out["exhaustive"] = True
        out["exhaustive_scope"] = (
            f"all K crash points (process death inside the k-th harness-discipline execution, k=1..K) of the "
            f"uninterrupted run of each of the {len(CONFIGS)} configurations with the file initially absent, and all "
            f"K2 second crash points of the restarted run for the pre-filled file left by first crashes at "
            f"k1 = K//3 (restarted with reset_iteration_counters=False) and 2K//3 (restarted with the default counter "
            f"reset) ({done} crash points in total), every crash point being restarted in both modes; not exhaustive "
            f"over problems, algorithms or k1")
    return out


def replay(case, rep):
    scratch = Path(rep.spec["scratch"])
    base = case["base"]
    ref = reference(base, scratch, rep)
    mid = case.get("mid_mode", "keep")
    if case.get("k1") is not None:
        prepare_prefill(base, ref, scratch, rep, case["k1"], mid)
    experiment(base, ref, scratch / "x", rep, k=case["k"], k1=case.get("k1"), mid_mode=mid, first_dir=scratch)
