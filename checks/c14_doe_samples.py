"""C14 — DOE samples honour bounds, types, sample count and seed.

Monitors: (M3) return values of ``compute_doe`` (physical and ``unit_sampling=True``), ``library.samples`` /
``library.unit_samples`` / database keys / harness-function call log after ``execute``; (M4) an independent
reference for the documented sample count of every algorithm and for the unit-cube -> design-space map
(affine map + integer rounding, written here, nothing imported from ``gemseo.algos.design_space``);
(M8) anchors.  See DESIGN.md section 3, C14.
"""

from __future__ import annotations

import copy
import math
import os

import numpy as np

from vlib.harness import subseed

PID = "C14"
LEVEL = "exploration"
RULE = (
    "seeded generator over (DOE algorithm of the factory, design space with 1-5 variables of size 1-3 whose d "
    "components get pairwise disjoint intervals of widths 1e-3..1e4 in a shuffled order, float / integer / mixed "
    "types incl. integer ranges of width 0-3, with or without current values, integer-normalisation flag initially "
    "off/on, algorithm settings (n_samples in {1,2,3,7,16,50,...} or levels/centers grids, library-specific options), "
    "seed in {None,0,1,12345}, compute_doe or execute on a trivial problem); a case is distinct by (algorithm, "
    "dimension, type pattern, setting names and categorical values, requested count, seed kind, mode) and non-trivial "
    "when a design with at least two rows was generated (refusals with the documented error are counted apart)"
)
ASSUMPTIONS = [
    "the documented sample counts were derived by reading the settings/docstrings of gemseo.algos.doe (and of "
    "pyDOE3/OpenTURNS where gemseo defers to them): n_samples; k^d with k the largest integer with k^d<=n "
    "(full-factorial); 1+L*2d / 1+L*2^d / 1+L*(2d+2^d) with L=(n-1)//block or len(levels) (axial/factorial/composite); "
    "N*(d+2) or N*(2d+2) with N=n//block (Sobol' indices, OpenTURNS convention: 2d+2 when second order and d!=2); "
    "r*(d+1) (Morris), d+1 (OAT), given rows (custom), 2^d, 4*(d//4+1), 2d(d-1)+center, 2^d+2d+sum(center) (pyDOE)",
    "bounds tolerance eps=1e-12*(1+|bound|); at exact rounding ties any nearest integer is accepted",
    "PoissonDisk (not in the property's list, packing-limited by its radius) is only required to return at most "
    "n_samples; OAT/Morris relative steps are restricted to ]0,0.5] (beyond, no in-bounds step exists)",
    "third-party preconditions are modelled as refusals: SciPy's Lloyd optimisation needs d>=2 and n>=d+1 (Voronoi), "
    "LHS strength 2 needs n=p^2 with p prime and d<=p+1, pyDOE3's maximin needs n>=2 and its correlation criterion "
    "d>=2 and n>=3",
    "the pyDOE structured designs BBDESIGN/CCDESIGN/FF2N/PBDESIGN are outside the property's list: count, "
    "column order (image of the unit samples) and determinism only",
]
ANCHORS = [
    "gemseo.algos.doe.base_doe_library:BaseDOELibrary.compute_doe",
    "gemseo.algos.doe.base_doe_library:BaseDOELibrary._pre_run",
    "gemseo.algos.doe.base_doe_library:BaseDOELibrary.__enable_integer_variables_normalization",
    "gemseo.algos.doe.base_doe_library:BaseDOELibrary.__reset_integer_variables_normalization",
    "gemseo.algos.doe.base_doe_library:BaseDOELibrary.__convert_unit_samples_to_samples",
    "gemseo.algos.design_space:DesignSpace.unnormalize_vect",
    "gemseo.algos.design_space:DesignSpace.round_vect",
    "gemseo.utils.seeder:Seeder.get_seed",
    "gemseo.algos.doe.scipy.scipy_doe:SciPyDOE._generate_unit_samples",
    "gemseo.algos.doe.openturns.openturns:OpenTURNS._generate_unit_samples",
    "gemseo.algos.doe.pydoe.pydoe:PyDOELibrary._generate_unit_samples",
    "gemseo.algos.doe.diagonal_doe.diagonal_doe:DiagonalDOE._generate_unit_samples",
    "gemseo.algos.doe.morris_doe.morris_doe:MorrisDOE._generate_unit_samples",
    "gemseo.algos.doe.oat_doe.oat_doe:OATDOE._generate_unit_samples",
    "gemseo.algos.doe.custom_doe.custom_doe:CustomDOE._generate_unit_samples",
    "gemseo.algos.doe.base_full_factorial_doe:BaseFullFactorialDOE._compute_fullfact_levels",
    "gemseo.algos.doe.openturns._algos.base_ot_stratified_doe:BaseOTStratifiedDOE.generate_samples",
    "gemseo.algos.doe.openturns._algos.ot_sobol_doe:OTSobolDOE.generate_samples",
]
# about 40 % of what a complete seed-0 run observes (quick: 19.9k cases, thorough: 337k cases); the margin below one
# half leaves room for shards that stop on their time budget on a loaded machine
MIN_COUNTERS = {
    "quick": {"designs_judged": 7400, "count_oracle_evaluations": 7400, "count_checked_against_request": 5200,
              "bounds_rows_checked": 340000, "integer_rows_checked": 230000, "designs_with_integer_variables": 4800,
              "unit_oracle_evaluations": 7400, "image_rows_checked": 340000,
              "reproducibility_oracle_evaluations": 7400, "same_instance_repeats_with_explicit_seed": 2300,
              "flag_oracle_evaluations": 7400, "execute_oracle_evaluations": 2100, "database_rows_checked": 76000,
              "execute_image_rows_checked": 96000, "custom_rows_compared": 1500, "refusals": 500,
              "directed_cases": 600},
    "thorough": {"designs_judged": 120000, "count_oracle_evaluations": 120000,
                 "count_checked_against_request": 88000, "bounds_rows_checked": 5700000,
                 "integer_rows_checked": 3900000, "designs_with_integer_variables": 82000,
                 "unit_oracle_evaluations": 120000, "image_rows_checked": 5700000,
                 "reproducibility_oracle_evaluations": 120000, "same_instance_repeats_with_explicit_seed": 39000,
                 "flag_oracle_evaluations": 120000, "execute_oracle_evaluations": 37000,
                 "database_rows_checked": 1200000, "execute_image_rows_checked": 1600000,
                 "custom_rows_compared": 26000, "refusals": 8500, "directed_cases": 600},
}
SHARD_TIMEOUT = {"quick": 400, "thorough": 2400}

SEEDS = [None, 0, 1, 12345]
N_CHOICES = [1, 2, 3, 7, 16, 50, 4, 9, 25, 64, 100]

SCIPY = ["Halton", "LHS", "MC", "PoissonDisk", "Sobol"]
OT_NEXACT = ["OT_SOBOL", "OT_RANDOM", "OT_HASELGROVE", "OT_REVERSE_HALTON", "OT_HALTON", "OT_FAURE",
             "OT_MONTE_CARLO", "OT_OPT_LHS", "OT_LHS", "OT_LHSC"]
OT_STRATIFIED = {"OT_AXIAL": lambda d: 2 * d, "OT_FACTORIAL": lambda d: 2 ** d,
                 "OT_COMPOSITE": lambda d: 2 * d + 2 ** d}
FULLFACT = ["OT_FULLFACT", "PYDOE_FULLFACT"]
OUTSIDE_LIST = ["PYDOE_BBDESIGN", "PYDOE_CCDESIGN", "PYDOE_FF2N", "PYDOE_PBDESIGN"]
N_EXACT = set(SCIPY) - {"PoissonDisk"} | set(OT_NEXACT) | {"PYDOE_LHS", "DiagonalDOE"}
ALGOS = (["CustomDOE", "DiagonalDOE", "MorrisDOE", "OATDOE"] + OT_NEXACT + list(OT_STRATIFIED) + FULLFACT
         + ["OT_SOBOL_INDICES", "PYDOE_LHS"] + OUTSIDE_LIST + SCIPY)
for _t, _k in (("quick", 40), ("thorough", 700)):  # mapping forms of CustomDOE with keys not in design-space order
    MIN_COUNTERS[_t]["custom_designs_with_shuffled_keys:dict2d"] = _k
    MIN_COUNTERS[_t]["custom_designs_with_shuffled_keys:listdict"] = _k
    MIN_COUNTERS[_t]["custom_designs_with_shuffled_keys_and_mixed_sizes"] = _k
# second generations on a design space that was sampled and then edited (about half of seed 0; thorough scaled by rounds)
for _t, _f in (("quick", 1), ("thorough", 17)):
    MIN_COUNTERS[_t]["second_generations_after_edit"] = 2000 * _f
    MIN_COUNTERS[_t]["second_generations_after_edit:int_norm=on"] = 1000 * _f
    MIN_COUNTERS[_t]["second_generations_after_edit:int_norm=off"] = 1000 * _f
    MIN_COUNTERS[_t]["edit:ub-tighten"] = 650 * _f
    for _k in ("ub-widen", "lb-tighten", "lb-widen", "add", "remove", "rename", "toggle", "value"):
        MIN_COUNTERS[_t][f"edit:{_k}"] = 280 * _f
for _a in ALGOS:  # every algorithm of the factory must have produced designs
    MIN_COUNTERS["quick"][f"designs:{_a}"] = 190
    MIN_COUNTERS["thorough"][f"designs:{_a}"] = 3000
SEED_KEY = {**{a: "seed" for a in SCIPY + OT_NEXACT + list(OT_STRATIFIED) + ["OT_FULLFACT", "OT_SOBOL_INDICES"]},
            "PYDOE_LHS": "random_state"}
RANDOMISED = {"Halton", "LHS", "MC", "PoissonDisk", "Sobol", "OT_RANDOM", "OT_MONTE_CARLO", "OT_OPT_LHS", "OT_LHS",
              "OT_LHSC", "OT_SOBOL_INDICES", "PYDOE_LHS", "MorrisDOE"}
MORRIS_SUB = ["PYDOE_LHS", "PYDOE_LHS", "OT_HALTON", "MC", "LHS", "OT_MONTE_CARLO", "OT_FULLFACT", "OT_LHSC"]
CATEGORICAL = ("criterion", "optimization", "face", "alpha", "hypersphere", "temperature", "doe_algo_name",
               "scramble", "annealing", "eval_second_order", "strength", "form")


def shards(tier, seed):
    n = 16
    rounds = {"quick": 40, "thorough": 700}[tier]
    return [{"seed": subseed(seed, PID, i), "rounds": rounds,
             "budget_s": {"quick": 250, "thorough": 1800}[tier]} for i in range(n)]


# --------------------------------------------------------------------------- reference models
def iroot(n, d):
    """Largest integer k with k**d <= n (exact integer arithmetic)."""
    k = max(int(round(n ** (1.0 / d))), 1)
    while k ** d > n:
        k -= 1
    while (k + 1) ** d <= n:
        k += 1
    return k


def is_prime(p):
    return p >= 2 and all(p % q for q in range(2, int(math.isqrt(p)) + 1))


def refuse(why):
    return {"kind": "refuse", "why": why}


def exact(n, requested=None):
    return {"kind": "exact", "n": int(n), "requested": requested}


def model(algo, d, st):
    """Documented outcome of (algorithm, dimension, settings): a refusal or a row count."""
    n = st.get("n_samples")
    req = n if n else None
    if algo in N_EXACT:
        if n is None and algo == "DiagonalDOE":
            n = 2
        if n is None or n < 1:
            return refuse("n_samples must be positive")
        if algo in ("OT_OPT_LHS", "DiagonalDOE") and n < 2:
            return refuse("n_samples >= 2 required")
        if algo == "PYDOE_LHS" and st.get("random_state") is not None and st["random_state"] <= 0:
            return refuse("random_state must be positive")
        if algo == "PYDOE_LHS":
            crit = st.get("criterion")
            if crit in ("maximin", "m", "centermaximin", "cm") and n < 2:
                return refuse("pyDOE3: the maximin criterion needs two points")
            if crit in ("correlation", "corr") and (n < 3 or d < 2):
                return refuse("pyDOE3: the correlation criterion needs d>=2 and non-degenerate correlations (n>=3)")
        if st.get("optimization") == "lloyd" and (d < 2 or n < d + 1):
            return refuse("SciPy's Lloyd optimisation needs a Voronoi diagram: d>=2 and n>=d+1")
        if algo == "LHS" and st.get("strength", 1) == 2:
            p = math.isqrt(n)
            if p * p != n or not is_prime(p) or d > p + 1:
                return refuse("strength 2 needs n=p^2, p prime, d<=p+1")
        return exact(n, n)
    if algo == "PoissonDisk":
        if n is None or n < 1:
            return refuse("n_samples must be positive")
        return {"kind": "atmost", "n": n, "requested": n}
    if algo in FULLFACT:
        levels = st.get("levels")
        if not n and not levels:
            return refuse("either n_samples or levels")
        if n and levels:
            return refuse("only one of n_samples and levels")
        if n:
            return exact(iroot(n, d) ** d, n)
        if isinstance(levels, int):
            return exact(levels ** d)
        if len(levels) != d:
            return {"kind": "unspecified"}
        return exact(int(np.prod(levels)))
    if algo in OT_STRATIFIED:
        block = OT_STRATIFIED[algo](d)
        if n:
            nl = (n - 1) // block
            if nl < 1:
                return refuse("too few samples")
            return exact(1 + nl * block, n)
        levels = st.get("levels", [])
        centers = st.get("centers", 0.5)
        if isinstance(centers, list) and len(centers) not in (1, d):
            return refuse("number of centers")
        cs = centers if isinstance(centers, list) else [centers]
        if any(not 0 < c < 1 for c in cs):
            return refuse("centers in ]0,1[")
        if any(not 0 < lv <= 1 for lv in levels):
            return refuse("levels in ]0,1]")
        return exact(1 + len(levels) * block)
    if algo == "OT_SOBOL_INDICES":
        if n is None or n < 1:
            return refuse("n_samples must be positive")
        block = 2 * d + 2 if (st.get("eval_second_order", True) and d != 2) else d + 2
        if n // block < 1:
            return refuse("too few samples")
        return exact((n // block) * block, n)
    if algo == "MorrisDOE":
        sub = st.get("doe_algo_name", "PYDOE_LHS")
        sub_st = st.get("doe_algo_settings", {})
        if n:
            r = n // (d + 1)
            if r == 0:
                return refuse("n_samples < d+1")
        elif "n_samples" in sub_st:
            r = sub_st["n_samples"]
        else:
            return {"kind": "multiple", "of": d + 1, "requested": None}
        if sub in FULLFACT:
            r = iroot(r, d) ** d
        return exact(r * (d + 1), req)
    if algo == "OATDOE":
        return exact(d + 1)
    if algo == "CustomDOE":
        return exact(len(st["rows"]))
    if algo == "PYDOE_FF2N":
        return exact(2 ** d)
    if algo == "PYDOE_PBDESIGN":
        return exact(4 * (d // 4 + 1))
    if algo == "PYDOE_BBDESIGN":
        if d < 3:
            return refuse("minimum dimension 3")
        if st.get("center") is None:
            return {"kind": "atleast", "n": 2 * d * (d - 1) + 1, "requested": None}
        return exact(2 * d * (d - 1) + st["center"])
    if algo == "PYDOE_CCDESIGN":
        if d < 2:
            return refuse("minimum dimension 2")
        c = st.get("center", [4, 4])
        return exact(2 ** d + 2 * d + c[0] + c[1])
    raise KeyError(algo)


def bounds_of(space):
    lb = np.concatenate([np.asarray(v["lb"], dtype=float) for v in space])
    ub = np.concatenate([np.asarray(v["ub"], dtype=float) for v in space])
    is_int = np.concatenate([[v["type"] == "integer"] * v["size"] for v in space])
    return lb, ub, is_int


def ref_affine(unit, lb, ub):
    """The design-space image of unit-cube samples before integer rounding (independent of gemseo)."""
    return lb + np.asarray(unit, dtype=float) * (ub - lb)


# --------------------------------------------------------------------------- generation
def _r(x):
    return float(f"{x:.4g}")


def gen_space(rng, d_max=None):
    for _ in range(60):
        nvar = int(rng.integers(1, 6))
        sizes = [int(rng.choice([1, 1, 2, 3])) for _ in range(nvar)]
        if d_max is None or sum(sizes) <= d_max:
            break
    else:
        nvar, sizes = 1, [min(d_max, 2)]
    d = sum(sizes)
    tmode = str(rng.choice(["float", "mixed", "mixed", "integer"]))
    types = []
    for _ in range(nvar):
        if tmode == "mixed":
            types.append(str(rng.choice(["float", "integer"])))
        else:
            types.append(tmode)
    comp_types = [t for t, s in zip(types, sizes) for _ in range(s)]
    # pairwise disjoint intervals, assigned to the components in a shuffled order
    order = rng.permutation(d)
    lb, ub = np.zeros(d), np.zeros(d)
    cursor = _r(rng.uniform(-3000, 100))
    for c in order:
        gap = _r(10 ** rng.uniform(-2, 2.5))
        if comp_types[c] == "integer":
            lo = float(math.ceil(cursor + gap))
            width = float(rng.choice([0, 1, 1, 2, 3, 3, 5, 10, 100, 1000]))
        else:
            lo = _r(cursor + gap)
            if lo <= cursor:
                lo = cursor + gap
            width = _r(10 ** rng.uniform(-3, 4))
        lb[c], ub[c] = lo, lo + width
        cursor = lo + width
    names = list(rng.permutation(["x", "y", "zz", "alpha", "b_2", "k", "long_name"]))[:nvar]
    with_values = bool(rng.random() < 0.3)
    space, o = [], 0
    for name, size, type_ in zip(names, sizes, types):
        v = {"name": str(name), "size": size, "type": type_, "lb": lb[o:o + size].tolist(),
             "ub": ub[o:o + size].tolist()}
        if with_values:
            v["value"] = (lb[o:o + size].tolist() if type_ == "integer"
                          else ((lb[o:o + size] + ub[o:o + size]) / 2).tolist())
        space.append(v)
        o += size
    return space


def space_dim(space):
    return sum(v["size"] for v in space)


def type_pattern(space):
    ts = {v["type"] for v in space}
    return "mixed" if len(ts) > 1 else ts.pop()


D_MAX = {"PoissonDisk": 3, "PYDOE_FF2N": 10, "PYDOE_CCDESIGN": 9, "OT_FACTORIAL": 9, "OT_COMPOSITE": 9}


def _optimization(rng, d, n):
    """A SciPy post-optimisation scheme that stays cheap (Lloyd builds a d-dimensional Voronoi diagram)."""
    opts = ["random-cd"] if n * d <= 200 else []
    if d <= 4:
        opts.append("lloyd")
    return str(rng.choice(opts)) if opts else "random-cd"


def gen_settings(rng, algo, space):
    d = space_dim(space)
    lb, ub, is_int = bounds_of(space)
    st = {}
    n = int(rng.choice(N_CHOICES[:6] if rng.random() < 0.8 else N_CHOICES))
    seed = SEEDS[int(rng.integers(4))]
    if algo in N_EXACT or algo == "PoissonDisk":
        st["n_samples"] = n
        if algo == "DiagonalDOE":
            if rng.random() < 0.5:
                names = [v["name"] for v in space]
                st["reverse"] = sorted({str(rng.choice(names)) if rng.random() < 0.5 else str(int(rng.integers(d)))
                                        for _ in range(int(rng.integers(1, 3)))})
        elif algo == "Halton":
            st["scramble"] = bool(rng.random() < 0.7)
            if d >= 2 and rng.random() < 0.06:
                st["optimization"] = _optimization(rng, d, n)
        elif algo == "Sobol":
            st["scramble"] = bool(rng.random() < 0.7)
            if rng.random() < 0.3:
                st["bits"] = int(rng.choice([16, 30, 32, 64]))
            if d >= 2 and rng.random() < 0.06:
                st["optimization"] = _optimization(rng, d, n)
        elif algo == "LHS":
            st["scramble"] = bool(rng.random() < 0.7)
            r = rng.random()
            if r < 0.2:
                st["strength"] = 2
                cands = [p for p in (2, 3, 5, 7) if d <= p + 1]
                if cands and rng.random() < 0.85:
                    st["n_samples"] = int(rng.choice(cands)) ** 2
            elif r < 0.27 and d >= 2:
                st["optimization"] = _optimization(rng, d, n)
        elif algo == "PoissonDisk":
            st["radius"] = float(rng.choice([0.05, 0.05, 0.1, 0.3]))
            st["hypersphere"] = str(rng.choice(["volume", "surface"]))
            st["ncandidates"] = int(rng.choice([10, 30]))
        elif algo == "OT_OPT_LHS":
            st["annealing"] = bool(rng.random() < 0.6)
            if st["annealing"]:
                st["criterion"] = str(rng.choice(["C2", "PhiP", "MinDist"]))
                st["temperature"] = str(rng.choice(["Geometric", "Linear"]))
            else:
                st["n_replicates"] = int(rng.choice([1, 5, 20]))
        elif algo == "PYDOE_LHS":
            crits = [None, None, "center", "c", "maximin", "m", "centermaximin", "cm", "lhsmu"]
            if d >= 2:
                crits += ["correlation", "corr"]
            crit = crits[int(rng.integers(len(crits)))]
            if crit == "lhsmu" and n > 16:
                crit = None
            if crit is not None:
                st["criterion"] = crit
                if crit in ("maximin", "m", "centermaximin", "cm", "correlation", "corr"):
                    st["iterations"] = int(rng.integers(1, 6))
    elif algo in FULLFACT:
        if rng.random() < 0.6:
            st["n_samples"] = int(rng.choice([1, 2, 3, 7, 8, 9, 16, 27, 50, 64, 100, 125, 243, 1000, 1024]))
        elif rng.random() < 0.3:
            k = int(rng.integers(1, 5))
            while k ** d > 4000:
                k -= 1
            st["levels"] = k
        else:
            lv, prod = [], 1
            for _ in range(d):
                k = int(rng.integers(1, 5))
                if prod * k > 3000:
                    k = 1
                prod *= k
                lv.append(k)
            st["levels"] = [int(v) for v in rng.permutation(lv)]
    elif algo in OT_STRATIFIED:
        block = OT_STRATIFIED[algo](d)
        if rng.random() < 0.55:
            r = rng.random()
            if r < 0.5:
                st["n_samples"] = n
            else:  # around the thresholds
                st["n_samples"] = int(max(1, 1 + block * int(rng.integers(1, 4)) + int(rng.integers(-1, 2))))
        else:
            nl = int(rng.integers(0, 4))
            st["levels"] = sorted({_r(rng.uniform(0.02, 1.0)) for _ in range(nl)} | ({1.0} if rng.random() < 0.3 and nl else set()))
            r = rng.random()
            if r < 0.35:
                st["centers"] = _r(rng.uniform(0.05, 0.95))
            elif r < 0.75:
                st["centers"] = [_r(rng.uniform(0.05, 0.95)) for _ in range(d)]
    elif algo == "OT_SOBOL_INDICES":
        st["eval_second_order"] = bool(rng.random() < 0.6)
        block = 2 * d + 2 if (st["eval_second_order"] and d != 2) else d + 2
        r = rng.random()
        st["n_samples"] = n if r < 0.4 else int(max(1, block * int(rng.integers(1, 5)) + int(rng.integers(-1, 3))))
    elif algo == "MorrisDOE":
        sub = MORRIS_SUB[int(rng.integers(len(MORRIS_SUB)))]
        if sub != "PYDOE_LHS" or rng.random() < 0.5:
            st["doe_algo_name"] = sub
        r = rng.random()
        sub_st = {}
        if r < 0.6:
            st["n_samples"] = int(rng.choice([1, 2, 3, 7, 16, 50])) if rng.random() < 0.5 else int(
                (d + 1) * int(rng.integers(1, 5)) + int(rng.integers(-1, 2)))
        elif r < 0.85:
            sub_st["n_samples"] = int(rng.integers(1, 5))
        if seed is not None and sub not in FULLFACT:
            if sub == "PYDOE_LHS":
                if seed > 0:
                    sub_st["random_state"] = seed
            else:
                sub_st["seed"] = seed
        if sub_st:
            st["doe_algo_settings"] = sub_st
        if rng.random() < 0.6:
            st["step"] = float(rng.choice([0.01, 0.05, 0.2, 0.5, _r(rng.uniform(0.001, 0.5))]))
        st["n_samples"] = max(st.get("n_samples", 0), 0)
        if st["n_samples"] == 0:
            del st["n_samples"]
    elif algo == "OATDOE":
        kind = rng.random()
        if kind < 0.3:
            x0 = rng.choice([0.0, 0.5, 1.0, 0.97], size=d)
        else:
            x0 = np.round(rng.uniform(0, 1, d), 3)
        st["initial_point"] = [float(v) for v in x0]
        if rng.random() < 0.7:
            st["step"] = float(rng.choice([0.01, 0.05, 0.2, 0.5, _r(rng.uniform(0.001, 0.5))]))
    elif algo == "CustomDOE":
        nrows = int(rng.choice([1, 2, 3, 7, 16]))
        rows = []
        for _ in range(nrows):
            u = rng.uniform(0, 1, d)
            u[rng.random(d) < 0.15] = 0.0
            u[rng.random(d) < 0.15] = 1.0
            x = lb + u * (ub - lb)
            x = np.where(is_int, np.round(x), np.minimum(np.maximum(x, lb), ub))
            rows.append([float(v) for v in x])
        if rows and rng.random() < 0.3 and nrows > 1:
            rows[-1] = list(rows[0])  # a duplicate row
        st["rows"] = rows
        st["form"] = str(rng.choice(["array", "dict2d", "dict2d", "listdict", "listdict", "txt", "csv"]))
        if st["form"] in ("dict2d", "listdict") and len(space) > 1 and rng.random() < 0.6:
            # the keys of a mapping carry no order: give them in an order other than the design space's
            names = [v["name"] for v in space]
            perm = [str(x) for x in rng.permutation(names)]
            if perm == names:
                perm = names[1:] + names[:1]
            st["key_order"] = perm
    elif algo == "PYDOE_BBDESIGN":
        if rng.random() < 0.6:
            st["center"] = int(rng.integers(1, 5))
    elif algo == "PYDOE_CCDESIGN":
        if rng.random() < 0.6:
            st["center"] = [int(rng.integers(0, 4)), int(rng.integers(0, 4))]
        if rng.random() < 0.6:
            st["face"] = str(rng.choice(["circumscribed", "ccc", "inscribed", "cci", "faced", "ccf"]))
        if rng.random() < 0.5:
            st["alpha"] = str(rng.choice(["orthogonal", "o", "rotatable", "r"]))
    key = SEED_KEY.get(algo)
    if key and seed is not None:
        if key == "random_state" and seed == 0:
            if rng.random() < 0.15:
                st[key] = 0  # documented refusal (PositiveInt)
        else:
            st[key] = seed
    return st


EDIT_OPS = ["ub-tighten", "ub-widen", "lb-tighten", "lb-widen", "ub-tighten", "add", "remove", "rename", "toggle",
            "value"]


def gen_history(rng, space0, flag_final, allow_add):
    """Edits applied through the public API between a first and a second generation on ONE design space.

    Returns (final space description, history); the final description is computed here, independently of gemseo.
    """
    space = [dict(v) for v in space0]
    for v in space:
        v.pop("value", None)
    space0 = [dict(v) for v in space]
    edits, flag = [], flag_final
    ops = [EDIT_OPS[int(rng.integers(len(EDIT_OPS)))] for _ in range(int(rng.integers(1, 4)))]
    ops.sort(key=lambda o: o == "value")  # values are set last so that later bound edits cannot invalidate them
    for op in ops:
        k = int(rng.integers(len(space)))
        v = space[k]
        lo, hi = np.array(v["lb"], dtype=float), np.array(v["ub"], dtype=float)
        is_int = v["type"] == "integer"
        if op in ("ub-tighten", "ub-widen", "lb-tighten", "lb-widen"):
            f = float(rng.choice([0.25, 0.5, 0.8]) if op.endswith("tighten") else rng.choice([1.5, 3.0]))
            width = (hi - lo) * f
            if is_int:
                width = np.round(width)
            if op.startswith("ub"):
                new = lo + width
                v["ub"] = [float(x) for x in new]
                edits.append({"op": "ub", "name": v["name"], "value": v["ub"], "kind": op})
            else:
                new = hi - width
                v["lb"] = [float(x) for x in new]
                edits.append({"op": "lb", "name": v["name"], "value": v["lb"], "kind": op})
        elif op == "add" and allow_add and len(space) < 6:
            top = max(max(w["ub"]) for w in space)
            type_ = str(rng.choice(["float", "integer"]))
            size = int(rng.choice([1, 2]))
            lo_ = [float(math.ceil(top + 10 + 50 * i)) for i in range(size)]
            hi_ = [x + (float(rng.choice([1, 3, 10])) if type_ == "integer" else _r(10 ** rng.uniform(-2, 1.5))) for x in lo_]
            nv = {"name": f"new{len(edits)}", "size": size, "type": type_, "lb": lo_, "ub": hi_}
            space.append(nv)
            edits.append({"op": "add", "var": dict(nv), "kind": op})
        elif op == "remove" and len(space) > 1:
            edits.append({"op": "remove", "name": v["name"], "kind": op})
            space.pop(k)
        elif op == "rename":
            new_name = v["name"] + "_r"
            edits.append({"op": "rename", "name": v["name"], "new": new_name, "kind": op})
            v["name"] = new_name
        elif op == "toggle":
            flag = not flag
            edits.append({"op": "toggle", "kind": op})
        elif op == "value":
            vals = {w["name"]: w["lb"] for w in space}
            for w in space:
                w["value"] = list(w["lb"])
            edits.append({"op": "value", "values": vals, "kind": op})
    # ``flag`` was toggled backwards from the final value: it is the value the space starts with
    return space, {"space0": space0, "flag0": bool(flag), "edits": edits}


def gen_case(rng, algo):
    space = gen_space(rng, D_MAX.get(algo))
    if algo == "CustomDOE" and rng.random() < 0.8:
        for _ in range(10):  # mostly several variables, so that the variable order of the input forms matters
            if len(space) > 1:
                break
            space = gen_space(rng)
    int_norm = bool(rng.random() < 0.25)
    history = None
    if rng.random() < 0.22:  # a second generation on a design space that was sampled, then edited
        int_norm = bool(rng.random() < 0.5)
        space, history = gen_history(rng, space, int_norm, allow_add=algo not in D_MAX)
        if not history["edits"]:
            history = None
    st = gen_settings(rng, algo, space)
    mode = "execute" if rng.random() < 0.3 else "compute"
    case = {"algo": algo, "space": space, "settings": st, "mode": mode, "int_norm": int_norm,
            "warm": bool(rng.random() < 0.5)}
    if history:
        case["history"] = history
    return case


# --------------------------------------------------------------------------- materialisation
def apply_history(history):
    """First generation on the initial space, then the edits through the public API; returns the edited space."""
    ds = build_space(history["space0"], history["flag0"], warm=True)
    fresh("MC").compute_doe(ds, n_samples=2)          # the first generation
    for e in history["edits"]:
        op = e["op"]
        if op in ("ub", "lb"):
            dt = np.int64 if ds.get_type(e["name"]) == "integer" else float
            (ds.set_upper_bound if op == "ub" else ds.set_lower_bound)(e["name"], np.array(e["value"], dtype=dt))
        elif op == "add":
            _add_variable(ds, e["var"])
        elif op == "remove":
            ds.remove_variable(e["name"])
        elif op == "rename":
            ds.rename_variable(e["name"], e["new"])
        elif op == "toggle":
            ds.enable_integer_variables_normalization = not ds.enable_integer_variables_normalization
        elif op == "value":
            ds.set_current_value({k: np.array(v, dtype=np.int64 if ds.get_type(k) == "integer" else float)
                                  for k, v in e["values"].items()})
    return ds


def _add_variable(ds, v):
    is_int = v["type"] == "integer"
    dt = np.int64 if is_int else float
    kw = {}
    if v.get("value") is not None:
        kw["value"] = np.array(v["value"], dtype=dt)
    if v["lb"] is not None:
        kw["lower_bound"] = np.array(v["lb"], dtype=dt)
    if v["ub"] is not None:
        kw["upper_bound"] = np.array(v["ub"], dtype=dt)
    ds.add_variable(v["name"], v["size"], type_=v["type"], **kw)


def build_space(space, int_norm=False, warm=False, history=None):
    from gemseo.algos.design_space import DesignSpace

    if history:
        ds = apply_history(history)
        if bool(ds.enable_integer_variables_normalization) != bool(int_norm):
            raise RuntimeError("C14 harness: the history does not end with the recorded flag value")
        return ds
    ds = DesignSpace()
    for v in space:
        is_int = v["type"] == "integer"
        dt = np.int64 if is_int else float
        kw = {}
        if v.get("value") is not None:
            kw["value"] = np.array(v["value"], dtype=dt)
        if v["lb"] is not None:
            kw["lower_bound"] = np.array(v["lb"], dtype=dt)
        if v["ub"] is not None:
            kw["upper_bound"] = np.array(v["ub"], dtype=dt)
        ds.add_variable(v["name"], v["size"], type_=v["type"], **kw)
    if int_norm:
        ds.enable_integer_variables_normalization = True
    if warm:
        # a design space that has already been used: its normalisation data are cached with the current policy
        lb, ub, _ = bounds_of(space)
        ds.normalize_vect((lb + ub) / 2)
    return ds


def materialize(case, scratch):
    """Fresh keyword arguments for one call (gemseo may mutate what it is given)."""
    st = copy.deepcopy(case["settings"])
    algo = case["algo"]
    if "initial_point" in st:
        st["initial_point"] = np.array(st["initial_point"], dtype=float)
    if algo == "PYDOE_CCDESIGN" and "center" in st:
        st["center"] = tuple(st["center"])
    if algo == "CustomDOE":
        rows = np.array(st.pop("rows"), dtype=float).reshape(-1, space_dim(case["space"]))
        form = st.pop("form")
        keys = st.pop("key_order", None) or [v["name"] for v in case["space"]]
        if form == "array":
            st["samples"] = rows
        elif form in ("dict2d", "listdict"):
            o, cols = 0, {}
            for v in case["space"]:
                cols[v["name"]] = rows[:, o:o + v["size"]]
                o += v["size"]
            if form == "dict2d":
                st["samples"] = {k: cols[k].copy() for k in keys}
            else:  # every row is its own mapping: rotate the key order from row to row
                st["samples"] = [{k: cols[k][i].copy() for k in keys[i % len(keys):] + keys[:i % len(keys)]}
                                 for i in range(len(rows))]
        else:
            path = os.path.join(scratch, f"c14_samples.{form}")
            with open(path, "w") as fh:
                if form == "csv":
                    fh.write(",".join(f"c{i}" for i in range(rows.shape[1])) + "\n")
                    st["skiprows"] = 1
                fh.write("# a comment line\n")
                for row in rows:
                    fh.write(",".join(repr(float(v)) for v in row) + "\n")
            st["doe_file"] = path
    return st


def fresh(algo):
    from gemseo.algos.doe.factory import DOELibraryFactory

    return DOELibraryFactory().create(algo)


# --------------------------------------------------------------------------- signatures
def sfeat(case):
    st = case["settings"]
    parts = []
    for k in sorted(st):
        if k in ("seed", "random_state", "rows"):
            continue
        if k == "key_order":
            parts.append("keys=shuffled")
            continue
        if k in CATEGORICAL:
            parts.append(f"{k}={st[k]}")
        elif k == "levels":
            parts.append("levels=int" if isinstance(st[k], int) else "levels")
        elif k == "centers":
            parts.append("centers=list" if isinstance(st[k], list) else "centers")
        else:
            parts.append(k)
    return "+".join(parts) or "defaults"


def efeat(case):
    """Feature of a second generation on an edited space (kept out of the count signatures: the documented count
    does not depend on the history of the space)."""
    if not case.get("history"):
        return ""
    return "+edited=" + "/".join(sorted({e["kind"] for e in case["history"]["edits"]}))


def dfeat(d):
    return "d=1" if d == 1 else "d=2" if d == 2 else "d>2"


def seed_kind(case):
    st = case["settings"]
    key = SEED_KEY.get(case["algo"])
    if case["algo"] == "MorrisDOE":
        sub = st.get("doe_algo_settings", {})
        return "explicit" if ("seed" in sub or "random_state" in sub) else "default"
    if key is None:
        return "seedless"
    return "explicit" if st.get(key) is not None else "default"


def case_signature(case, outcome):
    st = case["settings"]
    d = space_dim(case["space"])
    return (case["algo"], d, tuple(v["type"][0] + str(v["size"]) for v in case["space"]), sfeat(case),
            st.get("n_samples"), seed_kind(case), case["mode"], case["int_norm"], bool(case.get("warm")),
            any("value" in v for v in case["space"]), efeat(case), outcome)


# --------------------------------------------------------------------------- oracle
def bound_eps(b):
    return 1e-12 * (1 + np.abs(b))


def dedup_rows(a):
    seen, out = set(), []
    for row in np.asarray(a):
        k = row.tobytes()
        if k not in seen:
            seen.add(k)
            out.append(row)
    return np.array(out).reshape(-1, np.asarray(a).shape[1]) if out else np.zeros((0, np.asarray(a).shape[1]))


def unit_tolerance(algo, lb, ub):
    """Tolerance on "unit samples in [0,1]": 1e-12, except for CustomDOE whose unit samples are computed from
    physical rows, where the bound tolerance 1e-12*(1+|b|) is carried to the unit scale."""
    if algo != "CustomDOE":
        return np.full(len(lb), 1e-12)
    width = ub - lb
    return 1e-12 + np.where(width > 0, 1e-12 * (1 + np.abs(lb) + np.abs(ub)) / np.where(width > 0, width, 1.0), 0.0)


def image_mismatch(samples, unit, lb, ub, is_int, cols=None):
    """First disagreement between the samples and the reference image of the unit samples, or None."""
    aff = ref_affine(unit, lb, ub)
    scale = 1 + np.abs(lb) + np.abs(ub)
    diff = np.abs(np.asarray(samples, dtype=float) - aff)
    bad_f = (diff > 1e-12 * scale) & ~is_int
    bad_i = (diff > 0.5 + 1e-9 * scale) & is_int      # any nearest integer is accepted at a rounding tie
    if cols is not None:
        bad_f &= cols
        bad_i &= cols
    if not (bad_f.any() or bad_i.any()):
        return None
    i, j = np.argwhere(bad_f | bad_i)[0]
    return {"which": "integer-components" if bad_i.any() else "float-components",
            "observed": {"row": int(i), "component": int(j), "sample": float(np.asarray(samples)[i, j]),
                         "unit": float(unit[i, j])},
            "expected": {"affine_image": float(aff[i, j]), "lb": float(lb[j]), "ub": float(ub[j]),
                         "integer": bool(is_int[j])}}


def run_case(case, rep, scratch):
    algo, space, st = case["algo"], case["space"], case["settings"]
    d = space_dim(space)
    lb, ub, is_int = bounds_of(space)
    types = type_pattern(space)
    sf = sfeat(case)
    sfe = sf + efeat(case)
    in_list = algo not in OUTSIDE_LIST
    mdl = model(algo, d, st)
    req = st.get("n_samples") or None
    flag0 = bool(case["int_norm"])
    warm = bool(case.get("warm"))
    sk = seed_kind(case)

    # ---- first generation (instance A)
    ds_a = build_space(space, flag0, warm, case.get("history"))
    lib_a = fresh(algo)
    try:
        s_a = lib_a.compute_doe(ds_a, **materialize(case, scratch))
    except Exception as e:  # deliberate: classified below, never swallowed
        etype = type(e).__name__
        if mdl["kind"] == "refuse":
            rep.case(case_signature(case, "refused"), nontrivial=False)
            rep.count("refusals")
            rep.count(f"refusals:{algo}")
            if bool(ds_a.enable_integer_variables_normalization) != flag0:
                rep.observe("integer-normalization-flag-left-enabled-after-a-refused-generation",
                            {"algo": algo, "error": etype})
            return
        rep.case(case_signature(case, "exception"), nontrivial=False)
        feat = sfe
        if algo == "CustomDOE":
            feat = (f"form={st['form']}:{'multi-variable' if len(space) > 1 else 'single-variable'}"
                    + (":keys=shuffled" if st.get("key_order") else ""))
        rep.violation(f"C14:{algo}:exception:{etype}:{feat}", "a design is generated for valid settings", case,
                      observed=f"{etype}: {str(e)[:300]}", expected=mdl)
        return
    s_a = np.asarray(s_a)
    if s_a.ndim != 2 or s_a.shape[1] != d:
        rep.case(case_signature(case, "shape"), nontrivial=False)
        rep.violation(f"C14:{algo}:shape:{sf}", "samples are rows of design-space dimension", case,
                      observed=list(s_a.shape), expected=["n", d])
        return
    n_got = len(s_a)
    rep.case(case_signature(case, "generated"), nontrivial=n_got >= 2)
    rep.count("designs_judged")
    rep.count(f"designs:{algo}")
    if types != "float":
        rep.count("designs_with_integer_variables")
    if case.get("history"):
        rep.count("second_generations_after_edit")
        rep.count(f"second_generations_after_edit:int_norm={'on' if flag0 else 'off'}")
        for kind in {e["kind"] for e in case["history"]["edits"]}:
            rep.count(f"edit:{kind}")
    if algo == "CustomDOE":
        rep.count(f"custom_designs:{st['form']}")
        if st.get("key_order"):
            rep.count(f"custom_designs_with_shuffled_keys:{st['form']}")
            if len({v["size"] for v in space}) > 1:
                rep.count("custom_designs_with_shuffled_keys_and_mixed_sizes")
    if mdl["kind"] == "refuse":
        rep.observe("settings-predicted-refused-were-accepted", {"algo": algo, "settings": st, "why": mdl["why"], "d": d})

    # ---- count
    rep.count("count_oracle_evaluations")
    if req is not None and n_got > req:
        rep.violation(f"C14:{algo}:count-exceeds-request:{sf}:{dfeat(d)}", "never more samples than requested", case,
                      observed=n_got, expected={"at_most": req, "documented": mdl})
    elif mdl["kind"] == "exact" and n_got != mdl["n"]:
        rep.violation(f"C14:{algo}:count-differs-from-documented:{sf}:{dfeat(d)}", "documented sample count", case,
                      observed=n_got, expected=mdl["n"])
    elif mdl["kind"] == "multiple" and (n_got == 0 or n_got % mdl["of"]):
        rep.violation(f"C14:{algo}:count-differs-from-documented:{sf}:{dfeat(d)}", "documented sample count", case,
                      observed=n_got, expected=f"a positive multiple of {mdl['of']}")
    elif mdl["kind"] == "atleast" and n_got < mdl["n"]:
        rep.violation(f"C14:{algo}:count-differs-from-documented:{sf}:{dfeat(d)}", "documented sample count", case,
                      observed=n_got, expected=f">= {mdl['n']}")
    elif mdl["kind"] == "atmost" and n_got < mdl["n"]:
        rep.observe("PoissonDisk-returned-fewer-samples-than-requested (packing limit; outside the property's list)",
                    {"requested": mdl["n"], "returned": n_got, "d": d, "radius": st.get("radius")})
    if req is not None and mdl["kind"] in ("exact", "atmost") and n_got <= req:
        rep.count("count_checked_against_request")

    # ---- flag restored
    rep.count("flag_oracle_evaluations")
    if bool(ds_a.enable_integer_variables_normalization) != flag0:
        rep.violation(f"C14:{algo}:integer-normalization-flag-not-restored:compute_doe", "flag restored after generation",
                      case, observed=bool(ds_a.enable_integer_variables_normalization), expected=flag0)

    # ---- bounds / integrality
    if n_got:
        rep.count("bounds_rows_checked", n_got)
        below = s_a < lb - bound_eps(lb)
        above = s_a > ub + bound_eps(ub)
        if below.any() or above.any():
            i, j = np.argwhere(below | above)[0]
            ex = {"algo": algo, "row": int(i), "component": int(j), "value": float(s_a[i, j]), "lb": float(lb[j]),
                  "ub": float(ub[j]), "settings": st}
            step = st.get("step", 0.05)
            if not in_list:
                rep.observe(f"{algo}-samples-outside-bounds (outside the property's list)", ex)
            elif algo in ("MorrisDOE", "OATDOE") and step > 0.5:
                rep.observe(f"{algo}-relative-step-above-0.5-leaves-the-bounds", ex)
            else:
                rep.violation(f"C14:{algo}:out-of-bounds:{types}:{sfe}", "samples inside the bounds", case,
                              observed=ex, expected={"lb": lb, "ub": ub})
        if is_int.any():
            rep.count("integer_rows_checked", n_got)
            vals = s_a[:, is_int].astype(float)
            if not np.array_equal(vals, np.round(vals)):
                rep.violation(f"C14:{algo}:non-integral:{types}", "integer variables take integer values", case,
                              observed=vals[np.any(vals != np.round(vals), axis=1)][:3], expected="integral values")

    # ---- custom: the rows given are the rows returned
    if algo == "CustomDOE" and n_got == len(st["rows"]):
        rows = np.array(st["rows"], dtype=float).reshape(-1, d)
        rep.count("custom_rows_compared", n_got)
        if np.any(np.abs(s_a - rows) > 1e-12 * (1 + np.abs(lb) + np.abs(ub))):
            rep.violation(f"C14:CustomDOE:rows-differ-from-given:{types}:form={st['form']}"
                          + (":keys=shuffled" if st.get("key_order") else ""), "custom rows are returned",
                          case, observed=s_a, expected=rows)

    if mdl["kind"] == "refuse":
        # settings outside the documented domain that happened to go through (e.g. pyDOE3's correlation criterion with
        # two points works or raises depending on the draw): the design returned was judged above, nothing is
        # promised about further generations
        rep.count("accepted_outside_documented_domain")
        return

    def again(lib, ds, what):
        """A further generation with the same valid settings: it must succeed like the first one."""
        try:
            return np.asarray(lib.compute_doe(ds, **materialize(case, scratch)))
        except Exception as e:  # the first generation succeeded: an exception here is a reproducibility failure
            rep.violation(f"C14:{algo}:exception-on-repeated-generation:{type(e).__name__}:{what}:{sk}:{sf}",
                          "same algorithm, settings and seed give the same samples", case,
                          observed=f"{type(e).__name__}: {str(e)[:300]}", expected="the samples of the first call")
            return None

    # ---- unit samples from a second fresh instance; image under the reference map
    ds_b = build_space(space, flag0, warm, case.get("history"))
    lib_b = fresh(algo)
    try:
        u_b = np.asarray(lib_b.compute_doe(ds_b, unit_sampling=True, **materialize(case, scratch)))
    except Exception as e:
        rep.violation(f"C14:{algo}:exception-with-unit_sampling:{type(e).__name__}:{sf}",
                      "unit sampling works where physical sampling does", case, observed=f"{type(e).__name__}: {e}")
        return
    if u_b.shape != s_a.shape:
        rep.violation(f"C14:{algo}:unit-and-physical-samples-differ-in-shape:{sf}", "same design in both spaces", case,
                      observed=list(u_b.shape), expected=list(s_a.shape))
        return
    rep.count("unit_oracle_evaluations")
    # columns on which the unit samples can be judged
    cols = np.ones(d, dtype=bool)
    if algo == "CustomDOE" and is_int.any() and n_got:
        # narrow mechanism: compute_doe(unit_sampling=True) skips the integer normalisation that CustomDOE needs to
        # project its physical rows, so the integer components come back unnormalised
        raw = np.array_equal(u_b[:, is_int], s_a[:, is_int].astype(float))
        outside = (u_b[:, is_int] < -1e-12).any() or (u_b[:, is_int] > 1 + 1e-12).any()
        if raw and outside:
            rep.violation("C14:CustomDOE:unit_sampling-leaves-integer-components-unnormalized",
                          "unit samples in [0,1] whose design-space image is the physical samples", case,
                          observed={"unit_samples": u_b, "integer_components": is_int},
                          expected="integer components normalised to [0,1] like the float ones")
            cols = ~is_int
    utol = unit_tolerance(algo, lb, ub)
    if n_got and cols.any() and ((u_b < -utol)[:, cols].any() or (u_b > 1 + utol)[:, cols].any()):
        ex = {"algo": algo, "min": float(u_b[:, cols].min()), "max": float(u_b[:, cols].max()), "settings": st}
        if not in_list:
            rep.observe(f"{algo}-unit-samples-outside-the-unit-cube (outside the property's list)", ex)
        elif algo in ("MorrisDOE", "OATDOE") and st.get("step", 0.05) > 0.5:
            pass
        else:
            rep.violation(f"C14:{algo}:unit-samples-outside-unit-cube:{sfe}", "unit samples in [0,1]", case, observed=ex)
    if bool(ds_b.enable_integer_variables_normalization) != flag0:
        rep.violation(f"C14:{algo}:integer-normalization-flag-changed-by-unit-sampling", "flag restored", case,
                      observed=bool(ds_b.enable_integer_variables_normalization), expected=flag0)
    if n_got:
        bad = image_mismatch(s_a, u_b, lb, ub, is_int, cols)
        rep.count("image_rows_checked", n_got)
        if bad is not None:
            # is it the map, or the reproducibility of the unit samples?
            ds_c = build_space(space, flag0, warm, case.get("history"))
            s_c = again(fresh(algo), ds_c, "fresh-instance")
            if s_c is None:
                return
            if s_c.shape != s_a.shape or not np.array_equal(s_c, s_a):
                rep.violation(f"C14:{algo}:not-reproducible:fresh-instances:{sk}:{sf}",
                              "same algorithm, settings and seed give the same samples", case,
                              observed=s_c, expected=s_a)
            else:
                rep.violation(f"C14:{algo}:samples-not-image-of-unit-samples:{types}:{bad['which']}",
                              "physical samples are the design-space image of the unit samples", case,
                              observed=bad["observed"], expected=bad["expected"])

    # ---- reproducibility
    rep.count("reproducibility_oracle_evaluations")
    ds_c = build_space(space, flag0, warm, case.get("history"))
    lib_c = fresh(algo)
    s_c = again(lib_c, ds_c, "fresh-instance")
    if s_c is None:
        return
    if s_c.shape != s_a.shape or not np.array_equal(s_c, s_a):
        rep.violation(f"C14:{algo}:not-reproducible:fresh-instances:{sk}:{sf}",
                      "same algorithm, settings and seed give the same samples", case, observed=s_c, expected=s_a)
    if sk != "default":
        s_a2 = again(lib_a, ds_a, "same-instance")
        s_a3 = again(lib_a, build_space(space, flag0, warm, case.get("history")), "same-instance")
        if s_a2 is None or s_a3 is None:
            return
        rep.count("same_instance_repeats_checked")
        if algo in RANDOMISED and sk == "explicit":
            rep.count("same_instance_repeats_with_explicit_seed")
        for rerun in (s_a2, s_a3):
            if rerun.shape != s_a.shape or not np.array_equal(rerun, s_a):
                rep.violation(f"C14:{algo}:not-reproducible:same-instance:{sk}:{sf}",
                              "same algorithm, settings and seed give the same samples", case,
                              observed=rerun, expected=s_a)
                break
    elif algo in RANDOMISED and n_got:
        try:  # another seed: nothing is promised about this call, it only documents that the default seed advances
            s_a2 = np.asarray(lib_a.compute_doe(ds_a, **materialize(case, scratch)))
        except Exception as e:
            rep.observe("a-later-call-with-the-advanced-default-seed-raised", {"algo": algo, "settings": st,
                                                                              "error": f"{type(e).__name__}: {e}"[:200]})
        else:
            if not np.array_equal(s_a2, s_a):
                rep.count("default_seed_advanced_between_calls")

    # ---- execute on a trivial problem
    if case["mode"] == "execute":
        run_execute(case, rep, scratch, s_a, u_b, flag0, sfe, cols)


def run_execute(case, rep, scratch, s_a, u_b, flag0, sf, cols):
    from gemseo.algos.optimization_problem import OptimizationProblem
    from gemseo.core.mdo_functions.mdo_function import MDOFunction

    algo = case["algo"]
    ds = build_space(case["space"], flag0, bool(case.get("warm")), case.get("history"))
    calls = []

    def f(x):
        calls.append(np.array(x, dtype=float, copy=True))
        return float(np.sum(np.asarray(x, dtype=float)))

    problem = OptimizationProblem(ds)
    problem.objective = MDOFunction(f, "f")
    lib = fresh(algo)
    try:
        lib.execute(problem, enable_progress_bar=False, log_problem=False, **materialize(case, scratch))
    except Exception as e:
        if algo in OUTSIDE_LIST:
            rep.observe(f"{algo}-execute-raised (outside the property's list)", f"{type(e).__name__}: {str(e)[:200]}")
            return
        lb, ub, _ = bounds_of(case["space"])
        inside = bool(np.all(s_a >= lb - bound_eps(lb)) and np.all(s_a <= ub + bound_eps(ub)))
        if algo == "CustomDOE" and case["settings"].get("form") in ("txt", "csv") and inside and "bound" in str(e):
            # CustomDOE.read_file uses pandas' default (not round-trip) float parser: a row written at a bound can be
            # read back one ulp outside; the design is inside the bounds up to the property's tolerance, the refusal
            # comes from the stricter membership test of the evaluation (outside this property)
            rep.observe("CustomDOE-file-row-at-a-bound-read-back-one-ulp-outside-and-refused-by-execute (pandas fast "
                        "float parser; float_precision='round_trip' would avoid it)", f"{type(e).__name__}: {str(e)[:200]}")
            return
        rep.violation(f"C14:{algo}:execute:exception:{type(e).__name__}:{sf}", "execute runs the generated design", case,
                      observed=f"{type(e).__name__}: {str(e)[:300]}")
        return
    rep.count("execute_oracle_evaluations")
    samples = np.asarray(lib.samples)
    units = np.asarray(lib.unit_samples)
    if samples.shape != s_a.shape or not np.array_equal(samples.astype(float), s_a.astype(float)):
        rep.violation(f"C14:{algo}:execute:samples-differ-from-compute_doe", "same settings and seed, same samples", case,
                      observed=samples, expected=s_a)
        return
    lb, ub, is_int = bounds_of(case["space"])
    utol = unit_tolerance(algo, lb, ub)
    if algo not in OUTSIDE_LIST and len(units) and ((units < -utol).any() or (units > 1 + utol).any()) \
            and not (algo in ("MorrisDOE", "OATDOE") and case["settings"].get("step", 0.05) > 0.5):
        rep.violation(f"C14:{algo}:execute:unit_samples-outside-unit-cube:{sf}", "unit samples in [0,1]", case,
                      observed={"min": float(units.min()), "max": float(units.max())})
    if len(units) and units.shape == samples.shape:
        bad = image_mismatch(samples, units, lb, ub, is_int)
        rep.count("execute_image_rows_checked", len(units))
        if bad is not None:
            rep.violation(f"C14:{algo}:execute:samples-not-image-of-unit_samples:{bad['which']}",
                          "library.samples is the design-space image of library.unit_samples", case,
                          observed=bad["observed"], expected=bad["expected"])
    if units.shape != u_b.shape or not np.array_equal(units[:, cols], u_b[:, cols]):
        rep.violation(f"C14:{algo}:execute:unit_samples-differ-from-unit-sampling", "same settings and seed, same unit samples",
                      case, observed=units, expected=u_b)
    if bool(ds.enable_integer_variables_normalization) != flag0:
        rep.violation(f"C14:{algo}:integer-normalization-flag-not-restored:execute", "flag restored after generation",
                      case, observed=bool(ds.enable_integer_variables_normalization), expected=flag0)
    expected = dedup_rows(samples.astype(float))
    hist = problem.database.get_x_vect_history()
    hist = np.array([np.asarray(h, dtype=float) for h in hist]).reshape(-1, samples.shape[1])
    rep.count("database_rows_checked", len(hist))
    if hist.shape != expected.shape or not np.array_equal(hist, expected):
        rep.violation(f"C14:{algo}:execute:database-keys-differ-from-samples-in-order", "database keys are the samples in order",
                      case, observed=hist, expected=expected)
    called = dedup_rows(np.array(calls).reshape(-1, samples.shape[1]))
    if called.shape != expected.shape or not np.array_equal(called, expected):
        rep.violation(f"C14:{algo}:execute:evaluated-points-differ-from-samples-in-order",
                      "the samples are evaluated in order", case, observed=called, expected=expected)


# --------------------------------------------------------------------------- directed cases
def _sp(*vars_):
    out = []
    for name, size, type_, lo, hi in vars_:
        lo_ = [lo] * size if not isinstance(lo, list) else lo
        hi_ = [hi] * size if not isinstance(hi, list) else hi
        out.append({"name": name, "size": size, "type": type_, "lb": [float(v) for v in lo_], "ub": [float(v) for v in hi_]})
    return out


def directed_cases():
    out = []
    mixed = _sp(("a", 1, "float", 0.0, 1.0), ("b", 2, "float", [10.0, -7.5], [20.0, -7.25]), ("i", 1, "integer", 100, 103))
    three = _sp(("a", 1, "float", -5.0, -4.0), ("i", 1, "integer", 3, 5), ("b", 1, "float", 0.001, 0.002))
    ints = _sp(("i", 2, "integer", [0, 10], [3, 11]), ("j", 1, "integer", 7, 7))
    one = _sp(("x", 1, "float", 2.0, 5.0))
    one_int = _sp(("k", 1, "integer", 0, 3))
    two = _sp(("x", 1, "float", 2.0, 5.0), ("y", 1, "float", -1.0, 9.0))

    def add(algo, space, mode="compute", int_norm=False, **st):
        out.append({"algo": algo, "space": space, "settings": st, "mode": mode, "int_norm": int_norm})

    # the census of the design-phase probe: every algorithm on a mixed space
    for algo in ALGOS:
        for space in (mixed, three, ints):
            d = space_dim(space)
            st = {}
            if algo in N_EXACT or algo in ("PoissonDisk", "OT_SOBOL_INDICES", "MorrisDOE") or algo in FULLFACT \
                    or algo in OT_STRATIFIED:
                st["n_samples"] = 16 if algo in ("OT_COMPOSITE", "OT_SOBOL_INDICES") else 9
            if algo == "OT_COMPOSITE" and d > 3:
                st["n_samples"] = 50
            if algo == "OATDOE":
                st["initial_point"] = [0.5] * d
            if algo == "CustomDOE":
                lb, ub, is_int = bounds_of(space)
                st = {"rows": [lb.tolist(), ub.tolist(), np.where(is_int, lb, (lb + ub) / 2).tolist()], "form": "array"}
            add(algo, space, mode="execute" if space is three else "compute", **st)
            out[-1]["warm"] = space is ints
    # full factorial around perfect powers, largest power <= n
    for algo in FULLFACT:
        for d, space in ((1, one), (2, two), (3, three), (4, mixed)):
            for k in range(1, 7):
                for delta in (-1, 0, 1):
                    n = k ** d + delta
                    if 1 <= n <= 1400:
                        add(algo, space, n_samples=n)
        add(algo, two)                       # neither: documented refusal
        add(algo, two, n_samples=4, levels=2)  # both: documented refusal
        add(algo, one_int, levels=3)         # u=0.5 on [0,3]: rounding tie
        add(algo, ints, levels=[3, 2, 1])
        add(algo, three, levels=[1, 1, 1])
    # Sobol' indices designs: block sizes per OpenTURNS (2d+2 when second order and d != 2)
    for space in (one, one_int, two, three, mixed):
        for second in (True, False):
            for n in (1, 3, 4, 5, 7, 8, 12, 16, 50):
                add("OT_SOBOL_INDICES", space, n_samples=n, eval_second_order=second, seed=1)
    # stratified designs at their thresholds and with asymmetric centres
    for algo, blk in OT_STRATIFIED.items():
        for space in (one, two, three):
            d = space_dim(space)
            b = blk(d)
            for n in (b, b + 1, b + 2, 2 * b, 2 * b + 1, 3 * b + 2):
                add(algo, space, n_samples=n)
            add(algo, space, levels=[0.2, 0.8])
            add(algo, space, levels=[0.1, 1.0], centers=0.3)
            add(algo, space, levels=[0.5], centers=[0.9] * d)
            add(algo, space, levels=[0.5], centers=[0.05] + [0.6] * (d - 1), mode="execute")
            add(algo, space)
            add(algo, space, levels=[0.0, 0.5])      # refusal
            add(algo, space, levels=[0.5], centers=[1.0] * d)  # refusal
            add(algo, space, levels=[0.5], centers=[0.5] * (d + 2))  # refusal
        add(algo, ints, levels=[0.3, 0.7, 1.0], centers=[0.4, 0.5, 0.6])
    # seeds, integer-normalisation flag initially on, narrow integer ranges, rounding ties
    for algo in ("MC", "LHS", "Sobol", "Halton", "OT_MONTE_CARLO", "OT_LHS", "OT_LHSC", "OT_OPT_LHS", "OT_RANDOM"):
        for seed in (0, 1, 12345):
            add(algo, mixed, n_samples=7, seed=seed)
        add(algo, ints, n_samples=16, int_norm=True, seed=3)
        add(algo, ints, n_samples=16, int_norm=True, mode="execute")
        out.append(dict(out[-1], warm=True))
        out.append(dict(out[-1], int_norm=False))
        out.append(dict(out[-1], mode="compute", space=mixed))
    add("PYDOE_LHS", mixed, n_samples=7, random_state=12345)
    add("PYDOE_LHS", mixed, n_samples=7, random_state=0)  # refusal (PositiveInt)
    add("PYDOE_LHS", ints, n_samples=7, criterion="maximin", iterations=3, random_state=2, mode="execute")
    # outside pyDOE3's domain (two points: correlations are +-1); goes through or raises depending on the draw
    add("PYDOE_LHS", two, n_samples=2, criterion="corr", iterations=2)
    add("PYDOE_LHS", two, n_samples=2, criterion="corr", iterations=2, random_state=2)
    add("PYDOE_LHS", two, n_samples=2, criterion="corr", iterations=2, random_state=1)
    add("OT_LHSC", one_int, n_samples=1)       # u=0.5 -> 1.5: tie
    add("OT_LHSC", one_int, n_samples=2)
    add("DiagonalDOE", ints, n_samples=4, mode="execute")  # duplicates after rounding
    add("DiagonalDOE", mixed, n_samples=5, reverse=["b", "3"])
    add("DiagonalDOE", mixed, n_samples=1)     # refusal
    add("DiagonalDOE", mixed)
    add("OT_OPT_LHS", mixed, n_samples=1)      # refusal
    add("MC", mixed, n_samples=0)              # refusal
    add("PYDOE_BBDESIGN", two)                 # refusal (minimum dimension)
    add("PYDOE_CCDESIGN", one)                 # refusal (minimum dimension)
    add("PYDOE_CCDESIGN", two, face="faced", center=[1, 2])
    add("PYDOE_CCDESIGN", ints, face="inscribed", alpha="rotatable")
    add("PYDOE_BBDESIGN", three, center=2)
    add("LHS", three, n_samples=9, strength=2)
    add("LHS", three, n_samples=8, strength=2)  # refusal
    # Morris / OAT
    for space in (one, two, three, mixed, ints):
        d = space_dim(space)
        for n in (d, d + 1, d + 2, 2 * d + 2, 3 * d + 4):
            add("MorrisDOE", space, n_samples=n)
        add("MorrisDOE", space, doe_algo_settings={"n_samples": 3})
        add("MorrisDOE", space)
        add("MorrisDOE", space, n_samples=4 * (d + 1), step=0.5, doe_algo_name="OT_HALTON")
        add("MorrisDOE", space, n_samples=4 * (d + 1), step=0.7)  # observation only: no in-bounds step exists
        add("MorrisDOE", space, n_samples=9 * (d + 1), doe_algo_name="OT_FULLFACT", mode="execute")
        add("OATDOE", space, initial_point=[0.98] * d)
        add("OATDOE", space, initial_point=[1.0] * d, step=0.5)
        add("OATDOE", space, initial_point=[0.0] * d, step=0.5, mode="execute")
        add("OATDOE", space, initial_point=[0.5] * d, step=0.7)   # observation only
    # custom designs in every documented form
    for space in (one, two, mixed, ints):
        lb, ub, is_int = bounds_of(space)
        rows = [lb.tolist(), ub.tolist(), np.where(is_int, lb, lb + 0.25 * (ub - lb)).tolist(), lb.tolist()]
        for form in ("array", "dict2d", "listdict", "txt", "csv"):
            add("CustomDOE", space, rows=rows, form=form, mode="execute" if form == "array" else "compute")
        names = [v["name"] for v in space]
        if len(names) > 1:  # mapping keys in another order than the variables of the design space
            for form in ("dict2d", "listdict"):
                add("CustomDOE", space, rows=rows, form=form, key_order=names[::-1])
                add("CustomDOE", space, rows=rows, form=form, key_order=names[1:] + names[:1], mode="execute")
    xny = _sp(("x", 2, "float", 0.0, 1.0), ("n", 1, "integer", 10, 20), ("y", 1, "float", -5.0, -1.0))
    for form in ("dict2d", "listdict"):
        add("CustomDOE", xny, rows=[[0.25, 0.75, 12, -4.0], [0.5, 1.0, 20, -1.5], [0.0, 0.1, 10, -2.5]], form=form,
            key_order=["y", "n", "x"])
    # second generation on a design space that was sampled and then edited (domain-reduction loop), both flag values
    xyk0 = _sp(("x", 2, "float", -1.0, 3.0), ("y", 1, "float", 0.0, 10.0), ("k", 1, "integer", 0, 20))
    xyk1 = _sp(("x", 2, "float", [-1.0, -1.0], [1.0, 0.0]), ("y", 1, "float", 0.0, 2.0), ("k", 1, "integer", 0, 4))
    tighten = [{"op": "ub", "name": "x", "value": [1.0, 0.0], "kind": "ub-tighten"},
               {"op": "ub", "name": "y", "value": [2.0], "kind": "ub-tighten"},
               {"op": "ub", "name": "k", "value": [4.0], "kind": "ub-tighten"}]
    xyk2 = _sp(("x", 2, "float", [0.0, 2.0], [3.0, 3.0]), ("y", 1, "float", -5.0, 10.0), ("k", 1, "integer", 18, 25))
    move = [{"op": "lb", "name": "x", "value": [0.0, 2.0], "kind": "lb-tighten"},
            {"op": "lb", "name": "y", "value": [-5.0], "kind": "lb-widen"},
            {"op": "lb", "name": "k", "value": [18.0], "kind": "lb-tighten"},
            {"op": "ub", "name": "k", "value": [25.0], "kind": "ub-widen"}]
    for algo, st in (("OT_MONTE_CARLO", {"n_samples": 20, "seed": 3}), ("LHS", {"n_samples": 20, "seed": 3}),
                     ("Halton", {"n_samples": 20}), ("PYDOE_FULLFACT", {"n_samples": 25}), ("DiagonalDOE", {"n_samples": 11}),
                     ("OT_AXIAL", {"n_samples": 9}), ("MorrisDOE", {"n_samples": 10}), ("PYDOE_LHS", {"n_samples": 7})):
        for flag in (True, False):
            for final, edits in ((xyk1, tighten), (xyk2, move)):
                for mode in ("compute", "execute"):
                    out.append({"algo": algo, "space": final, "settings": dict(st), "mode": mode, "int_norm": flag,
                                "history": {"space0": xyk0, "flag0": flag, "edits": edits}})
    # seen by the C03 check: with normalize_design_space=True the physical samples are unnormalised a second time
    # before being evaluated; the generated design itself is right, so this is recorded as an observation here
    out.append({"algo": "OT_FULLFACT", "space": mixed, "settings": {"n_samples": 16}, "mode": "execute",
                "int_norm": False, "observe_only": "normalize_design_space"})
    # an unbounded component is refused (the property is about bounded spaces)
    unb = _sp(("x", 1, "float", 0.0, 1.0))
    unb[0]["ub"] = None
    out.append({"algo": "MC", "space": unb, "settings": {"n_samples": 3}, "mode": "compute", "int_norm": False,
                "expect_refusal": "unbounded"})
    return out


def run_any(case, rep, scratch):
    if case.get("expect_refusal") == "unbounded":
        ds = build_space(case["space"])
        try:
            fresh(case["algo"]).compute_doe(ds, **materialize(case, scratch))
        except ValueError:
            rep.count("refusals")
            rep.count("refusals:unbounded-space")
        else:
            rep.observe("unbounded-space-was-sampled", case)
        return
    if case.get("observe_only") == "normalize_design_space":
        observe_normalized_execution(case, rep, scratch)
        return
    run_case(case, rep, scratch)


def observe_normalized_execution(case, rep, scratch):
    from gemseo.algos.optimization_problem import OptimizationProblem
    from gemseo.core.mdo_functions.mdo_function import MDOFunction

    ds = build_space(case["space"])
    problem = OptimizationProblem(ds)
    problem.objective = MDOFunction(lambda x: float(np.sum(x)), "f")
    lib = fresh(case["algo"])
    err = None
    try:
        lib.execute(problem, enable_progress_bar=False, log_problem=False, normalize_design_space=True,
                    **materialize(case, scratch))
    except Exception as e:
        err = f"{type(e).__name__}: {str(e)[:200]}"
    hist = [np.asarray(h, dtype=float) for h in problem.database.get_x_vect_history()]
    samples = np.asarray(lib.samples, dtype=float)
    same = len(hist) == len(dedup_rows(samples)) and all(np.array_equal(h, r) for h, r in zip(hist, dedup_rows(samples)))
    rep.count("normalize_design_space_observed")
    if not same or err:
        rep.observe("execute(normalize_design_space=True) evaluates/records points other than library.samples "
                    "(outside the statement; reported by C03)", {"error": err, "first_recorded": hist[:1],
                                                                  "first_sample": samples[:1]})


# --------------------------------------------------------------------------- entry points
def run_shard(spec, rep):
    rng = np.random.default_rng(spec["seed"])
    scratch = spec["scratch"]
    if spec.get("shard", 0) == 0:
        for case in directed_cases():
            run_any(case, rep, scratch)
            rep.count("directed_cases")
    sampled = 0
    for r in range(spec["rounds"]):
        for algo in ALGOS:
            if rep.time_left() < 0:
                rep.count("stopped_on_time_budget")
                return
            case = gen_case(rng, algo)
            run_any(case, rep, scratch)
            if r == 0 and sampled < 4 and int(rng.integers(8)) == 0:
                rep.sample({"case": case, "note": "generated case: count, bounds, integrality, image of the unit "
                                                  "samples, reproducibility (and execute when mode=execute)"})
                sampled += 1


def replay(case, rep):
    run_any(case, rep, rep.spec["scratch"])
