"""C19 — probability distributions and parameter spaces are self-consistent.

Monitors: (M4) closed-form laws of ``vlib/ref/c19_laws.py`` (CDF, quantile, mean, variance, support),
SP-vs-OT differential twins, (M7) finiteness of every returned number, (M8) anchors, plus
seed-deterministic statistical clauses (DKW band at 1e-11, mean at 8 and std at 10 standard errors).
See DESIGN.md section 3, C19.
"""

from __future__ import annotations

import math

import numpy as np

from vlib.gen import c19_cases as gen
from vlib.harness import subseed
from vlib.ref import c19_laws as laws

PID = "C19"
LEVEL = "exploration"
RULE = (
    "seeded generator over (law family incl. generic SPDistribution/OTDistribution laws, construction route, "
    "OpenTURNS option: none / truncation below / above / both / affine transformation / affine+truncation / exp, "
    "parameter regime: scale decade, zero or non-zero location, shape below or above 1) judged on a 23-point "
    "probability grid, moments, support, range and 20000 samples; mixed random/deterministic parameter spaces "
    "(1-5 variables of size 1-3, shared or per-component parameters, float/integer/half-bounded deterministic "
    "variables) built once per library; statistics estimators on the generated samples. A case is distinct by "
    "that tuple (numeric parameter values excluded) and non-trivial when the law is not degenerate (Dirac)"
)
ASSUMPTIONS = [
    "closed forms are evaluated in IEEE double precision with scipy.special primitives (erfc, ndtri, betainc, gammainc "
    "and inverses); an observed CDF value passes when it lies within the closed-form CDF evaluated at x*(1 +- 1e-12) "
    "widened by the clause tolerance (conditioning of x - location)",
    "tolerances: 1e-9 (plain laws), 1e-7 (OpenTURNS truncation) and 1e-6 (OpenTURNS symbolic transformation, whose "
    "CDF OpenTURNS obtains numerically) and 1e-3 standard deviations for the moments of truncated/transformed laws "
    "(numerical integration inside OpenTURNS); truncated/transformed laws are drawn with shape parameters >= 1.5",
    "icdf(cdf(x)) = x of an OpenTURNS truncated / transformed law (numerical quantile) is judged through the CDF residual: "
    "|x' - x| <= tol*IQR or |F(x') - F(x)| <= tol with tol = 1e-7 (truncated), 1e-6 (transformed), 3e-6 (both), i.e. "
    "|dx| <= tol / pdf(x); for plain laws only a CDF equal within 1e-13 excuses a difference in x",
    "equality of the numerical ranges of SciPy and OpenTURNS is not demanded; a range must be finite, inside the "
    "support and leave at most 1e-6 probability on each side",
    "the reported support of an OpenTURNS *transformed* unbounded law is OpenTURNS' numerical range; this is "
    "recorded as an observation, not judged",
    "statistical clauses: Dvoretzky-Kiefer-Wolfowitz band with failure probability 1e-11, sample mean at 8 standard "
    "errors (kurtosis <= 30), sample standard deviation at 10 standard errors (kurtosis <= 10); random generators of "
    "numpy and OpenTURNS are seeded from the shard seed",
]
ANCHORS = [
    "gemseo.uncertainty.distributions.scipy.distribution:SPDistribution._create_distribution",
    "gemseo.uncertainty.distributions.scipy.distribution:SPDistribution.compute_cdf",
    "gemseo.uncertainty.distributions.scipy.distribution:SPDistribution.compute_inverse_cdf",
    "gemseo.uncertainty.distributions.scipy.distribution:SPDistribution.compute_samples",
    "gemseo.uncertainty.distributions.scipy.distribution:SPDistribution.mean",
    "gemseo.uncertainty.distributions.scipy.distribution:SPDistribution.standard_deviation",
    "gemseo.uncertainty.distributions.openturns.distribution:OTDistribution._create_distribution",
    "gemseo.uncertainty.distributions.openturns.distribution:OTDistribution.compute_cdf",
    "gemseo.uncertainty.distributions.openturns.distribution:OTDistribution.compute_inverse_cdf",
    "gemseo.uncertainty.distributions.openturns.distribution:OTDistribution.compute_samples",
    "gemseo.uncertainty.distributions.openturns.distribution:OTDistribution.mean",
    "gemseo.uncertainty.distributions.openturns.distribution:OTDistribution.standard_deviation",
    "gemseo.uncertainty.distributions.openturns.distribution:OTDistribution.__truncate_distribution",
    "gemseo.uncertainty.distributions.openturns.distribution:OTDistribution.__transform_distribution",
    "gemseo.uncertainty.distributions.openturns.distribution:OTDistribution.__set_bounds",
    "gemseo.uncertainty.distributions.base_distribution:BaseDistribution.range",
    "gemseo.uncertainty.distributions.base_distribution:BaseDistribution.support",
    "gemseo.uncertainty.distributions._log_normal_utils:compute_mu_l_and_sigma_l",
    "gemseo.uncertainty.distributions.base_joint:BaseJointDistribution.compute_samples",
    "gemseo.uncertainty.distributions.base_joint:BaseJointDistribution.range",
    "gemseo.uncertainty.distributions.base_joint:BaseJointDistribution.support",
    "gemseo.uncertainty.distributions.scipy.joint:SPJointDistribution.compute_cdf",
    "gemseo.uncertainty.distributions.scipy.joint:SPJointDistribution.compute_inverse_cdf",
    "gemseo.uncertainty.distributions.openturns.joint:OTJointDistribution.compute_cdf",
    "gemseo.uncertainty.distributions.openturns.joint:OTJointDistribution.compute_inverse_cdf",
    "gemseo.uncertainty.distributions.openturns.joint:OTJointDistribution.compute_samples",
    "gemseo.algos.parameter_space:ParameterSpace.add_random_vector",
    "gemseo.algos.parameter_space:ParameterSpace.build_joint_distribution",
    "gemseo.algos.parameter_space:ParameterSpace.transform_vect",
    "gemseo.algos.parameter_space:ParameterSpace.untransform_vect",
    "gemseo.algos.parameter_space:ParameterSpace.normalize_vect",
    "gemseo.algos.parameter_space:ParameterSpace.unnormalize_vect",
    "gemseo.algos.parameter_space:ParameterSpace.evaluate_cdf",
    "gemseo.algos.parameter_space:ParameterSpace.compute_samples",
    "gemseo.algos.parameter_space:ParameterSpace.get_range",
    "gemseo.algos.parameter_space:ParameterSpace.get_support",
    "gemseo.algos.parameter_space:ParameterSpace.rename_variable",
    "gemseo.algos.parameter_space:ParameterSpace.remove_variable",
    "gemseo.algos.parameter_space:ParameterSpace.extract_uncertain_space",
    "gemseo.algos.parameter_space:ParameterSpace.extract_deterministic_space",
    "gemseo.algos.parameter_space:ParameterSpace.add_variables_from",
    "gemseo.uncertainty.statistics.empirical_statistics:EmpiricalStatistics.compute_mean",
    "gemseo.uncertainty.statistics.empirical_statistics:EmpiricalStatistics.compute_standard_deviation",
    "gemseo.uncertainty.statistics.empirical_statistics:EmpiricalStatistics.compute_quantile",
    "gemseo.uncertainty.statistics.empirical_statistics:EmpiricalStatistics.compute_minimum",
    "gemseo.uncertainty.statistics.empirical_statistics:EmpiricalStatistics.compute_maximum",
    "gemseo.uncertainty.statistics.parametric_statistics:ParametricStatistics.compute_mean",
    "gemseo.uncertainty.statistics.parametric_statistics:ParametricStatistics.compute_quantile",
    "gemseo.uncertainty.statistics.parametric_statistics:ParametricStatistics.compute_probability",
]
MIN_COUNTERS = {
    "quick": {"cdf_vs_closed_form": 28500, "quantile_vs_closed_form": 28500, "cdf_of_icdf": 28500, "icdf_of_cdf": 28500,
              "moments_vs_closed_form": 1200, "range_checked": 1290, "support_checked": 1290, "dkw_bands_checked": 2700,
              "sample_mean_checked": 2250, "sp_vs_ot_compared": 420, "transform_random_component_checked": 6000,
              "transform_deterministic_component_checked": 2100, "untransform_random_component_checked": 6000,
              "space_sample_columns_checked": 1500, "sp_vs_ot_spaces_compared": 165, "empirical_statistics_vs_numpy": 6000,
              "empirical_quantile_vs_law": 810, "parametric_statistics_checked": 120, "two_dimensional_inputs_checked": 420,
              "spaces_edited_before_sampling": 150, "renamed_random_variables_not_last": 100, "joint_rebuilt_after_renaming_a_random_variable_not_last": 50, "renamed_deterministic_variables": 15, "removed_random_variables": 30, "random_variables_added_after_construction": 70, "filtered_spaces": 35, "extracted_uncertain_spaces": 15, "joint_distributions_rebuilt": 40, "spaces_copied_with_add_variables_from": 25, "spaces_queried_before_the_edits": 150, "as_dict_keys_checked_against_their_law": 1800, "joint_distribution_order_checked": 450,
              "parameters_at_boundary_values": 390, "truncation_bound_exactly_zero_one_sided": 28, "truncation_bound_exactly_zero_two_sided": 27, "python_int_arguments": 160, "affine_transformation_unit_slope_or_zero_offset": 38, "truncation_bound_on_the_mean_median_or_mode": 25, "negative_zero_parameters": 18, "space_random_variables_at_boundary_values": 320, "space_truncation_bound_exactly_zero_one_sided": 5, "deterministic_bounds_at_boundary_values": 50},
    "thorough": {"cdf_vs_closed_form": 660000, "quantile_vs_closed_form": 660000, "cdf_of_icdf": 660000,
                 "icdf_of_cdf": 660000, "moments_vs_closed_form": 28000, "range_checked": 29000, "support_checked": 29000,
                 "dkw_bands_checked": 56000, "sample_mean_checked": 44000, "sp_vs_ot_compared": 9600,
                 "transform_random_component_checked": 110000, "transform_deterministic_component_checked": 48000,
                 "untransform_random_component_checked": 110000, "space_sample_columns_checked": 27000,
                 "sp_vs_ot_spaces_compared": 3400, "empirical_statistics_vs_numpy": 110000,
                 "empirical_quantile_vs_law": 14800, "parametric_statistics_checked": 2200,
                 "two_dimensional_inputs_checked": 7600,
                 "spaces_edited_before_sampling": 2250, "renamed_random_variables_not_last": 1500, "joint_rebuilt_after_renaming_a_random_variable_not_last": 750, "renamed_deterministic_variables": 225, "removed_random_variables": 450, "random_variables_added_after_construction": 1050, "filtered_spaces": 525, "extracted_uncertain_spaces": 225, "joint_distributions_rebuilt": 600, "spaces_copied_with_add_variables_from": 375, "spaces_queried_before_the_edits": 2250, "as_dict_keys_checked_against_their_law": 27000, "joint_distribution_order_checked": 6750,
                 "parameters_at_boundary_values": 4680, "truncation_bound_exactly_zero_one_sided": 336, "truncation_bound_exactly_zero_two_sided": 324, "python_int_arguments": 1920, "affine_transformation_unit_slope_or_zero_offset": 456, "truncation_bound_on_the_mean_median_or_mode": 300, "negative_zero_parameters": 216, "space_random_variables_at_boundary_values": 3840, "space_truncation_bound_exactly_zero_one_sided": 60, "deterministic_bounds_at_boundary_values": 600},
}
SHARD_TIMEOUT = {"quick": 900, "thorough": 4000}

N_SAMPLES = 20000
N_DICT = 400
DKW = math.sqrt(math.log(2.0 / 1e-11) / (2.0 * N_SAMPLES))      # P(sup|Fn - F| > DKW) <= 1e-11
P_GRID = np.concatenate([[1e-3, 1e-2], np.linspace(0.05, 0.95, 19), [0.99, 0.999]])
XREL = 1e-12

CLS = {"uniform": "UniformDistribution", "normal": "NormalDistribution", "lognormal": "LogNormalDistribution",
       "triangular": "TriangularDistribution", "exponential": "ExponentialDistribution",
       "weibull": "WeibullDistribution", "beta": "BetaDistribution", "dirac": "DiracDistribution"}


def shards(tier, seed):
    n = 16
    reps = {"quick": 6, "thorough": 200}[tier]
    spaces = {"quick": 60, "thorough": 800}[tier]
    return [{"seed": subseed(seed, PID, i), "reps": reps, "n_spaces": spaces,
             "budget_s": {"quick": 350, "thorough": 3000}[tier]} for i in range(n)]


# --------------------------------------------------------------------------- construction of the real objects
def generic_args(lib, fam, p):
    """Name and parameters of the law in the interfaced library (documented SciPy / OpenTURNS signatures)."""
    if lib == "SP":
        return {
            "normal": lambda: ("norm", {"loc": p["mu"], "scale": p["sigma"]}),
            "uniform": lambda: ("uniform", {"loc": p["minimum"], "scale": p["maximum"] - p["minimum"]}),
            "exponential": lambda: ("expon", {"loc": p["loc"], "scale": 1.0 / p["rate"]}),
            "gamma": lambda: ("gamma", {"a": p["k"], "loc": p["loc"], "scale": 1.0 / p["rate"]}),
            "gumbel": lambda: ("gumbel_r", {"loc": p["loc"], "scale": p["scale"]}),
            "logistic": lambda: ("logistic", {"loc": p["mu"], "scale": p["scale"]}),
            "laplace": lambda: ("laplace", {"loc": p["mu"], "scale": p["scale"]}),
            "rayleigh": lambda: ("rayleigh", {"loc": p["loc"], "scale": p["scale"]}),
        }[fam]()
    return {
        "normal": lambda: ("Normal", (p["mu"], p["sigma"])),
        "uniform": lambda: ("Uniform", (p["minimum"], p["maximum"])),
        "exponential": lambda: ("Exponential", (p["rate"], p["loc"])),
        "gamma": lambda: ("Gamma", (p["k"], p["rate"], p["loc"])),
        "gumbel": lambda: ("Gumbel", (p["scale"], p["loc"])),
        "logistic": lambda: ("Logistic", (p["mu"], p["scale"])),
        "laplace": lambda: ("Laplace", (p["mu"], 1.0 / p["scale"])),
        "rayleigh": lambda: ("Rayleigh", (p["scale"], p["loc"])),
    }[fam]()


def ot_options(desc):
    kw = {}
    tr = desc.get("transform")
    if tr:
        if tr[0] == "affine":
            neg = math.copysign(1.0, tr[2]) < 0          # also true for -0.0
            kw["transformation"] = f"{tr[1]!r}*x" + (f"-{abs(tr[2])!r}" if neg else f"+{tr[2]!r}")
        else:
            kw["transformation"] = "exp(x)"
    tc = desc.get("trunc")
    if tc:
        if tc[0] is not None:
            kw["lower_bound"] = tc[0]
        if tc[1] is not None:
            kw["upper_bound"] = tc[1]
    return kw


_FACTORY = []


def factory():
    if not _FACTORY:
        from gemseo.uncertainty.distributions.factory import DistributionFactory

        _FACTORY.append(DistributionFactory())
    return _FACTORY[0]


def build_dist(lib, desc):
    fam, p = desc["family"], desc["params"]
    kw = ot_options(desc) if lib == "OT" else {}
    if desc.get("via") == "generic":
        name, par = generic_args(lib, fam, p)
        return factory().create(lib + "Distribution", interfaced_distribution=name, parameters=par, **kw)
    return factory().create(lib + CLS[fam], **p, **kw)


def seed_all(seed):
    import openturns as ot

    np.random.seed(seed % (2**32 - 1))
    ot.RandomGenerator.SetSeed(int(seed % (2**31 - 1)))


def seed_space(ps, lib, seed):
    """Seed every generator a parameter space may draw from.

    SciPy frozen laws draw from numpy's global generator, except after a deep copy of the space
    (``filter(copy=True)``, ``extract_uncertain_space``) which gives them private copies of it: these are reseeded too.
    """
    seed_all(seed)
    if lib == "SP" and ps.distribution is not None:
        for k, m in enumerate(ps.distribution.marginals):
            m.distribution.random_state = np.random.RandomState((seed + 7919 * (k + 1)) % (2**32 - 1))


# --------------------------------------------------------------------------- tolerances and small predicates
def tol_of(desc):
    if desc.get("transform") and desc.get("trunc"):
        # ot.TruncatedDistribution(ot.CompositeDistribution(...)).computeQuantile is off by up to 7.4e-7 in probability
        # (measured with OpenTURNS alone, see notes/C19.md (g)); 4x margin
        return 3e-6
    if desc.get("transform"):
        return 1e-6
    if desc.get("trunc"):
        return 1e-7
    return 1e-9


def law_scale(law):
    if isinstance(law, laws.Dirac):
        return 1.0
    q = law.ppf(np.array([0.25, 0.75]))
    s = float(q[1] - q[0])
    return s if s > 0 and math.isfinite(s) else 1.0


def cond_pad(desc, x):
    """Half-width in x of the interval inside which the argument of the CDF is not distinguishable."""
    m = abs(x)
    for v in desc["params"].values():
        if isinstance(v, (int, float)) and not isinstance(v, bool):
            m = max(m, abs(v))
    tr = desc.get("transform")
    if tr and tr[0] == "affine":
        m = max(m, abs(tr[2])) * max(1.0, abs(tr[1]), 1.0 / abs(tr[1]))
    return XREL * m


def cdf_within(law, desc, x, c, tol):
    d = cond_pad(desc, x)
    lo = float(law.cdf(x - d)) - tol
    hi = float(law.cdf(x + d)) + tol
    return lo <= c <= hi


def feat(desc):
    f = [desc["family"], desc.get("via", "class")]
    p = desc["params"]
    if "set_log" in p:
        f.append("set_log" if p["set_log"] else "moments")
    if "use_weibull_min" in p:
        f.append("min" if p["use_weibull_min"] else "max")
    if desc.get("transform"):
        f.append("transform-" + desc["transform"][0])
    tc = desc.get("trunc")
    if tc:
        f.append("trunc-" + ("both" if tc[0] is not None and tc[1] is not None else "lower" if tc[0] is not None else "upper"))
    return "+".join(f)


def law_signature(desc):
    p = desc["params"]
    law = laws.build(desc)
    regime = [int(math.floor(math.log10(law_scale(law))))]
    for k in ("loc", "location", "minimum", "mu"):
        if k in p:
            regime.append(p[k] == 0.0)
            break
    for k in ("alpha", "beta", "k", "shape"):
        if k in p:
            regime.append(p[k] < 1.0)
    if desc["family"] == "triangular":
        regime.append(p["mode"] in (p["minimum"], p["maximum"]))
    return ("law", feat(desc), tuple(desc["libs"]), tuple(regime), tuple(sorted(set(boundary_tags(desc)))))


def _is_int(v):
    return isinstance(v, int) and not isinstance(v, bool)


def boundary_tags(desc):
    """What is special about the numbers of a law description (computed from the numbers, not from the generator)."""
    tags = []
    p = desc["params"]
    vals = [v for v in p.values() if isinstance(v, (int, float)) and not isinstance(v, bool)]
    if any(v == 0 for v in vals):
        tags.append("parameter-zero")
    if any(isinstance(v, float) and v == 0 and math.copysign(1.0, v) < 0 for v in vals):
        tags.append("parameter-negative-zero")
    if any(_is_int(v) for v in vals):
        tags.append("parameter-python-int")
    if any(v == 1 for v in vals):
        tags.append("parameter-one")
    tc = desc.get("trunc")
    if tc:
        one_sided = (tc[0] is None) != (tc[1] is None)
        for side, b in zip(("lower", "upper"), tc):
            if b is None:
                continue
            if b == 0:
                tags.append(f"trunc-{side}-zero" + ("-one-sided" if one_sided else "-two-sided"))
            elif float(b) in (1.0, -1.0):
                tags.append(f"trunc-{side}-unit")
            if _is_int(b):
                tags.append("trunc-python-int")
    tr = desc.get("transform")
    if tr and tr[0] == "affine":
        if abs(tr[1]) == 1:
            tags.append("slope-unit")
        if tr[2] == 0:
            tags.append("offset-zero")
        if _is_int(tr[1]) or _is_int(tr[2]):
            tags.append("transform-python-int")
    tags.extend("gen-" + t for t in desc.get("boundary") or [] if t.startswith("trunc-m"))
    return tags


def count_boundary(desc, rep, where="law"):
    tags = boundary_tags(desc)
    if tags:
        rep.count("parameters_at_boundary_values")
    for t in tags:
        if t.endswith("-zero-one-sided"):
            rep.count("truncation_bound_exactly_zero_one_sided")
        elif t.endswith("-zero-two-sided"):
            rep.count("truncation_bound_exactly_zero_two_sided")
        elif t in ("parameter-python-int", "trunc-python-int", "transform-python-int"):
            rep.count("python_int_arguments")
        elif t in ("slope-unit", "offset-zero"):
            rep.count("affine_transformation_unit_slope_or_zero_offset")
        elif t.startswith("gen-trunc-m"):
            rep.count("truncation_bound_on_the_mean_median_or_mode")
        elif t == "parameter-negative-zero":
            rep.count("negative_zero_parameters")
        elif t == "parameter-zero":
            rep.count("parameters_exactly_zero")


def finite(*vals):
    return all(np.all(np.isfinite(np.asarray(v, dtype=float))) for v in vals)


# --------------------------------------------------------------------------- one law, one library
def judge_dist(lib, desc, law, rep, seed):
    """All single-library clauses.  Returns a dict of what was observed (for the SP-vs-OT clause) or None."""
    ft = feat(desc)
    tol = tol_of(desc)
    sig = f"C19:{lib}:{ft}"
    try:
        g = build_dist(lib, desc)
    except Exception as e:  # admissible parameters: the law must be constructible
        rep.violation(f"{sig}:construction-raises:{type(e).__name__}", "distribution is constructible", desc,
                      observed=f"{type(e).__name__}: {e}"[:400], expected="a distribution object")
        return None
    rep.count(f"laws_built_{lib}")
    scale = law_scale(law)
    dirac = isinstance(law, laws.Dirac)
    out = {"g": g}

    # -- closed-form CDF / quantile on the grid
    xs = np.atleast_1d(law.ppf(P_GRID)).astype(float) if not dirac else np.array([law.v - 1.0, law.v, law.v + 1.0])
    try:
        c = np.array([float(g.compute_cdf(float(x))) for x in xs])
        q = np.array([float(g.compute_inverse_cdf(float(p))) for p in P_GRID])
    except Exception as e:
        rep.violation(f"{sig}:cdf-or-quantile-raises:{type(e).__name__}", "cdf / inverse cdf return a value", desc,
                      observed=f"{type(e).__name__}: {e}"[:400])
        return None
    out["cdf"], out["ppf"], out["xs"] = c, q, xs
    if not finite(c, q):
        rep.violation(f"{sig}:non-finite-cdf-or-quantile", "finite values", desc, observed={"cdf": c, "quantile": q})
        return None
    if dirac:
        rep.count("cdf_vs_closed_form", 3)
        if not (c[0] == 0.0 and c[1] == 1.0 and c[2] == 1.0 and np.all(q == law.v)):
            rep.violation(f"{sig}:dirac-cdf-or-quantile", "cdf/quantile equal the closed form", desc,
                          observed={"cdf": c, "quantile": q}, expected={"cdf": [0, 1, 1], "quantile": law.v})
    else:
        cref = law.cdf(xs)
        for x, ci, pi in zip(xs, c, P_GRID):
            rep.count("cdf_vs_closed_form")
            if not cdf_within(law, desc, float(x), float(ci), tol):
                rep.violation(f"{sig}:cdf-differs-from-closed-form", "cdf equals the closed form", desc,
                              observed={"x": x, "cdf": ci}, expected={"cdf": float(law.cdf(x)), "tol": tol})
                break
        qref = law.ppf(P_GRID)
        for p_, qi, qr in zip(P_GRID, q, qref):
            rep.count("quantile_vs_closed_form")
            ok_x = abs(qi - qr) <= tol * scale + cond_pad(desc, float(qr))
            d = cond_pad(desc, float(qi))
            ok_p = float(law.cdf(qi - d)) - tol <= p_ <= float(law.cdf(qi + d)) + tol
            if not (ok_x or ok_p):
                rep.violation(f"{sig}:quantile-differs-from-closed-form", "inverse cdf equals the closed form", desc,
                              observed={"p": p_, "quantile": qi}, expected={"quantile": float(qr), "tol_x": tol * scale})
                break
        del cref

        # -- mutual inverses
        for p_, qi in zip(P_GRID, q):
            rep.count("cdf_of_icdf")
            back = float(g.compute_cdf(float(qi)))
            if abs(back - p_) > tol:
                d = cond_pad(desc, float(qi))
                lo = float(g.compute_cdf(float(qi - d))) - tol
                hi = float(g.compute_cdf(float(qi + d))) + tol
                if not lo <= p_ <= hi:
                    rep.violation(f"{sig}:cdf-of-inverse-cdf-is-not-identity", "cdf(icdf(p)) = p", desc,
                                  observed={"p": p_, "icdf": qi, "cdf(icdf)": back}, expected=p_)
                    break
        for x, ci in zip(xs, c):
            rep.count("icdf_of_cdf")
            back = float(g.compute_inverse_cdf(float(ci)))
            if abs(back - x) > tol * scale + cond_pad(desc, float(x)):
                # plain laws: only a flat CDF (equal to 1e-13) excuses a difference in x.  OpenTURNS truncated /
                # transformed laws have a *numerical* quantile: it is judged through the CDF residual, i.e.
                # |dx| <= tol_p / pdf(x) written with the observed and the closed-form CDF
                ptol = tol if (desc.get("transform") or desc.get("trunc")) else 1e-13
                if abs(float(g.compute_cdf(back)) - ci) > ptol and abs(float(law.cdf(back)) - float(law.cdf(x))) > ptol:
                    rep.violation(f"{sig}:inverse-cdf-of-cdf-is-not-identity", "icdf(cdf(x)) = x", desc,
                                  observed={"x": x, "cdf": ci, "icdf(cdf)": back}, expected=x)
                    break

    # -- moments
    try:
        m_obs, s_obs = float(g.mean), float(g.standard_deviation)
    except Exception as e:
        rep.violation(f"{sig}:moments-raise:{type(e).__name__}", "mean / standard deviation return a value", desc,
                      observed=f"{type(e).__name__}: {e}"[:400])
        return None
    out["mean"], out["std"] = m_obs, s_obs
    m_ref, s_ref = law.mean(), law.std()
    if m_ref is not None and s_ref is not None:
        rep.count("moments_vs_closed_form")
        pad = cond_pad(desc, m_ref)
        mtol = tol
        if desc.get("trunc") or desc.get("transform"):
            # OpenTURNS integrates these moments numerically (observed off by 1e-4 std next to a kink of the density)
            mtol = 1e-3
        if not finite(m_obs, s_obs):
            rep.violation(f"{sig}:non-finite-moments", "finite moments", desc, observed=[m_obs, s_obs], expected=[m_ref, s_ref])
        else:
            if abs(m_obs - m_ref) > mtol * max(s_ref, scale if dirac else 0.0) + pad:
                rep.violation(f"{sig}:mean-differs-from-closed-form", "mean equals the analytical mean", desc,
                              observed=m_obs, expected=m_ref)
            if abs(s_obs - s_ref) > mtol * s_ref:
                rep.violation(f"{sig}:std-differs-from-closed-form", "standard deviation equals the analytical one", desc,
                              observed=s_obs, expected=s_ref)
    else:
        rep.count("moments_without_closed_form")

    # -- support and range
    sup = np.asarray(g.support, dtype=float)
    rng_ = np.asarray(g.range, dtype=float)
    out["support"], out["range"] = sup, rng_
    lo, hi = law.support()
    rep.count("support_checked")
    sup_ok = True
    for a, b in zip(sup, (lo, hi)):
        if math.isinf(b):
            sup_ok = sup_ok and a == b
        else:
            sup_ok = sup_ok and abs(a - b) <= tol * scale + cond_pad(desc, b)
    if sup.shape != (2,) or np.any(np.isnan(sup)):
        rep.violation(f"{sig}:support-malformed", "support is [lower, upper]", desc, observed=sup, expected=[lo, hi])
    elif not sup_ok:
        if desc.get("transform") and (math.isinf(lo) or math.isinf(hi)):
            rep.observe("support-of-transformed-unbounded-law-is-the-numerical-range",
                        {"case": desc, "reported": sup, "analytical": [lo, hi]})
        else:
            rep.violation(f"{sig}:support-differs-from-closed-form", "support equals the analytical support", desc,
                          observed=sup, expected=[lo, hi])
    rep.count("range_checked")
    if rng_.shape != (2,) or not finite(rng_) or rng_[0] > rng_[1]:
        rep.violation(f"{sig}:range-malformed", "range is a finite interval", desc, observed=rng_)
    else:
        pad = tol * scale + cond_pad(desc, float(rng_[0])) + cond_pad(desc, float(rng_[1]))
        if rng_[0] < lo - pad or rng_[1] > hi + pad or rng_[0] < sup[0] - pad or rng_[1] > sup[1] + pad:
            rep.violation(f"{sig}:range-outside-support", "range lies inside the support", desc,
                          observed={"range": rng_, "support": sup}, expected=[lo, hi])
        left = float(law.cdf(rng_[0] - cond_pad(desc, float(rng_[0])))) if not dirac else 0.0
        right = float(law.sf(rng_[1] + cond_pad(desc, float(rng_[1])))) if not dirac else 0.0
        if left > 1e-6 + tol or right > 1e-6 + tol:
            rep.violation(f"{sig}:range-cuts-probability-mass", "range covers the law up to 1e-6 on each side", desc,
                          observed={"range": rng_, "mass_left": left, "mass_right": right}, expected="<= 1e-6")

    # -- samples
    try:
        if lib == "SP":
            smp = np.asarray(g.compute_samples(N_SAMPLES, random_state=int(seed % (2**31 - 1))))
        else:
            seed_all(seed)
            smp = np.asarray(g.compute_samples(N_SAMPLES))
    except Exception as e:
        rep.violation(f"{sig}:sampling-raises:{type(e).__name__}", "compute_samples returns samples", desc,
                      observed=f"{type(e).__name__}: {e}"[:400])
        return out
    rep.count("sample_sets")
    if smp.shape != (N_SAMPLES,):
        rep.violation(f"{sig}:samples-shape", "n samples of a scalar variable", desc, observed=list(smp.shape), expected=[N_SAMPLES])
        return out
    judge_sample_column(smp, law, desc, sup, rng_, sig, rep, "samples")
    return out


def judge_sample_column(smp, law, desc, sup, rng_, sig, rep, what, case=None):
    """Samples of one scalar component against its law: support, DKW band, mean and std."""
    payload = desc if case is None else dict(case, failing_law=desc)
    n = smp.size
    if not finite(smp):
        rep.violation(f"{sig}:{what}-non-finite", "finite samples", payload, observed=smp[~np.isfinite(smp)][:5])
        return
    lo, hi = law.support()
    pad = cond_pad(desc, float(np.max(np.abs(smp))))
    rep.count("samples_checked_in_support", n)
    if smp.min() < sup[0] - pad or smp.max() > sup[1] + pad or smp.min() < lo - pad - 1e-9 * law_scale(law) or smp.max() > hi + pad + 1e-9 * law_scale(law):
        rep.violation(f"{sig}:{what}-outside-support", "samples lie in the reported support", payload,
                      observed={"min": smp.min(), "max": smp.max()}, expected={"reported": sup, "analytical": [lo, hi]})
    if rng_ is not None and (smp.min() < rng_[0] - pad or smp.max() > rng_[1] + pad):
        rep.observe("sample-outside-numerical-range", {"case": desc, "min": smp.min(), "max": smp.max(), "range": rng_})
    if isinstance(law, laws.Dirac):
        if np.any(smp != law.v):
            rep.violation(f"{sig}:{what}-dirac", "Dirac samples equal the value", payload, observed=smp[:5], expected=law.v)
        return
    band = math.sqrt(math.log(2.0 / 1e-11) / (2.0 * n))
    s = np.sort(smp)
    F = np.asarray(law.cdf(s), dtype=float)
    i = np.arange(1, n + 1)
    dist = max(float(np.max(i / n - F)), float(np.max(F - (i - 1) / n)))
    rep.count("dkw_bands_checked")
    if dist > band + tol_of(desc):
        rep.violation(f"{sig}:{what}-do-not-follow-the-law", "empirical CDF within the DKW band (1e-11) of the closed-form CDF",
                      payload, observed={"sup_distance": dist, "sample_mean": smp.mean(), "sample_std": smp.std()},
                      expected={"band": band, "mean": law.mean(), "std": law.std()})
        return
    k = law.kurt()
    if k is not None and law.mean() is not None and n >= 10000:   # the CLT-based thresholds are only used on large samples
        sd = law.std()
        if k <= 30:
            rep.count("sample_mean_checked")
            if abs(smp.mean() - law.mean()) > 8 * sd / math.sqrt(n) + cond_pad(desc, law.mean()):
                rep.violation(f"{sig}:{what}-mean-off", "sample mean within 8 standard errors", payload,
                              observed=smp.mean(), expected={"mean": law.mean(), "se": sd / math.sqrt(n)})
        if k <= 10:
            rep.count("sample_std_checked")
            se_var = sd * sd * math.sqrt((k - 1.0) / n)
            if abs(smp.var() - sd * sd) > 10 * se_var + 2 * sd * sd / n:
                rep.violation(f"{sig}:{what}-std-off", "sample variance within 10 standard errors", payload,
                              observed=smp.std(), expected={"std": sd, "se_var": se_var})


def run_law_case(desc, rep, seed):
    law = laws.build(desc)
    rep.case(law_signature(desc), nontrivial=not isinstance(law, laws.Dirac))
    count_boundary(desc, rep)
    res = {}
    for lib in desc["libs"]:
        res[lib] = judge_dist(lib, desc, law, rep, seed)
    a, b = res.get("SP"), res.get("OT")
    if not a or not b or "mean" not in a or "mean" not in b:
        return
    # SP-vs-OT agreement on the same grid, moments and support
    ft = feat(desc)
    tol = tol_of(desc)
    scale = law_scale(law)
    rep.count("sp_vs_ot_compared")
    for x, ca, cb in zip(a["xs"], a["cdf"], b["cdf"]):
        if abs(ca - cb) > tol:
            d = cond_pad(desc, float(x))
            span = abs(float(law.cdf(x + d)) - float(law.cdf(x - d)))
            if abs(ca - cb) > tol + span:
                rep.violation(f"C19:SP-vs-OT:{ft}:cdf", "SciPy and OpenTURNS versions agree", desc,
                              observed={"x": x, "SP": ca, "OT": cb})
                break
    for p_, qa, qb in zip(P_GRID, a["ppf"], b["ppf"]):
        if abs(qa - qb) > tol * scale + cond_pad(desc, float(qa)):
            ga = a["g"]
            if abs(float(ga.compute_cdf(float(qa))) - float(ga.compute_cdf(float(qb)))) > tol:
                rep.violation(f"C19:SP-vs-OT:{ft}:quantile", "SciPy and OpenTURNS versions agree", desc,
                              observed={"p": p_, "SP": qa, "OT": qb})
                break
    if finite(a["mean"], b["mean"], a["std"], b["std"]):
        if abs(a["mean"] - b["mean"]) > tol * a["std"] + cond_pad(desc, a["mean"]) or abs(a["std"] - b["std"]) > tol * a["std"]:
            rep.violation(f"C19:SP-vs-OT:{ft}:moments", "SciPy and OpenTURNS versions agree", desc,
                          observed={"SP": [a["mean"], a["std"]], "OT": [b["mean"], b["std"]]})
    for u, v in zip(a["support"], b["support"]):
        if not (u == v or abs(u - v) <= tol * scale + cond_pad(desc, float(u))):
            rep.violation(f"C19:SP-vs-OT:{ft}:support", "SciPy and OpenTURNS versions agree", desc,
                          observed={"SP": a["support"], "OT": b["support"]})
            break


# --------------------------------------------------------------------------- parameter spaces
def add_var(ps, lib, v):
    """Add one variable of the case description to a real parameter space."""
    if v["role"] == "det":
        ub = np.array([np.inf if u is None else u for u in v["ub"]], dtype=float)
        lb = np.array(v["lb"], dtype=float)
        if v["type"] == "integer":
            ps.add_variable(v["name"], v["size"], "integer", lower_bound=lb.astype(int), upper_bound=ub.astype(int))
        elif v.get("scalar") and v["size"] == 1 and v["ub"][0] is not None:
            # plain Python numbers (possibly ints, possibly -0.0) where the API accepts numbers
            ps.add_variable(v["name"], 1, "float", lower_bound=v["lb"][0], upper_bound=v["ub"][0])
        else:
            ps.add_variable(v["name"], v["size"], "float", lower_bound=lb, upper_bound=ub)
        return
    d0 = v["laws"][0]
    kw = ot_options(d0) if lib == "OT" else {}
    generic = d0.get("via") == "generic"
    if v["shared"]:
        if generic:
            name, par = generic_args(lib, d0["family"], d0["params"])
            ps.add_random_variable(v["name"], lib + "Distribution", v["size"], interfaced_distribution=name,
                                   interfaced_distribution_parameters=par, **kw)
        else:
            ps.add_random_variable(v["name"], lib + CLS[d0["family"]], v["size"], **d0["params"], **kw)
    else:
        if generic:
            args = [generic_args(lib, d["family"], d["params"]) for d in v["laws"]]
            name = args[0][0]
            if lib == "OT":
                par = tuple([a[1][i] for a in args] for i in range(len(args[0][1])))
            else:
                par = {k: [a[1][k] for a in args] for k in args[0][1]}
            ps.add_random_vector(v["name"], lib + "Distribution", interfaced_distribution=name,
                                 interfaced_distribution_parameters=par)
        else:
            par = {k: [d["params"][k] for d in v["laws"]] for k in d0["params"]}
            for k in ("set_log", "use_weibull_min"):
                if k in par:
                    par[k] = [par[k][0]]
            ps.add_random_vector(v["name"], lib + CLS[d0["family"]], **par)


def warm_up(ps, variables):
    """Query the space before it is edited, so that every lazily computed cache exists when the edits come."""
    comps = space_layout({"variables": variables})
    X, U = space_points({"point_seed": 5, "n_points": 1}, comps)
    ps.transform_vect(X[0].copy())
    ps.untransform_vect(U[0].copy())
    ps.normalize_vect(X[0].copy())
    ps.compute_samples(2)
    ps.compute_samples(2, as_dict=True)
    ps.get_lower_bounds()
    ps.get_upper_bounds()


def apply_edit(ps, lib, e):
    """Apply one edit of the history to the real parameter space; returns the space to go on with."""
    from gemseo.algos.parameter_space import ParameterSpace

    op = e["op"]
    if op == "rename":
        ps.rename_variable(e["name"], e["new"])
    elif op == "remove":
        ps.remove_variable(e["name"])
    elif op in ("add_random", "add_det"):
        add_var(ps, lib, e["var"])
    elif op == "filter":
        ps = ps.filter(list(e["keep"]), copy=e["copy"])
    elif op == "extract_uncertain":
        ps = ps.extract_uncertain_space()
    elif op == "rebuild":
        ps.build_joint_distribution()
    elif op == "add_variables_from":
        new = ParameterSpace()
        new.add_variables_from(ps, *e["names"])
        ps = new
    else:
        raise ValueError(op)
    return ps


def build_space(lib, case, rep=None):
    from gemseo.algos.parameter_space import ParameterSpace

    ps = ParameterSpace()
    for v in case["variables"]:
        add_var(ps, lib, v)
    edits = case.get("edits") or []
    if edits:
        if case.get("warm"):
            warm_up(ps, case["variables"])
            if rep is not None:
                rep.count("spaces_queried_before_the_edits")
        for k, e in enumerate(edits):
            ps = apply_edit(ps, lib, e)
            if case.get("warm") and k == 0 and len(edits) > 1:
                # and once more in the middle of the history
                warm_up(ps, gen.apply_edits_model(case["variables"], edits[:1]))
    return ps


def space_layout(case):
    """Per flattened component: (variable index, role, law description or None, closed-form law or None)."""
    comps = []
    for vi, v in enumerate(case["variables"]):
        for j in range(v["size"]):
            if v["role"] == "rand":
                d = v["laws"][0] if v["shared"] else v["laws"][j]
                comps.append({"var": vi, "name": v["name"], "j": j, "role": "rand", "desc": d, "law": laws.build(d)})
            else:
                comps.append({"var": vi, "name": v["name"], "j": j, "role": "det", "type": v["type"],
                              "lb": float(v["lb"][j]), "ub": None if v["ub"][j] is None else float(v["ub"][j])})
    return comps


def space_points(case, comps):
    rng = np.random.default_rng(case["point_seed"])
    X, U = [], []
    for _ in range(case["n_points"]):
        x, u = [], []
        for c in comps:
            if c["role"] == "rand":
                r = rng.random()
                p = 1e-3 if r < 0.05 else 0.999 if r < 0.1 else float(rng.uniform(1e-3, 0.999))
                x.append(float(c["law"].ppf(p)))
                u.append(float(rng.uniform(1e-3, 0.999)))
            elif c["type"] == "integer":
                k = float(rng.integers(int(c["lb"]), int(c["ub"]) + 1))
                x.append(k)
                u.append(k)
            elif c["ub"] is None:
                val = c["lb"] + float(np.round(rng.exponential(3.0), 3))
                x.append(val)
                u.append(val)
            else:
                w = float(rng.uniform(0, 1))
                x.append(c["lb"] + w * (c["ub"] - c["lb"]))
                u.append(float(rng.uniform(0, 1)))
        X.append(x)
        U.append(u)
    return np.array(X, dtype=float), np.array(U, dtype=float)


def space_signature(case):
    sig = []
    for v in case["variables"]:
        if v["role"] == "det":
            sig.append(("det", v["type"], v["size"], v["ub"][0] is None))
        else:
            sig.append(("rand", feat(v["laws"][0]), v["size"], v["shared"]))
    hist = tuple(e["op"] + (":" + ("copy" if e["copy"] else "inplace") if e["op"] == "filter" else "") for e in case.get("edits") or [])
    return ("space", tuple(sig), tuple(case["libs"]), hist, bool(case.get("warm")))


def det_twin(variables):
    """A plain DesignSpace holding the deterministic variables only (the 'affine design-space map')."""
    from gemseo.algos.design_space import DesignSpace

    ds = DesignSpace()
    for v in variables:
        if v["role"] == "det":
            ub = np.array([np.inf if u is None else u for u in v["ub"]], dtype=float)
            lb = np.array(v["lb"], dtype=float)
            if v["type"] == "integer":
                ds.add_variable(v["name"], v["size"], "integer", lower_bound=lb.astype(int), upper_bound=ub.astype(int))
            else:
                ds.add_variable(v["name"], v["size"], "float", lower_bound=lb, upper_bound=ub)
    return ds


def judge_space(lib, case, model, comps, X, U, rep, seed):
    sig0 = f"C19:space:{lib}"
    try:
        ps = build_space(lib, case, rep)
    except Exception as e:
        rep.violation(f"{sig0}:construction-raises:{type(e).__name__}", "parameter space is constructible", case,
                      observed=f"{type(e).__name__}: {e}"[:400])
        return None
    rep.count(f"spaces_built_{lib}")
    det_idx = [i for i, c in enumerate(comps) if c["role"] == "det"]
    rnd_idx = [i for i, c in enumerate(comps) if c["role"] == "rand"]
    names = [v["name"] for v in model]
    if list(ps.variable_names) != names or ps.dimension != len(comps):
        rep.violation(f"{sig0}:layout", "variables are laid out in insertion order", case,
                      observed={"names": list(ps.variable_names), "dim": ps.dimension}, expected={"names": names, "dim": len(comps)})
        return None
    exp_unc = [v["name"] for v in model if v["role"] == "rand"]
    if list(ps.uncertain_variables) != exp_unc:
        # reported, then the sample / joint-distribution clauses below show what it does to the numbers
        rep.violation(f"{sig0}:uncertain_variables-not-in-the-order-of-the-space", "random variables are listed in the order of the space", case,
                      observed=list(ps.uncertain_variables), expected=exp_unc)
    twin = det_twin(model) if det_idx else None
    # the deterministic part extracted as a design space keeps the deterministic variables, in order, with their bounds
    try:
        dd = ps.extract_deterministic_space()
        rep.count("extracted_deterministic_spaces_checked")
        dn = [v["name"] for v in model if v["role"] == "det"]
        lbs = [c["lb"] for c in comps if c["role"] == "det"]
        ubs = [np.inf if c["ub"] is None else c["ub"] for c in comps if c["role"] == "det"]
        if list(dd.variable_names) != dn or (dn and (not np.array_equal(np.asarray(dd.get_lower_bounds(), dtype=float), np.array(lbs, dtype=float))
                                                     or not np.array_equal(np.asarray(dd.get_upper_bounds(), dtype=float), np.array(ubs, dtype=float)))):
            rep.violation(f"{sig0}:extract_deterministic_space:differs-from-the-model", "deterministic variables are kept as they are", case,
                          observed={"names": list(dd.variable_names), "lb": dd.get_lower_bounds() if dn else [], "ub": dd.get_upper_bounds() if dn else []},
                          expected={"names": dn, "lb": lbs, "ub": ubs})
    except Exception as e:
        rep.violation(f"{sig0}:extract_deterministic_space-raises:{type(e).__name__}", "the deterministic part is extractable", case,
                      observed=f"{type(e).__name__}: {e}"[:400])
    out = {"T": [], "Xu": []}

    def fail(where, what, clause, i, observed, expected, point):
        c = comps[i]
        ft = feat(c["desc"]) if c["role"] == "rand" else f"det-{c['type']}" + ("-halfbounded" if c["ub"] is None else "")
        rep.violation(f"{sig0}:{where}:{what}:{ft}", clause, dict(case, failing_point=point, component=i),
                      observed=observed, expected=expected)

    # ---- transform / untransform of points of the space
    for x in X:
        try:
            t = np.asarray(ps.transform_vect(x.copy()), dtype=float)
            xb = np.asarray(ps.untransform_vect(t.copy()), dtype=float)
        except Exception as e:
            rep.violation(f"{sig0}:transform-raises:{type(e).__name__}", "transform_vect / untransform_vect return a vector",
                          dict(case, failing_point=x), observed=f"{type(e).__name__}: {e}"[:400])
            return None
        out["T"].append(t)
        rep.count("space_points_transformed")
        if t.shape != x.shape or xb.shape != x.shape or not finite(t, xb):
            rep.violation(f"{sig0}:transform:shape-or-non-finite", "finite vector of the same shape", dict(case, failing_point=x),
                          observed={"t": t, "back": xb})
            return None
        for i in rnd_idx:
            c = comps[i]
            tol = tol_of(c["desc"])
            rep.count("transform_random_component_checked")
            if not cdf_within(c["law"], c["desc"], float(x[i]), float(t[i]), tol):
                fail("transform", "random-component-is-not-the-cdf", "transform_vect(x)_j = F_j(x_j)", i,
                     {"x": x[i], "t": t[i]}, {"F(x)": float(c["law"].cdf(x[i]))}, x)
                return None
            if abs(xb[i] - x[i]) > tol * law_scale(c["law"]) + cond_pad(c["desc"], float(x[i])):
                # equal in probability is as lossless as double precision allows where the CDF is flat
                if not cdf_within(c["law"], c["desc"], float(xb[i]), float(t[i]),
                                  tol if (c["desc"].get("transform") or c["desc"].get("trunc")) else 1e-13):
                    fail("roundtrip", "untransform-of-transform-is-not-identity", "untransform_vect(transform_vect(x)) = x", i,
                         {"x": x[i], "t": t[i], "back": xb[i]}, x[i], x)
                    return None
        if det_idx:
            rep.count("transform_deterministic_component_checked", len(det_idx))
            tt = np.asarray(twin.transform_vect(x[det_idx].copy()), dtype=float)
            for k, i in enumerate(det_idx):
                c = comps[i]
                if c["type"] == "float" and c["ub"] is not None:
                    exp_ = (x[i] - c["lb"]) / (c["ub"] - c["lb"])
                else:
                    exp_ = tt[k]
                if abs(t[i] - exp_) > 1e-12 * (1 + abs(exp_)) or abs(t[i] - tt[k]) > 1e-12 * (1 + abs(tt[k])):
                    fail("transform", "deterministic-component-off-the-affine-map", "deterministic variables follow the design-space map", i,
                         {"x": x[i], "t": t[i]}, {"affine": exp_, "design_space": tt[k]}, x)
                    return None
                if abs(xb[i] - x[i]) > 1e-12 * (1 + abs(x[i])):
                    fail("roundtrip", "deterministic-component-not-restored", "untransform_vect(transform_vect(x)) = x", i,
                         {"x": x[i], "back": xb[i]}, x[i], x)
                    return None

    # ---- unit hypercube -> variables -> unit hypercube
    for u in U:
        try:
            xu = np.asarray(ps.untransform_vect(u.copy()), dtype=float)
            ub = np.asarray(ps.transform_vect(xu.copy()), dtype=float)
        except Exception as e:
            rep.violation(f"{sig0}:untransform-raises:{type(e).__name__}", "untransform_vect returns a vector",
                          dict(case, failing_point=u), observed=f"{type(e).__name__}: {e}"[:400])
            return None
        out["Xu"].append(xu)
        rep.count("hypercube_points_untransformed")
        if not finite(xu, ub):
            rep.violation(f"{sig0}:untransform:non-finite", "finite vector", dict(case, failing_point=u), observed={"x": xu, "u": ub})
            return None
        for i in rnd_idx:
            c = comps[i]
            tol = tol_of(c["desc"])
            law = c["law"]
            rep.count("untransform_random_component_checked")
            qr = float(law.ppf(u[i]))
            ok_x = abs(xu[i] - qr) <= tol * law_scale(law) + cond_pad(c["desc"], qr)
            if not (ok_x or cdf_within(law, c["desc"], float(xu[i]), float(u[i]), tol)):
                fail("untransform", "random-component-is-not-the-inverse-cdf", "untransform_vect(u)_j = F_j^-1(u_j)", i,
                     {"u": u[i], "x": xu[i]}, {"quantile": qr}, u)
                return None
            if abs(ub[i] - u[i]) > tol and not cdf_within(law, c["desc"], float(xu[i]), float(u[i]), tol):
                fail("roundtrip", "transform-of-untransform-is-not-identity", "transform_vect(untransform_vect(u)) = u", i,
                     {"u": u[i], "x": xu[i], "back": ub[i]}, u[i], u)
                return None
        for i in det_idx:
            c = comps[i]
            exp_ = c["lb"] + u[i] * (c["ub"] - c["lb"]) if (c["type"] == "float" and c["ub"] is not None) else u[i]
            if abs(xu[i] - exp_) > 1e-12 * (1 + abs(exp_)) or abs(ub[i] - u[i]) > 1e-12 * (1 + abs(u[i])):
                fail("untransform", "deterministic-component-off-the-affine-map", "deterministic variables follow the design-space map", i,
                     {"u": u[i], "x": xu[i], "back": ub[i]}, exp_, u)
                return None

    # ---- 2-D inputs give the rows of the 1-D results
    try:
        T2 = np.asarray(ps.transform_vect(X.copy()), dtype=float)
        X2 = np.asarray(ps.untransform_vect(U.copy()), dtype=float)
        rep.count("two_dimensional_inputs_checked")
        if T2.shape != X.shape or X2.shape != U.shape or not np.allclose(T2, np.array(out["T"]), rtol=1e-13, atol=1e-300) \
                or not np.allclose(X2, np.array(out["Xu"]), rtol=1e-13, atol=1e-300):
            rep.violation(f"{sig0}:2d-input-differs-from-rows", "a 2-D array is transformed row by row", case,
                          observed={"T2": T2, "X2": X2}, expected={"T": np.array(out["T"]), "X": np.array(out["Xu"])})
    except Exception as e:
        rep.violation(f"{sig0}:2d-input-raises:{type(e).__name__}", "2-D arrays are accepted", case,
                      observed=f"{type(e).__name__}: {e}"[:400])

    # ---- evaluate_cdf (dict API) agrees with transform_vect
    x = X[0]
    o = 0
    dct, udct = {}, {}
    for v in model:
        if v["role"] == "rand":
            dct[v["name"]] = x[o:o + v["size"]].copy()
            udct[v["name"]] = U[0][o:o + v["size"]].copy()
        o += v["size"]
    try:
        cd = ps.evaluate_cdf(dct)
        ic = ps.evaluate_cdf(udct, inverse=True)
        rep.count("evaluate_cdf_checked")
        o = 0
        for v in model:
            if v["role"] == "rand":
                a = np.asarray(cd[v["name"]], dtype=float)
                b = np.asarray(ic[v["name"]], dtype=float)
                if a.shape != (v["size"],) or b.shape != (v["size"],) or not np.allclose(a, out["T"][0][o:o + v["size"]], rtol=1e-13, atol=1e-300) \
                        or not np.allclose(b, out["Xu"][0][o:o + v["size"]], rtol=1e-13, atol=1e-300):
                    rep.violation(f"{sig0}:evaluate_cdf-differs-from-transform_vect", "evaluate_cdf is the marginal CDF / inverse CDF", case,
                                  observed={"cdf": a, "icdf": b}, expected={"cdf": out["T"][0][o:o + v["size"]], "icdf": out["Xu"][0][o:o + v["size"]]})
            o += v["size"]
    except Exception as e:
        rep.violation(f"{sig0}:evaluate_cdf-raises:{type(e).__name__}", "evaluate_cdf returns values", case,
                      observed=f"{type(e).__name__}: {e}"[:400])

    # ---- normalize_vect / unnormalize_vect without distributions: deterministic components on the affine map
    try:
        nv = np.asarray(ps.normalize_vect(x.copy()), dtype=float)
        un = np.asarray(ps.unnormalize_vect(nv.copy()), dtype=float)
        rep.count("normalize_vect_checked")
        for i in det_idx:
            c = comps[i]
            exp_ = (x[i] - c["lb"]) / (c["ub"] - c["lb"]) if (c["type"] == "float" and c["ub"] is not None) else x[i]
            if abs(nv[i] - exp_) > 1e-12 * (1 + abs(exp_)):
                fail("normalize", "deterministic-component-off-the-affine-map", "deterministic variables follow the design-space map", i,
                     {"x": x[i], "normalized": nv[i]}, exp_, x)
        if not np.allclose(un, x, rtol=1e-12, atol=1e-12 * float(np.max(np.abs(x)) + 1)):
            rep.violation(f"{sig0}:normalize:roundtrip", "unnormalize_vect(normalize_vect(x)) = x", dict(case, failing_point=x),
                          observed=un, expected=x)
    except Exception as e:
        rep.violation(f"{sig0}:normalize-raises:{type(e).__name__}", "normalize_vect returns a vector", case,
                      observed=f"{type(e).__name__}: {e}"[:400])

    # ---- range / support per variable
    o = 0
    sup_all, rng_all = [], []
    for v in model:
        if v["role"] == "rand":
            rg = np.asarray(ps.get_range(v["name"]), dtype=float)
            sp = np.asarray(ps.get_support(v["name"]), dtype=float)
            rep.count("space_range_support_checked")
            if rg.shape != (v["size"], 2) or sp.shape != (v["size"], 2):
                rep.violation(f"{sig0}:range-or-support-shape", "one [lower, upper] row per component", case,
                              observed={"range": list(rg.shape), "support": list(sp.shape)}, expected=[v["size"], 2])
                return None
            for j in range(v["size"]):
                c = comps[o + j]
                lo, hi = c["law"].support()
                tol = tol_of(c["desc"])
                sc = law_scale(c["law"])
                ok = all((a == b) if math.isinf(b) else abs(a - b) <= tol * sc + cond_pad(c["desc"], b) for a, b in zip(sp[j], (lo, hi)))
                if not ok and not (c["desc"].get("transform") and (math.isinf(lo) or math.isinf(hi))):
                    fail("get_support", "differs-from-closed-form", "support of each component", o + j, sp[j], [lo, hi], None)
                pad = tol * sc + cond_pad(c["desc"], float(np.max(np.abs(rg[j]))))
                if not finite(rg[j]) or rg[j][0] < lo - pad or rg[j][1] > hi + pad or \
                        float(c["law"].cdf(rg[j][0] - pad)) > 1e-6 + tol or float(c["law"].sf(rg[j][1] + pad)) > 1e-6 + tol:
                    fail("get_range", "not-a-covering-subinterval-of-the-support", "range of each component", o + j, rg[j], [lo, hi], None)
                sup_all.append(sp[j])
                rng_all.append(rg[j])
        o += v["size"]

    # ---- samples of the joint distribution
    nr = len(rnd_idx)
    try:
        seed_space(ps, lib, seed)
        S = np.asarray(ps.compute_samples(N_SAMPLES), dtype=float)
        seed_space(ps, lib, seed + 1)
        S5 = np.asarray(ps.compute_samples(5), dtype=float)
        seed_space(ps, lib, seed + 1)
        D5 = ps.compute_samples(5, as_dict=True)
    except Exception as e:
        rep.violation(f"{sig0}:compute_samples-raises:{type(e).__name__}", "compute_samples returns samples", case,
                      observed=f"{type(e).__name__}: {e}"[:400])
        return out
    rep.count("space_sample_sets")
    if S.shape != (N_SAMPLES, nr) or S5.shape != (5, nr):
        rep.violation(f"{sig0}:compute_samples:shape", "one row per sample, one column per random component", case,
                      observed=[list(S.shape), list(S5.shape)], expected=[N_SAMPLES, nr])
        return out
    for k, i in enumerate(rnd_idx):
        c = comps[i]
        rep.count("space_sample_columns_checked")
        judge_sample_column(S[:, k], c["law"], c["desc"], sup_all[k], rng_all[k], f"{sig0}:compute_samples:{feat(c['desc'])}",
                            rep, "column", case=case)
    ok = isinstance(D5, list) and len(D5) == 5
    if ok:
        for r, row in enumerate(D5):
            k = 0
            for v in model:
                if v["role"] == "rand":
                    a = np.asarray(row.get(v["name"], []), dtype=float)
                    ok = ok and a.shape == (v["size"],) and np.array_equal(a, S5[r, k:k + v["size"]])
                    k += v["size"]
    rep.count("as_dict_checked")
    if not ok:
        rep.violation(f"{sig0}:compute_samples:as_dict-differs-from-array", "as_dict splits the same rows by variable", case,
                      observed=D5[:2] if isinstance(D5, list) else repr(D5)[:200], expected=S5[:2])
    # ---- as_dict samples: each key judged against the law of ITS variable
    try:
        seed_space(ps, lib, seed + 2)
        D = ps.compute_samples(N_DICT, as_dict=True)
        k = 0
        for v in model:
            if v["role"] != "rand":
                continue
            vals = np.array([np.asarray(row[v["name"]], dtype=float) for row in D])
            for jj in range(v["size"]):
                c = comps[rnd_idx[k + jj]]
                rep.count("as_dict_keys_checked_against_their_law")
                judge_sample_column(vals[:, jj], c["law"], c["desc"], sup_all[k + jj], rng_all[k + jj],
                                    f"{sig0}:compute_samples-as_dict:{feat(c['desc'])}", rep, "key", case=case)
            k += v["size"]
    except Exception as e:
        rep.violation(f"{sig0}:compute_samples-as_dict-raises:{type(e).__name__}", "as_dict samples carry every random variable", case,
                      observed=f"{type(e).__name__}: {e}"[:400])

    # ---- the joint distribution lists its components in the order of the random variables of the space
    try:
        jd = ps.distribution
        jsup = np.asarray(jd.support, dtype=float)
        jrng = np.asarray(jd.range, dtype=float)
        jmean = np.asarray(jd.mean, dtype=float)
        jstd = np.asarray(jd.standard_deviation, dtype=float)
        rep.count("joint_distribution_order_checked")
        if jsup.shape != (nr, 2) or jrng.shape != (nr, 2) or jmean.shape != (nr,) or jstd.shape != (nr,):
            rep.violation(f"{sig0}:joint-distribution:shape", "one row per random component", case,
                          observed=[list(jsup.shape), list(jrng.shape), list(jmean.shape), list(jstd.shape)], expected=nr)
        else:
            for k, i in enumerate(rnd_idx):
                c = comps[i]
                law, tol, sc = c["law"], tol_of(c["desc"]), law_scale(c["law"])
                lo, hi = law.support()
                transformed_unbounded = c["desc"].get("transform") and (math.isinf(lo) or math.isinf(hi))
                ok = all((a == b) if math.isinf(b) else abs(a - b) <= tol * sc + cond_pad(c["desc"], b) for a, b in zip(jsup[k], (lo, hi)))
                if not transformed_unbounded and not ok:
                    fail("joint-distribution", "support-row-is-not-that-of-its-variable", "joint support follows the variable order", i, jsup[k], [lo, hi], None)
                if not np.array_equal(jsup[k], sup_all[k]) or not np.array_equal(jrng[k], rng_all[k]):
                    fail("joint-distribution", "support-or-range-row-differs-from-get_support", "joint support/range follow the variable order", i,
                         {"joint": [jsup[k], jrng[k]]}, {"by_name": [sup_all[k], rng_all[k]]}, None)
                if law.mean() is not None and law.std() is not None:
                    mt = 1e-3 if (c["desc"].get("trunc") or c["desc"].get("transform")) else tol
                    if abs(jmean[k] - law.mean()) > mt * max(law.std(), 1e-300) + cond_pad(c["desc"], law.mean()) + (mt if law.std() == 0 else 0) \
                            or abs(jstd[k] - law.std()) > mt * law.std():
                        fail("joint-distribution", "moments-are-not-those-of-its-variable", "joint mean/std follow the variable order", i,
                             [jmean[k], jstd[k]], [law.mean(), law.std()], None)
    except Exception as e:
        rep.violation(f"{sig0}:joint-distribution-raises:{type(e).__name__}", "the joint distribution reports support/range/moments", case,
                      observed=f"{type(e).__name__}: {e}"[:400])
    out["S"] = S
    out["ps"] = ps
    return out


def run_space_case(case, rep, seed):
    edits = case.get("edits") or []
    model = gen.apply_edits_model(case["variables"], edits)
    comps = space_layout({"variables": model})
    X, U = space_points(case, comps)
    rep.case(space_signature(case), True)
    if edits:
        count_edits(case, rep)
    for v in model:
        if v["role"] == "rand":
            for d in v["laws"]:
                if boundary_tags(d):
                    rep.count("space_random_variables_at_boundary_values")
                    if any(t.endswith("-zero-one-sided") for t in boundary_tags(d)):
                        rep.count("space_truncation_bound_exactly_zero_one_sided")
        elif any(b is not None and (b == 0 or _is_int(b)) for b in list(v["lb"]) + list(v["ub"])) and v["type"] == "float":
            rep.count("deterministic_bounds_at_boundary_values")
    res = {lib: judge_space(lib, case, model, comps, X, U, rep, seed) for lib in case["libs"]}
    a, b = res.get("SP"), res.get("OT")
    if a and b and len(a["T"]) == len(X) and len(b["T"]) == len(X) and len(a["Xu"]) == len(U) and len(b["Xu"]) == len(U):
        rep.count("sp_vs_ot_spaces_compared")
        for i, c in enumerate(comps):
            tol = tol_of(c["desc"]) if c["role"] == "rand" else 1e-12
            sc = law_scale(c["law"]) if c["role"] == "rand" else 1.0
            for r in range(len(X)):
                ta, tb = a["T"][r][i], b["T"][r][i]
                xa, xb = a["Xu"][r][i], b["Xu"][r][i]
                pad = cond_pad(c["desc"], float(X[r][i])) if c["role"] == "rand" else 0.0
                span = 0.0
                if c["role"] == "rand":
                    span = abs(float(c["law"].cdf(X[r][i] + pad)) - float(c["law"].cdf(X[r][i] - pad)))
                bad_t = abs(ta - tb) > tol + span
                bad_x = abs(xa - xb) > tol * sc + (cond_pad(c["desc"], float(xa)) if c["role"] == "rand" else 1e-12 * (1 + abs(xa)))
                if bad_x and c["role"] == "rand":
                    bad_x = abs(float(c["law"].cdf(xa)) - float(c["law"].cdf(xb))) > tol
                if bad_t or bad_x:
                    ft = feat(c["desc"]) if c["role"] == "rand" else "det"
                    rep.violation(f"C19:space:SP-vs-OT:{ft}", "SciPy- and OpenTURNS-based spaces agree", dict(case, component=i),
                                  observed={"SP": [ta, xa], "OT": [tb, xb]})
                    return
    for lib in case["libs"]:
        r = res.get(lib)
        if r and "S" in r:
            judge_statistics(lib, case, model, comps, r["S"], rep)
            break


def count_edits(case, rep):
    """Counters proving which kinds of histories were exercised before the sample / transform clauses."""
    rep.count("spaces_edited_before_sampling")
    variables = case["variables"]
    for k, e in enumerate(case["edits"]):
        before = gen.apply_edits_model(variables, case["edits"][:k])
        rnd = [v["name"] for v in before if v["role"] == "rand"]
        op = e["op"]
        if op == "rename":
            if e["name"] in rnd:
                rep.count("renamed_random_variables")
                if e["name"] != rnd[-1]:
                    rep.count("renamed_random_variables_not_last")
                    if any(x["op"] in ("add_random", "remove", "rebuild", "extract_uncertain", "filter") for x in case["edits"][k + 1:]):
                        rep.count("joint_rebuilt_after_renaming_a_random_variable_not_last")
            else:
                rep.count("renamed_deterministic_variables")
        elif op == "remove":
            rep.count("removed_random_variables" if e["name"] in rnd else "removed_deterministic_variables")
        else:
            rep.count({"add_random": "random_variables_added_after_construction", "add_det": "deterministic_variables_added_after_construction",
                       "filter": "filtered_spaces", "extract_uncertain": "extracted_uncertain_spaces", "rebuild": "joint_distributions_rebuilt",
                       "add_variables_from": "spaces_copied_with_add_variables_from"}[op])


# --------------------------------------------------------------------------- statistics estimators on generated samples
def judge_statistics(lib, case, model, comps, S, rep):
    from gemseo.datasets.dataset import Dataset
    from gemseo.uncertainty.statistics.empirical_statistics import EmpiricalStatistics

    rnd = [v for v in model if v["role"] == "rand"]
    names = [v["name"] for v in rnd]
    sizes = {v["name"]: v["size"] for v in rnd}
    sig0 = "C19:statistics:empirical"
    try:
        ds = Dataset.from_array(S, variable_names=names, variable_names_to_n_components=sizes)
        es = EmpiricalStatistics(ds)
        prob = 0.3
        got = {"mean": es.compute_mean(), "std": es.compute_standard_deviation(), "var": es.compute_variance(),
               "min": es.compute_minimum(), "max": es.compute_maximum(), "quantile": es.compute_quantile(prob),
               "median": es.compute_median(), "range": es.compute_range(), "quartile3": es.compute_quartile(3),
               "percentile10": es.compute_percentile(10), "margin2": es.compute_margin(2.0)}
    except Exception as e:
        rep.violation(f"{sig0}:raises:{type(e).__name__}", "empirical statistics of generated samples are computable", case,
                      observed=f"{type(e).__name__}: {e}"[:400])
        return
    k = 0
    rcomps = [c for c in comps if c["role"] == "rand"]
    for v in rnd:
        col = S[:, k:k + v["size"]]
        ref = {"mean": col.mean(0), "std": col.std(0), "var": col.var(0), "min": col.min(0), "max": col.max(0),
               "quantile": np.quantile(col, prob, axis=0), "median": np.quantile(col, 0.5, axis=0),
               "range": col.max(0) - col.min(0), "quartile3": np.quantile(col, 0.75, axis=0),
               "percentile10": np.quantile(col, 0.1, axis=0), "margin2": col.mean(0) + 2.0 * col.std(0)}
        for name, r in ref.items():
            rep.count("empirical_statistics_vs_numpy")
            o = np.asarray(got[name][v["name"]], dtype=float)
            if o.shape != r.shape or not np.allclose(o, r, rtol=1e-12, atol=1e-12 * float(np.max(np.abs(col)))):
                rep.violation(f"{sig0}:{name}-differs-from-numpy", "empirical statistic equals numpy's on the same samples",
                              dict(case, variable=v["name"]), observed=o, expected=r)
        # consistency with the law: the empirical quantile lies between the closed-form quantiles at p -+ DKW
        for j in range(v["size"]):
            c = rcomps[k + j]
            if isinstance(c["law"], laws.Dirac):
                continue
            rep.count("empirical_quantile_vs_law")
            for name, p in (("quantile", prob), ("median", 0.5), ("quartile3", 0.75), ("percentile10", 0.1)):
                o = float(np.asarray(got[name][v["name"]])[j])
                lo = float(c["law"].ppf(p - DKW - 1.0 / N_SAMPLES))
                hi = float(c["law"].ppf(p + DKW + 1.0 / N_SAMPLES))
                pad = tol_of(c["desc"]) * law_scale(c["law"]) + cond_pad(c["desc"], o)
                if not lo - pad <= o <= hi + pad:
                    rep.violation(f"{sig0}:{name}-inconsistent-with-the-law", "empirical quantile within the DKW band of the law",
                                  dict(case, variable=v["name"], component=j), observed=o, expected=[lo, hi])
        k += v["size"]
    # probabilities
    k = 0
    thresh = {}
    for v in rnd:
        thresh[v["name"]] = np.array([float(rcomps[k + j]["law"].ppf(0.6)) for j in range(v["size"])])
        k += v["size"]
    try:
        pg = es.compute_probability(thresh, greater=True)
        pl = es.compute_probability(thresh, greater=False)
        k = 0
        for v in rnd:
            col = S[:, k:k + v["size"]]
            rep.count("empirical_statistics_vs_numpy", 2)
            eg, el = (col >= thresh[v["name"]]).mean(0), (col <= thresh[v["name"]]).mean(0)
            if not np.allclose(pg[v["name"]], eg, atol=1e-12) or not np.allclose(pl[v["name"]], el, atol=1e-12):
                rep.violation(f"{sig0}:probability-differs-from-numpy", "empirical probability equals the sample frequency",
                              dict(case, variable=v["name"]), observed=[pg[v["name"]], pl[v["name"]]], expected=[eg, el])
            for j in range(v["size"]):
                if not isinstance(rcomps[k + j]["law"], laws.Dirac) and abs(float(np.asarray(pl[v["name"]])[j]) - 0.6) > DKW + 1e-6:
                    rep.violation(f"{sig0}:probability-inconsistent-with-the-law", "empirical probability within the DKW band",
                                  dict(case, variable=v["name"], component=j), observed=float(np.asarray(pl[v["name"]])[j]), expected=0.6)
            k += v["size"]
    except Exception as e:
        rep.violation(f"{sig0}:probability-raises:{type(e).__name__}", "empirical probabilities are computable", case,
                      observed=f"{type(e).__name__}: {e}"[:400])

    # parametric statistics: fit the true family of one variable, the fitted law must be self-consistent and close to the truth
    fam_to_ot = {"normal": "Normal", "uniform": "Uniform", "exponential": "Exponential"}
    k = 0
    for v in rnd:
        d = (v["laws"][0])
        if d["family"] in fam_to_ot and not d.get("transform") and not d.get("trunc"):
            judge_parametric(ds, v, [c for c in rcomps[k:k + v["size"]]], S[:, k:k + v["size"]], fam_to_ot[d["family"]], case, rep)
            break
        k += v["size"]


def judge_parametric(ds, v, rc, col, ot_name, case, rep):
    from gemseo.uncertainty.statistics.parametric_statistics import ParametricStatistics

    sig0 = f"C19:statistics:parametric:{ot_name}"
    name = v["name"]
    p = 0.35
    try:
        st = ParametricStatistics(ds, [ot_name], variable_names=[name])
        thr = {name: np.array([float(c["law"].ppf(0.6)) for c in rc])}
        got = {"mean": st.compute_mean()[name], "std": st.compute_standard_deviation()[name], "var": st.compute_variance()[name],
               "min": st.compute_minimum()[name], "max": st.compute_maximum()[name], "quantile": st.compute_quantile(p)[name],
               "range": st.compute_range()[name], "pg": st.compute_probability(thr, greater=True)[name],
               "pl": st.compute_probability(thr, greater=False)[name], "moment2": st.compute_moment(2)[name]}
    except Exception as e:
        rep.violation(f"{sig0}:raises:{type(e).__name__}", "parametric statistics of generated samples are computable",
                      dict(case, variable=name), observed=f"{type(e).__name__}: {e}"[:400])
        return
    n = col.shape[0]
    for j, c in enumerate(rc):
        rep.count("parametric_statistics_checked")
        g = {k_: float(np.asarray(val, dtype=float)[j]) for k_, val in got.items()}
        m, s = g["mean"], g["std"]
        if not (math.isfinite(m) and math.isfinite(s) and s > 0):
            rep.violation(f"{sig0}:non-finite", "finite fitted moments", dict(case, variable=name), observed=g)
            continue
        # closed-form law of the fitted family written from the reported statistics
        if ot_name == "Normal":
            fitted = laws.Normal(m, s)
            exp_min, exp_max = -np.inf, np.inf
        elif ot_name == "Uniform":
            fitted = laws.Uniform(g["min"], g["max"])
            exp_min, exp_max = g["min"], g["max"]
        else:
            fitted = laws.Exponential(1.0 / s, g["min"])
            exp_min, exp_max = g["min"], np.inf
        tol = 1e-9
        checks = {
            "mean": (m, fitted.mean()), "std": (s, fitted.std()), "var": (g["var"], s * s),
            "quantile": (g["quantile"], float(fitted.ppf(p))), "pl": (g["pl"], float(fitted.cdf(thr[name][j]))),
            "pg": (g["pg"], float(fitted.sf(thr[name][j]))), "min": (g["min"], exp_min), "max": (g["max"], exp_max),
            "range": (g["range"], exp_max - exp_min),
        }
        for what, (o, e) in checks.items():
            scale = 1.0 if what in ("pl", "pg") else (s * s if what == "var" else s)
            okv = (o == e) if (math.isinf(e) or math.isinf(o)) else abs(o - e) <= tol * scale + 1e-12 * abs(e)
            if not okv:
                rep.violation(f"{sig0}:{what}-inconsistent-with-the-fitted-law", "statistics of a fitted law obey its closed form",
                              dict(case, variable=name, component=j), observed=o, expected=e)
        # closeness to the generating law (loose: 8 standard errors on the mean, 10 % on the standard deviation)
        law = c["law"]
        # (OpenTURNS' location estimators are not shift-invariant: the spread is only compared when |mean| <~ spread)
        well_conditioned = abs(law.mean()) <= 10 * law.std()
        if abs(m - law.mean()) > 8 * law.std() / math.sqrt(n) + 0.01 * law.std() or (well_conditioned and abs(s / law.std() - 1.0) > 0.1):
            rep.violation(f"{sig0}:fitted-law-far-from-the-generating-law", "parametric statistics are consistent with the law",
                          dict(case, variable=name, component=j), observed=[m, s], expected=[law.mean(), law.std()])
        central2 = s * s
        if abs(g["moment2"] - central2) > 1e-6 * central2 and abs(g["moment2"] - (central2 + m * m)) <= 1e-6 * (central2 + m * m):
            rep.observe("ParametricStatistics.compute_moment-returns-the-raw-moment-while-documented-as-central",
                        {"order": 2, "returned": g["moment2"], "central": central2, "raw": central2 + m * m})


# --------------------------------------------------------------------------- directed cases
def directed_cases():
    L = []

    def law(family, params, via="class", libs=("SP", "OT"), transform=None, trunc=None):
        L.append({"kind": "law", "family": family, "params": params, "via": via, "libs": list(libs),
                  "transform": transform, "trunc": trunc, "mode": "directed"})

    law("normal", {"mu": 1.0, "sigma": 2.0})
    law("normal", {"mu": 0.0, "sigma": 3.0}, via="generic")
    law("exponential", {"rate": 4.0, "loc": 0.0})
    law("exponential", {"rate": 0.25, "loc": -3.0})
    law("lognormal", {"mu": 2.0, "sigma": 1.5, "location": 0.5, "set_log": False})
    law("lognormal", {"mu": 0.3, "sigma": 0.7, "location": -1.0, "set_log": True})
    law("weibull", {"location": 1.0, "scale": 2.0, "shape": 3.0, "use_weibull_min": False})
    law("weibull", {"location": -1.0, "scale": 0.5, "shape": 0.7, "use_weibull_min": True})
    law("triangular", {"minimum": 0.0, "mode": 0.0, "maximum": 2.0})
    law("triangular", {"minimum": -1.0, "mode": 3.0, "maximum": 3.0})
    law("triangular", {"minimum": 0.0, "mode": 1.0, "maximum": 4.0})
    law("beta", {"alpha": 0.5, "beta": 0.5, "minimum": 0.0, "maximum": 1.0})
    law("beta", {"alpha": 2.0, "beta": 5.0, "minimum": -2.0, "maximum": 3.0})
    law("uniform", {"minimum": -1.0, "maximum": 3.0})
    law("gamma", {"k": 2.0, "rate": 3.0, "loc": 1.0}, via="generic")
    law("laplace", {"mu": 1.0, "scale": 2.0}, via="generic")
    law("dirac", {"variable_value": 2.5}, libs=("OT",))
    law("dirac", {"variable_value": 0.0}, libs=("OT",))
    law("normal", {"mu": 1.0, "sigma": 2.0}, libs=("OT",), trunc=[0.0, 3.0])
    law("normal", {"mu": 1.0, "sigma": 2.0}, libs=("OT",), trunc=[0.5, None])
    law("normal", {"mu": 1.0, "sigma": 2.0}, libs=("OT",), trunc=[None, 0.5])
    law("exponential", {"rate": 2.0, "loc": 0.0}, libs=("OT",), trunc=[None, 1.0])
    law("uniform", {"minimum": 1.0, "maximum": 2.0}, libs=("OT",), transform=["affine", -2.0, 1.0])
    law("normal", {"mu": 0.0, "sigma": 1.0}, libs=("OT",), transform=["exp"])
    law("uniform", {"minimum": 0.0, "maximum": 1.0}, libs=("OT",), transform=["affine", 3.0, -1.0], trunc=[0.0, 1.5])
    law("triangular", {"minimum": 0.0, "mode": 1.0, "maximum": 4.0}, libs=("OT",), transform=["affine", -1.0, 0.0], trunc=[-3.0, None])
    # boundary values: exact zeros of both signs, exact one, Python ints, bounds on the law's own location / mean / mode
    for b in (0.0, -0.0, 0):
        law("normal", {"mu": 0.0, "sigma": 1.0}, libs=("OT",), trunc=[b, None])
        law("normal", {"mu": 0.0, "sigma": 1.0}, libs=("OT",), trunc=[None, b])
        law("uniform", {"minimum": -1.0, "maximum": 1.0}, libs=("OT",), trunc=[None, b])
        law("uniform", {"minimum": -1.0, "maximum": 1.0}, libs=("OT",), trunc=[b, None])
    law("normal", {"mu": 0.5, "sigma": 1.0}, libs=("OT",), trunc=[0.0, 1.0])
    law("normal", {"mu": -0.5, "sigma": 1.0}, libs=("OT",), trunc=[-1.0, 0.0])
    law("normal", {"mu": 0.5, "sigma": 2.0}, libs=("OT",), trunc=[0, 1])
    law("normal", {"mu": 1.0, "sigma": 2.0}, libs=("OT",), trunc=[1.0, None])          # bound on the mean
    law("triangular", {"minimum": 0.0, "mode": 1.0, "maximum": 3.0}, libs=("OT",), trunc=[None, 1.0])   # bound on the mode
    law("exponential", {"rate": 1.0, "loc": -1.0}, libs=("OT",), trunc=[0.0, None])
    law("gumbel", {"scale": 1.0, "loc": 0.0}, via="generic", libs=("OT",), trunc=[None, 0.0])
    law("uniform", {"minimum": 0.0, "maximum": 1.0}, libs=("OT",), transform=["affine", 1.0, 0.0])
    law("uniform", {"minimum": 0, "maximum": 1}, libs=("OT",), transform=["affine", 1, 0])
    law("normal", {"mu": 0.0, "sigma": 1.0}, libs=("OT",), transform=["affine", -1, -0.0])
    law("normal", {"mu": 1.0, "sigma": 1.0}, libs=("OT",), transform=["affine", 1.0, -1.0], trunc=[0.0, None])
    law("normal", {"mu": 0, "sigma": 1})
    law("normal", {"mu": -0.0, "sigma": 1.0})
    law("uniform", {"minimum": 0, "maximum": 1})
    law("uniform", {"minimum": -1, "maximum": 0})
    law("uniform", {"minimum": -0.0, "maximum": 1.0})
    law("triangular", {"minimum": 0, "mode": 1, "maximum": 2})
    law("triangular", {"minimum": -1, "mode": 0, "maximum": 0})
    law("exponential", {"rate": 1, "loc": 0})
    law("beta", {"alpha": 1, "beta": 1, "minimum": 0, "maximum": 1})
    law("beta", {"alpha": 2.0, "beta": 1.0, "minimum": -1.0, "maximum": 0.0})
    law("weibull", {"location": 0, "scale": 1, "shape": 1, "use_weibull_min": True})
    law("weibull", {"location": 0.0, "scale": 1.0, "shape": 2.0, "use_weibull_min": False})
    law("lognormal", {"mu": 0, "sigma": 1, "location": 0, "set_log": True})
    law("lognormal", {"mu": 1, "sigma": 1, "location": 0, "set_log": False})
    law("gamma", {"k": 1, "rate": 1, "loc": 0}, via="generic")
    law("logistic", {"mu": 0, "scale": 1}, via="generic")
    law("rayleigh", {"scale": 1, "loc": 0}, via="generic")
    law("dirac", {"variable_value": 0}, libs=("OT",))
    law("dirac", {"variable_value": -0.0}, libs=("OT",))
    law("dirac", {"variable_value": 1}, libs=("OT",))
    half = {"kind": "law", "family": "normal", "params": {"mu": 0.0, "sigma": 1.0}, "via": "class", "libs": ["OT"],
            "transform": None, "trunc": [0.0, None]}
    neg = {"kind": "law", "family": "uniform", "params": {"minimum": -1, "maximum": 1}, "via": "class", "libs": ["OT"],
           "transform": None, "trunc": [None, 0]}
    L.append({"kind": "space", "libs": ["OT"], "n_points": 4, "point_seed": 14, "variables": [
        {"name": "d", "role": "det", "type": "float", "size": 1, "lb": [0], "ub": [1], "scalar": True},
        {"name": "u", "role": "rand", "size": 1, "shared": True, "laws": [half]},
        {"name": "e", "role": "det", "type": "float", "size": 2, "lb": [-1.0, -0.0], "ub": [0.0, 2.0]},
        {"name": "v", "role": "rand", "size": 2, "shared": True, "laws": [neg]}]})
    # the parameter space of the design-phase probe, and friends
    tri = {"kind": "law", "family": "triangular", "params": {"minimum": 0.0, "mode": 1.0, "maximum": 4.0}, "via": "class",
           "libs": ["SP", "OT"], "transform": None, "trunc": None}
    nrm = [{"kind": "law", "family": "normal", "params": {"mu": m, "sigma": s}, "via": "class", "libs": ["SP", "OT"],
            "transform": None, "trunc": None} for m, s in ((1.0, 2.0), (2.0, 0.5), (3.0, 1.0))]
    exq = {"kind": "law", "family": "exponential", "params": {"rate": 2.0, "loc": 1.0}, "via": "class", "libs": ["SP", "OT"],
           "transform": None, "trunc": None}
    L.append({"kind": "space", "libs": ["SP", "OT"], "n_points": 4, "point_seed": 11, "variables": [
        {"name": "d", "role": "det", "type": "float", "size": 2, "lb": [1.0, -2.0], "ub": [3.0, 5.0]},
        {"name": "u", "role": "rand", "size": 1, "shared": True, "laws": [tri]},
        {"name": "k", "role": "det", "type": "integer", "size": 1, "lb": [0], "ub": [10]},
        {"name": "n", "role": "rand", "size": 3, "shared": False, "laws": nrm},
        {"name": "e", "role": "rand", "size": 2, "shared": True, "laws": [exq]},
        {"name": "w", "role": "det", "type": "float", "size": 1, "lb": [0.0], "ub": [None]}]})
    gam = [{"kind": "law", "family": "gumbel", "params": {"scale": s, "loc": 0.5}, "via": "generic", "libs": ["SP", "OT"],
            "transform": None, "trunc": None} for s in (1.0, 2.0)]
    L.append({"kind": "space", "libs": ["SP", "OT"], "n_points": 4, "point_seed": 12, "variables": [
        {"name": "h", "role": "rand", "size": 2, "shared": False, "laws": gam},
        {"name": "x", "role": "det", "type": "float", "size": 1, "lb": [-1.0], "ub": [1.0]},
        {"name": "u", "role": "rand", "size": 2, "shared": True, "laws": [dict(nrm[0], family="uniform", params={"minimum": -1.0, "maximum": 3.0})]}]})
    tn = {"kind": "law", "family": "normal", "params": {"mu": 1.0, "sigma": 2.0}, "via": "class", "libs": ["OT"],
          "transform": None, "trunc": [0.0, 3.0]}
    au = {"kind": "law", "family": "uniform", "params": {"minimum": 1.0, "maximum": 2.0}, "via": "class", "libs": ["OT"],
          "transform": ["affine", -2.0, 1.0], "trunc": None}
    L.append({"kind": "space", "libs": ["OT"], "n_points": 4, "point_seed": 13, "variables": [
        {"name": "t", "role": "rand", "size": 1, "shared": True, "laws": [tn]},
        {"name": "a", "role": "rand", "size": 2, "shared": True, "laws": [au]},
        {"name": "x", "role": "det", "type": "float", "size": 2, "lb": [0.0, 1.0], "ub": [2.0, 5.0]}]})
    # edited spaces: the history is applied to the real space and mirrored in the model before any clause runs
    def uni(a, b):
        return {"kind": "law", "family": "uniform", "params": {"minimum": a, "maximum": b}, "via": "class",
                "libs": ["SP", "OT"], "transform": None, "trunc": None}

    def rv(name, a, b, size=1):
        return {"name": name, "role": "rand", "size": size, "shared": True, "laws": [uni(a, b)]}

    dvar = {"name": "d", "role": "det", "type": "float", "size": 1, "lb": [-1.0], "ub": [1.0]}
    base = [dvar, rv("u", 0.0, 1.0), rv("z", 10.0, 11.0)]
    three = [rv("u", 0.0, 1.0), dvar, {"name": "n", "role": "rand", "size": 3, "shared": False, "laws": nrm}, rv("z", 10.0, 11.0, 2)]
    histories = [
        (base, [{"op": "rename", "name": "u", "new": "v"}]),
        (base, [{"op": "rename", "name": "u", "new": "v"}, {"op": "add_random", "var": rv("w", 20.0, 21.0)}]),
        (base, [{"op": "rename", "name": "u", "new": "v"}, {"op": "rebuild"}]),
        (base, [{"op": "rename", "name": "z", "new": "y"}, {"op": "rename", "name": "d", "new": "dd"}]),
        (three, [{"op": "rename", "name": "n", "new": "m"}, {"op": "extract_uncertain"}]),
        (three, [{"op": "rename", "name": "u", "new": "a"}, {"op": "remove", "name": "n"}]),
        (three, [{"op": "remove", "name": "u"}, {"op": "add_random", "var": rv("w", 20.0, 21.0)}, {"op": "rename", "name": "n", "new": "m"}]),
        (three, [{"op": "filter", "keep": ["z", "u", "d"], "copy": False}, {"op": "rename", "name": "u", "new": "a"}]),
        (three, [{"op": "filter", "keep": ["z", "n"], "copy": True}, {"op": "add_det", "var": dict(dvar, name="c")}]),
        (three, [{"op": "rename", "name": "n", "new": "m"}, {"op": "add_variables_from", "names": ["z", "d", "m"]}]),
        (three, [{"op": "add_variables_from", "names": ["z", "u"]}, {"op": "rename", "name": "z", "new": "y"}, {"op": "rebuild"}]),
    ]
    for k, (variables, edits) in enumerate(histories):
        for warm in (False, True):
            L.append({"kind": "space", "libs": ["SP", "OT"], "n_points": 3, "point_seed": 20 + k, "variables": variables,
                      "edits": edits, "warm": warm})
    return L


# --------------------------------------------------------------------------- entry points
def _quiet():
    import logging
    import warnings

    logging.disable(logging.CRITICAL)
    warnings.filterwarnings("ignore")


def run_case(case, rep, seed):
    if case.get("kind") == "space":
        run_space_case(case, rep, seed)
    else:
        run_law_case(case, rep, seed)


def run_shard(spec, rep):
    _quiet()
    rng = np.random.default_rng(spec["seed"])
    seed = int(spec["seed"])
    if spec.get("shard", 0) == 0:
        for case in directed_cases():
            run_case(case, rep, seed)
            rep.count("directed_cases")
        # documented refusal: a parameter space holds either SP or OT laws
        from gemseo.algos.parameter_space import ParameterSpace

        ps = ParameterSpace()
        ps.add_random_variable("a", "SPNormalDistribution", mu=0.0, sigma=1.0)
        try:
            ps.add_random_variable("b", "OTNormalDistribution", mu=0.0, sigma=1.0)
            rep.observe("mixing-SP-and-OT-laws-is-not-refused")
        except ValueError:
            rep.count("mixing_sp_and_ot_refused")
    # law cases: every family x every mode, `reps` times per shard
    plan = []
    for _ in range(spec["reps"]):
        for kind in gen.PLAIN_FAMILIES:
            plan.append((kind, "plain"))
        for kind in gen.GENERIC_TWINS:
            plan.append((kind, "generic"))
        plan.append(("dirac", "plain"))
        fams = [k for k in gen.PLAIN_FAMILIES]
        for mode in gen.OT_MODES:
            for kind in (rng.choice(fams, size=3, replace=False).tolist() if mode != "exp" else ["normal", "uniform"]):
                plan.append((kind, mode))
    n_sampled = 0
    for i, (kind, mode) in enumerate(plan):
        if rep.time_left() < 0:
            rep.count("stopped_on_time_budget")
            break
        case = gen.gen_law_case(rng, kind, mode)
        run_law_case(case, rep, seed + i)
        rep.count("generated_law_cases")
        if n_sampled < 2 and i % 7 == 0:
            rep.sample({"case": case, "note": "law judged against the closed form (grid, moments, support, range, 20000 samples) per library, then SP vs OT"})
            n_sampled += 1
    for i in range(spec["n_spaces"]):
        if rep.time_left() < 0:
            rep.count("stopped_on_time_budget")
            break
        case = gen.gen_edited_space_case(rng) if i % 5 < 3 else gen.gen_space_case(rng)
        run_space_case(case, rep, seed + 100000 + i)
        rep.count("generated_space_cases")
        if i < 1:
            rep.sample({"case": case, "note": "parameter space built per library: transform/untransform, samples, statistics"})


def replay(case, rep):
    _quiet()
    case = {k: v for k, v in case.items() if k not in ("failing_point", "component", "variable", "failing_law")}
    run_case(case, rep, 12345)
